(* Model/Glob.v — executable model of Python's fnmatch.fnmatch (posix: normcase is the identity):
   `*` any run of characters (crosses "/"), `?` one character, `[seq]` / `[!seq]` with ranges,
   an unclosed `[` is a literal, a `]` directly after `[` or `[!` belongs to the set; the text of a bracket expression
   is cut into chunks at the range hyphens and reversed ranges are removed the way fnmatch.translate does it.
   fnmatch is a library oracle: this model is validated against CPython's fnmatch on generated
   (pattern, name) pairs by the leaf level of the C14 correspondence check.  No proofs here. *)
From TL Require Import Lib.Base Model.CollectStr Gen.CollectGen.

Inductive item := ISingle (c : ascii) | IRange (lo hi : ascii).
Inductive tok := TStar | TAny | TLit (c : ascii) | TSet (neg : bool) (items : list item).

Definition c_star : ascii := "*"%char.
Definition c_qm : ascii := "?"%char.
Definition c_lbr : ascii := "["%char.
Definition c_rbr : ascii := "]"%char.
Definition c_bang : ascii := "!"%char.
Definition c_dash : ascii := "-"%char.

(* the characters that are not literals outside a bracket expression *)
Definition special (c : ascii) : bool := aeqb c c_star || aeqb c c_qm || aeqb c c_lbr.

Definition tok1 (c : ascii) : tok :=
  if aeqb c c_star then TStar else if aeqb c c_qm then TAny else TLit c.

(* contents of a bracket expression, the simple reading: x-y is a range, anything else a single character.
   (Proofs/GlobSets.v: fnmatch's own treatment below decides the same set except when a reversed range at the very
   start lets a "!" surface as the first character.) *)
Fixpoint items_of (l : list ascii) : list item :=
  match l with
  | [] => []
  | c :: tl =>
    match tl with
    | d :: e :: r => if aeqb d c_dash then IRange c e :: items_of r else ISingle c :: items_of tl
    | _ => ISingle c :: items_of tl
    end
  end.

Definition mk_set_simple (stuff : list ascii) : tok :=
  match stuff with
  | c :: r => if aeqb c c_bang then TSet true (items_of r) else TSet false (items_of stuff)
  | [] => TSet false []
  end.

(* What fnmatch.translate (CPython 3.12) does with stuff = pat[i:j], the text between "[" and the closing "]".
   pat.find('-', k, j) on cur = pat[i:j] with off = k - i: Some (pat[i:k], pat[k+1:j]) *)
Definition zero_c : ascii := Ascii.zero.

Fixpoint split_dash (off : nat) (s : list ascii) : option (list ascii * list ascii) :=
  match s with
  | [] => None
  | c :: r =>
    match off with
    | S o => match split_dash o r with Some (a, b) => Some (c :: a, b) | None => None end
    | 0 => if aeqb c c_dash then Some ([], r)
           else match split_dash 0 r with Some (a, b) => Some (c :: a, b) | None => None end
    end
  end.

(* the `while True` loop (chunks.append(pat[i:k]); i = k+1; k = k+3 -- so the next search starts at offset 2 =
   Gen.fnm_next_off of the rest) and the last chunk: pat[i:j] when it is not empty, else a "-" is appended to the chunk before it *)
Fixpoint py_chunks (fuel off : nat) (cur : list ascii) : list (list ascii) :=
  match fuel with
  | 0 => [cur]
  | S f =>
    match split_dash off cur with
    | None => [cur]
    | Some (a, []) => [a ++ [c_dash]]
    | Some (a, b) => a :: py_chunks f fnm_next_off b
    end
  end.

(* "Remove empty ranges": for k in range(len(chunks)-1, 0, -1): if chunks[k-1][-1] > chunks[k][0]: the two chunks are
   joined without the two end points *)
Definition gt_c (a b : ascii) : bool := nat_of_ascii b <? nat_of_ascii a.

Fixpoint py_merge (chunks : list (list ascii)) : list (list ascii) :=
  match chunks with
  | [] => []
  | a :: rest =>
    match py_merge rest with
    | [] => [a]
    | b :: rest' => if gt_c (last a zero_c) (hd zero_c b) then (removelast a ++ tl b) :: rest' else a :: b :: rest'
    end
  end.

(* k = i+2 if pat[i] == '!' else i+1 (the two offsets are read from the interpreter's fnmatch.translate: Gen); without a "-"
   the text is taken as it is *)
Definition first_off (stuff : list ascii) : nat :=
  match stuff with c :: _ => if aeqb c c_bang then fnm_first_off_negated else fnm_first_off | [] => fnm_first_off end.

Definition set_chunks (stuff : list ascii) : list (list ascii) :=
  if amem c_dash stuff then py_merge (py_chunks (S (List.length stuff)) (first_off stuff) stuff) else [stuff].

(* '-'.join(chunks) (hyphens and backslashes inside a chunk escaped) as a character class of `re`: every character of a
   chunk is a member, between two chunks lies the range from the last character of the first to the first character of
   the second; a class text that begins with "-" (empty first chunk) has that "-" as a member *)
Fixpoint class_items (chunks : list (list ascii)) : list item :=
  match chunks with
  | [] => []
  | a :: rest =>
    match rest with
    | [] => map ISingle a
    | b :: _ =>
      match a with
      | [] => ISingle c_dash :: class_items rest
      | _ => map ISingle a ++ IRange (last a zero_c) (hd zero_c b) :: class_items rest
      end
    end
  end.

(* `if not stuff`: never matches; `elif stuff == '!'`: any character; `if stuff[0] == '!'`: negated -- tested on the
   text AFTER the empty ranges were removed *)
Definition mk_set (stuff : list ascii) : tok :=
  match set_chunks stuff with
  | (c :: r) :: rest => if aeqb c c_bang then TSet true (class_items (r :: rest)) else TSet false (class_items ((c :: r) :: rest))
  | chunks => TSet false (class_items chunks)
  end.

(* may a "]" close the set whose reversed contents so far are acc?  not when it is the first
   character of the set (after the optional "!") *)
Definition closable (acc : list ascii) : bool :=
  match acc with
  | [] => false
  | [c] => negb (aeqb c c_bang)
  | _ => true
  end.

(* one left-to-right pass; st = Some acc while inside a bracket expression (acc reversed).
   Reaching the end inside a bracket means it was never closed: "[" is then a literal and the
   characters after it are ordinary (no "]" follows, so no later "[" can be closed either). *)
Fixpoint parse_st (st : option (list ascii)) (s : list ascii) : list tok :=
  match s with
  | [] => match st with None => [] | Some acc => TLit c_lbr :: map tok1 (rev acc) end
  | c :: r =>
    match st with
    | None => if aeqb c c_lbr then parse_st (Some []) r else tok1 c :: parse_st None r
    | Some acc =>
      if aeqb c c_rbr && closable acc then mk_set (rev acc) :: parse_st None r
      else parse_st (Some (c :: acc)) r
    end
  end.

(* consecutive stars are one star (fnmatch.translate compresses them) *)
Fixpoint compress (p : list tok) : list tok :=
  match p with
  | TStar :: ((TStar :: _) as r) => compress r
  | t :: r => t :: compress r
  | [] => []
  end.

Definition parse_pat (pat : string) : list tok := compress (parse_st None (la pat)).

Definition item_matches (c : ascii) (i : item) : bool :=
  match i with
  | ISingle d => aeqb c d
  | IRange lo hi => (nat_of_ascii lo <=? nat_of_ascii c) && (nat_of_ascii c <=? nat_of_ascii hi)
  end.

Fixpoint gmatch (p : list tok) (s : list ascii) {struct p} : bool :=
  match p with
  | [] => lnil s
  | TStar :: p' =>
    (fix star (s : list ascii) : bool :=
       gmatch p' s || match s with [] => false | _ :: s' => star s' end) s
  | TAny :: p' => match s with [] => false | _ :: s' => gmatch p' s' end
  | TLit c :: p' => match s with [] => false | d :: s' => aeqb c d && gmatch p' s' end
  | TSet neg items :: p' =>
    match s with [] => false | d :: s' => xorb neg (existsb (item_matches d) items) && gmatch p' s' end
  end.

(* fnmatch.fnmatch(name, pat) *)
Definition fnm (name pat : string) : bool := gmatch (parse_pat pat) (la name).
