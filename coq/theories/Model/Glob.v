(* Model/Glob.v — executable model of Python's fnmatch.fnmatch (posix: normcase is the identity):
   `*` any run of characters (crosses "/"), `?` one character, `[seq]` / `[!seq]` with ranges,
   an unclosed `[` is a literal, a `]` directly after `[` or `[!` belongs to the set.
   fnmatch is a library oracle: this model is validated against CPython's fnmatch on generated
   (pattern, name) pairs by the leaf level of the C14 correspondence check.  No proofs here. *)
From TL Require Import Lib.Base Model.CollectStr.

Inductive item := ISingle (c : ascii) | IRange (lo hi : ascii).
Inductive tok := TStar | TAny | TLit (c : ascii) | TSet (neg : bool) (items : list item).

Definition c_star : ascii := "*"%char.
Definition c_qm : ascii := "?"%char.
Definition c_lbr : ascii := "["%char.
Definition c_rbr : ascii := "]"%char.
Definition c_bang : ascii := "!"%char.
Definition c_dash : ascii := "-"%char.

(* the characters that are not literals outside a bracket expression *)
Definition special (c : ascii) : bool := aeqb c c_star || aeqb c c_qm || aeqb c c_lbr.

Definition tok1 (c : ascii) : tok :=
  if aeqb c c_star then TStar else if aeqb c c_qm then TAny else TLit c.

(* contents of a bracket expression: x-y is a range, anything else a single character *)
Fixpoint items_of (l : list ascii) : list item :=
  match l with
  | [] => []
  | c :: tl =>
    match tl with
    | d :: e :: r => if aeqb d c_dash then IRange c e :: items_of r else ISingle c :: items_of tl
    | _ => ISingle c :: items_of tl
    end
  end.

Definition mk_set (stuff : list ascii) : tok :=
  match stuff with
  | c :: r => if aeqb c c_bang then TSet true (items_of r) else TSet false (items_of stuff)
  | [] => TSet false []
  end.

(* may a "]" close the set whose reversed contents so far are acc?  not when it is the first
   character of the set (after the optional "!") *)
Definition closable (acc : list ascii) : bool :=
  match acc with
  | [] => false
  | [c] => negb (aeqb c c_bang)
  | _ => true
  end.

(* one left-to-right pass; st = Some acc while inside a bracket expression (acc reversed).
   Reaching the end inside a bracket means it was never closed: "[" is then a literal and the
   characters after it are ordinary (no "]" follows, so no later "[" can be closed either). *)
Fixpoint parse_st (st : option (list ascii)) (s : list ascii) : list tok :=
  match s with
  | [] => match st with None => [] | Some acc => TLit c_lbr :: map tok1 (rev acc) end
  | c :: r =>
    match st with
    | None => if aeqb c c_lbr then parse_st (Some []) r else tok1 c :: parse_st None r
    | Some acc =>
      if aeqb c c_rbr && closable acc then mk_set (rev acc) :: parse_st None r
      else parse_st (Some (c :: acc)) r
    end
  end.

(* consecutive stars are one star (fnmatch.translate compresses them) *)
Fixpoint compress (p : list tok) : list tok :=
  match p with
  | TStar :: ((TStar :: _) as r) => compress r
  | t :: r => t :: compress r
  | [] => []
  end.

Definition parse_pat (pat : string) : list tok := compress (parse_st None (la pat)).

Definition item_matches (c : ascii) (i : item) : bool :=
  match i with
  | ISingle d => aeqb c d
  | IRange lo hi => (nat_of_ascii lo <=? nat_of_ascii c) && (nat_of_ascii c <=? nat_of_ascii hi)
  end.

Fixpoint gmatch (p : list tok) (s : list ascii) {struct p} : bool :=
  match p with
  | [] => lnil s
  | TStar :: p' =>
    (fix star (s : list ascii) : bool :=
       gmatch p' s || match s with [] => false | _ :: s' => star s' end) s
  | TAny :: p' => match s with [] => false | _ :: s' => gmatch p' s' end
  | TLit c :: p' => match s with [] => false | d :: s' => aeqb c d && gmatch p' s' end
  | TSet neg items :: p' =>
    match s with [] => false | d :: s' => xorb neg (existsb (item_matches d) items) && gmatch p' s' end
  end.

(* fnmatch.fnmatch(name, pat) *)
Definition fnm (name pat : string) : bool := gmatch (parse_pat pat) (la name).
