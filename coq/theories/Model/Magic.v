(* Model/Magic.v — executable model of the magic-numbers linter (src/linters/magic_numbers), C02.

   Abstract input: a file = name + scopes; a scope = kind (+ Rust attributes) + sites; a site =
   one statement on one line: a context (where the literals sit), the identifier the statement
   binds or calls, and its literals.

   Two steps per language, as in the code:
   (1) what the parser yields for every literal of a site: its value / text and its chain of
       ancestors (to_py / to_ts / to_rs: parser oracles, validated by the correspondence check);
   (2) the analyzers transcribed over that: visit_Constant + is_acceptable_context + definition-file
       detection (Python), _extract_numeric_value + is_enum_context + is_constant_definition +
       _is_test_file (TypeScript), _extract_numeric_value + is_constant_definition + is_inside_test
       (Rust), reading their tables, thresholds and operators from Gen/MagicGen.v.
   No proofs in this file. *)
From Coq Require Import ZArith.
From TL Require Import Lib.Base Lib.GenTypes Gen.MagicGen Model.MagicNum.

(* ------------------------------------------------------------------ quirks *)
(* true = "do what the code does", false = "do what the property demands" *)
Record mquirks := {
  q_py_bool_is_number      : bool;  (* the types excluded from "numeric" are those the source excludes (none before the repair:
                                       True / False were reported); false: bool is excluded *)
  q_py_upper_neg_flagged   : bool;  (* NAME = -5: the literal's parent is UnaryOp, not Assign *)
  q_py_upper_ann_flagged   : bool;  (* NAME: int = 5: the parent is AnnAssign, not Assign *)
  q_py_upper_tuple_flagged : bool;  (* NAME = (5, 6): the parent is Tuple, not Assign *)
  q_ts_hex_e_float         : bool;  (* the int()-path prefixes are those of the source (none before the repair: 0xFE went to float()) *)
  q_ts_bigint_dropped      : bool;  (* the stripped suffix is that of the source (none before the repair: 10n was dropped) *)
  q_ts_test_marker_anywhere: bool;  (* "test_" etc. searched in the whole path: contest_data.ts is "test code" *)
  q_ts_single_letter_const : bool;  (* const N = 5: a one-letter upper-case name counts as a constant (Python requires two characters) *)
  q_rs_hex_suffix_clash    : bool;  (* the type suffixes tried are those the source tries (before the repair 0x1f32 lost "f32") *)
  q_py_enumerate_kw_flagged: bool;  (* enumerate(xs, start=5): the literal's parent is ast.keyword, not the Call *)
  q_py_upper_binop_flagged : bool;  (* NAME = 60 * 5: the parent is BinOp, not Assign *)
}.
Definition m_ideal : mquirks := Build_mquirks false false false false false false false false false false false.

(* ------------------------------------------------------------------ abstract input *)
Inductive mlang := MPy | MTs | MRs.

Inductive ctx :=
| CAssign        (* name = L            let name = L; *)
| CArg           (* name(L, L)          *)
| CReturn        (* return L            *)
| CDefault       (* def g(a=L): pass    function g(a = L) {} *)
| CElts          (* name = [L, L]       *)
| CCompare       (* if x > L: pass      *)
| CBinop         (* name = x + L        *)
| CMul           (* name = x * L        *)
| CNeg           (* name = -L           *)
| CUpper         (* NAME = L            const NAME = L;        const NAME: i64 = L; *)
| CUpperNeg      (* NAME = -L           *)
| CUpperAnn      (* NAME: int = L       const NAME: number = L; *)
| CUpperTuple    (* NAME = (L, L,)      const NAME = [L, L];   const NAME: &[i64] = &[L, L]; *)
| CUpperBinop    (* NAME = L * L  /  NAME = x * L      const NAME = L * L;    const NAME: i64 = L * L; *)
| CRange         (* for i in range(L, L): pass *)
| CEnumerate     (* for i, w in enumerate(xs, L): pass *)
| CEnumerateKw   (* for i, w in enumerate(xs, start=L): pass *)
| CStrRepeatL    (* name = "-" * L      *)
| CStrRepeatR    (* name = L * "-"      *)
| CDictKeys      (* name = {L: "k0", L: "k1"} *)
| CTsEnum        (* enum E { M0 = L, M1 = L } *)
| CRsStatic      (* static NAME: i64 = L; *)
| CInterp        (* name = f'v{L}'      let name = `v${L}`; *)
| CDecorator     (* @name(L, L) / def g(): pass *)
| CNested        (* name = [[L, L]]     *)
| CMatch         (* match x: / case L: pass     switch (x) { case L: break; }     match x { L => {}, _ => {} } *)
| CKwarg         (* name(key=L)         *)
| CIndex         (* name = x[L]         *)
| CLambda        (* name = lambda y: y + L     let name = (y) => y + L;     let name = |y| y + L; *)
| CMacro         (* name!(L, L);        *)
| CTsField       (* static readonly NAME = L;   (class body) *)
| CRsEnum.       (* enum E { M0 = L, M1 = L }   (Rust) *)

Record site := mk_site { s_ctx : ctx; s_name : string; s_lits : list lit; s_line : nat }.

Inductive skind := STop | SFunc | SMethod | SNested | SClass.

Record scope := mk_scope {
  sc_kind : skind;
  sc_mod_attrs : option (list string);   (* Rust: the scope sits in `mod m { }` carrying these attributes *)
  sc_attrs : list string;                (* Rust: attributes of the (outer) function *)
  sc_sites : list site }.

Record file := mk_file { f_name : string; f_scopes : list scope }.

(* the magic-numbers section: its top-level keys and, when present, the sub-section of the file's language
   (python / typescript / javascript / rust), each key optional *)
Record mconfig := mk_cfg {
  c_allowed : option (list num);
  c_max_small : option Z;
  c_lang : option (option (list num) * option Z);
  c_enabled : option bool;               (* the `enabled` key of the section *)
  c_ignore : list string }.              (* the `ignore` patterns of the section *)

(* MagicNumberConfig.from_dict: the sources consulted, in the order read from the source *)
Fixpoint resolve {A} (chain : list string) (lang top : option A) (dflt : A) : A :=
  match chain with
  | [] => dflt
  | s :: r =>
    if String.eqb s "lang" then match lang with Some x => x | None => resolve r lang top dflt end
    else if String.eqb s "top" then match top with Some x => x | None => resolve r lang top dflt end
    else dflt
  end.

Definition raw_allowed (cfg : mconfig) : list num :=
  match c_lang cfg with
  | Some (la, _) => resolve cfg_allowed_chain_lang la (c_allowed cfg) default_allowed_numbers
  | None => resolve cfg_allowed_chain_top None (c_allowed cfg) default_allowed_numbers
  end.
Definition allowed (cfg : mconfig) : list num := map norm (raw_allowed cfg).
Definition max_small (cfg : mconfig) : Z :=
  match c_lang cfg with
  | Some (_, lm) => resolve cfg_max_small_chain_lang lm (c_max_small cfg) default_max_small_integer
  | None => resolve cfg_max_small_chain_top None (c_max_small cfg) default_max_small_integer
  end.

(* a report: line and the value named in the message *)
Inductive rval := RNum (v : num) | RBool (b : bool).
Definition mrep := (nat * rval)%type.
Definition rval_eqb (a b : rval) : bool :=
  match a, b with
  | RNum x, RNum y => num_eqb x y
  | RBool x, RBool y => Bool.eqb x y
  | _, _ => false
  end.
Definition mrep_eqb (a b : mrep) : bool := (fst a =? fst b) && rval_eqb (snd a) (snd b).

(* ------------------------------------------------------------------ names *)
Definition py_isupper (s : list ascii) : bool := existsb is_upper_char s && negb (existsb is_lower_char s).

(* context_analyzer._is_constant_name: name.isupper() and len(name) > 1 *)
Definition py_const_name (name : string) : bool :=
  py_isupper (chars name) && cmp_nat py_const_len_cmp (String.length name) py_const_len.

Definition is_const_name_char (c : ascii) : bool := is_upper_char c || is_digit_char c || Ascii.eqb c c_us.

(* hand-written matcher for the regular expression ^[A-Z][A-Z0-9_]*$ (its text is checked against Gen) *)
Definition re_const_name (s : list ascii) : bool :=
  match s with c :: r => is_upper_char c && forallb is_const_name_char r | [] => false end.

(* definition_detector._is_constant_name: len(name) < 2 -> False; re.match(...) *)
Definition def_const_name (name : string) : bool :=
  negb (cmp_nat def_const_short_cmp (String.length name) def_const_short_len) && re_const_name (chars name).

(* typescript_analyzer._is_uppercase_constant: the letters of the name are all upper case *)
Definition ts_upper_name (name : string) : bool :=
  match filter (fun c => is_upper_char c || is_lower_char c) (chars name) with
  | [] => false
  | letters => forallb is_upper_char letters
  end.

Fixpoint basename_l (s : list ascii) (acc : list ascii) : list ascii :=
  match s with
  | [] => acc
  | c :: r => if Ascii.eqb c "/"%char then basename_l r [] else basename_l r (acc ++ [c])
  end.
Definition basename (path : string) : list ascii := basename_l (chars path) [].

(* ------------------------------------------------------------------ Python: what ast yields *)
Inductive pyval := VInt (z : Z) | VFloat (v : num) | VBool (b : bool) | VStr.

Inductive pyanc :=
| AAssign (targets : list (option string))     (* ast.Assign; Some id for a Name target *)
| AAnnAssign (target : option string)
| ACall (func : option string)                 (* ast.Call; Some id when func is a Name *)
| ABinOp (op : string) (left_str right_str : bool)
| ADict (is_key : bool)
| AOther (cls : string).

Definition anc_cls (a : pyanc) : string :=
  match a with
  | AAssign _ => "Assign" | AAnnAssign _ => "AnnAssign" | ACall _ => "Call" | ABinOp _ _ _ => "BinOp"
  | ADict _ => "Dict" | AOther c => c
  end.

Record pysite := mk_pysite { p_val : pyval; p_anc : list pyanc; p_line : nat }.

Definition py_scope_chain (k : skind) : list pyanc :=
  match k with
  | STop => [AOther "Module"]
  | SFunc => [AOther "FunctionDef"; AOther "Module"]
  | SMethod => [AOther "FunctionDef"; AOther "ClassDef"; AOther "Module"]
  | SNested => [AOther "FunctionDef"; AOther "FunctionDef"; AOther "Module"]
  | SClass => [AOther "ClassDef"; AOther "Module"]
  end.

Definition lit_is_str (l : lit) : bool := match l with LStr _ => true | _ => false end.

Definition py_ctx_chain (c : ctx) (name : string) (l : lit) : list pyanc :=
  let asg := AAssign [Some name] in
  match c with
  | CAssign | CUpper => [asg]
  | CArg => [ACall (Some name); AOther "Expr"]
  | CReturn => [AOther "Return"]
  | CDefault => [AOther "arguments"; AOther "FunctionDef"]
  | CElts => [AOther "List"; asg]
  | CCompare => [AOther "Compare"; AOther "If"]
  | CBinop => [ABinOp "Add" false (lit_is_str l); asg]
  | CMul => [ABinOp "Mult" false (lit_is_str l); asg]
  | CNeg | CUpperNeg => [AOther "UnaryOp"; asg]
  | CUpperAnn => [AAnnAssign (Some name)]
  | CUpperTuple => [AOther "Tuple"; asg]
  | CUpperBinop => [ABinOp "Mult" false false; asg]
  | CRange => [ACall (Some "range"); AOther "For"]
  | CEnumerate => [ACall (Some "enumerate"); AOther "For"]
  | CEnumerateKw => [AOther "keyword"; ACall (Some "enumerate"); AOther "For"]
  | CStrRepeatL => [ABinOp "Mult" true (lit_is_str l); asg]
  | CStrRepeatR => [ABinOp "Mult" (lit_is_str l) true; asg]
  | CDictKeys => [ADict true; asg]
  | CInterp => [AOther "FormattedValue"; AOther "JoinedStr"; asg]
  | CDecorator => [ACall (Some name); AOther "FunctionDef"]
  | CNested => [AOther "List"; AOther "List"; asg]
  | CMatch => [AOther "MatchValue"; AOther "match_case"; AOther "Match"]
  | CKwarg => [AOther "keyword"; ACall (Some name); AOther "Expr"]
  | CIndex => [AOther "Subscript"; asg]
  | CLambda => [ABinOp "Add" false (lit_is_str l); AOther "Lambda"; asg]
  | CTsEnum | CRsStatic | CMacro | CTsField | CRsEnum => [AOther "<none>"]
  end.

(* the ast.Constant of a literal (an identifier is a Name, not a Constant) *)
Definition py_const (l : lit) : option pyval :=
  match l with
  | LInt r gs _ _ => Some (VInt (digits_val (Z.of_nat (base_of r)) 0 (List.concat gs)))
  | LFloat ip fp ex _ => Some (VFloat (digits_val 10 0 (ip ++ fp), (- Z.of_nat (List.length fp) + exp_val ex)%Z))
  | LBool b => Some (VBool b)
  | LStr _ => Some VStr
  | LIdent _ => None
  end.

Definition to_py_site (k : skind) (s : site) : list pysite :=
  flat_map (fun l => match py_const l with
                     | Some v => [mk_pysite v (py_ctx_chain (s_ctx s) (s_name s) l ++ py_scope_chain k) (s_line s)]
                     | None => []
                     end) (s_lits s).

(* one group of constants per statement *)
Definition to_py (f : file) : list (list pysite) :=
  flat_map (fun sc => map (to_py_site (sc_kind sc)) (sc_sites sc)) (f_scopes f).

(* ------------------------------------------------------------------ Python: the analyzers *)
Definition val_types (v : pyval) : list string :=
  match v with VInt _ => ["int"] | VFloat _ => ["float"] | VStr => ["str"] | VBool _ => ["bool"; "int"] end.
Definition val_isinstance (v : pyval) (types : list string) : bool := existsb (fun t => smem t types) (val_types v).

(* isinstance(v, T) and not isinstance(v, E): E as found in the source, or bool *)
Definition excl (from_code : bool) (code_list : list string) : list string := if from_code then code_list else ["bool"].
Definition val_is (v : pyval) (types excluded : list string) : bool := val_isinstance v types && negb (val_isinstance v excluded).
Definition val_num (v : pyval) : num :=
  match v with
  | VInt z => norm (z, 0%Z) | VFloat n => norm n
  | VBool b => ((if b then 1 else 0)%Z, 0%Z) | VStr => (0%Z, 0%Z)
  end.
Definition val_int (v : pyval) : Z :=
  match v with VInt z => z | VBool b => (if b then 1 else 0)%Z | _ => 0%Z end.
Definition rval_of (v : pyval) : rval := match v with VBool b => RBool b | _ => RNum (val_num v) end.

Definition upper_target (t : option string) : bool := match t with Some id => py_const_name id | None => false end.

(* is_constant_definition: the parent is an ast.Assign with an UPPER_CASE Name target.  With the
   flags off the definition is also recognised through a unary minus, a tuple / list display and
   an annotated assignment. *)
Definition py_is_const_def (q : mquirks) (anc : list pyanc) : bool :=
  match anc with
  | AAssign tg :: _ => smem "Assign" py_const_parent_types && existsb upper_target tg
  | AOther "UnaryOp" :: AAssign tg :: _ => negb (q_py_upper_neg_flagged q) && existsb upper_target tg
  | AOther "Tuple" :: AAssign tg :: _ => negb (q_py_upper_tuple_flagged q) && existsb upper_target tg
  | AOther "List" :: AAssign tg :: _ => negb (q_py_upper_tuple_flagged q) && existsb upper_target tg
  | AAnnAssign t :: _ => negb (q_py_upper_ann_flagged q) && upper_target t
  | ABinOp _ _ _ :: AAssign tg :: _ => negb (q_py_upper_binop_flagged q) && existsb upper_target tg
  | _ => false
  end.

Definition parent_is_call (anc : list pyanc) (fname : string) : bool :=
  match anc with ACall (Some f) :: _ => String.eqb f fname | _ => false end.

Definition py_small_in (types : list string) (lo : Z) (lo_cmp hi_cmp : cmp) (fname : string)
           (cfg : mconfig) (s : pysite) : bool :=
  val_isinstance (p_val s) types
  && (cmp_z lo_cmp lo (val_int (p_val s)) && cmp_z hi_cmp (val_int (p_val s)) (max_small cfg))
  && parent_is_call (p_anc s) fname.

(* the literal is the value of a keyword argument of the call (enumerate(xs, start=L)): not seen by the code, whose parent test
   stops at the ast.keyword node *)
Definition kw_parent_is_call (anc : list pyanc) (fname : string) : bool :=
  match anc with AOther "keyword" :: ACall (Some f) :: _ => String.eqb f fname | _ => false end.

Definition py_small_kw (types : list string) (lo : Z) (lo_cmp hi_cmp : cmp) (fname : string)
           (cfg : mconfig) (s : pysite) : bool :=
  val_isinstance (p_val s) types
  && (cmp_z lo_cmp lo (val_int (p_val s)) && cmp_z hi_cmp (val_int (p_val s)) (max_small cfg))
  && kw_parent_is_call (p_anc s) fname.

Definition py_string_repetition (s : pysite) : bool :=
  val_isinstance (p_val s) py_strrep_value_types
  && match p_anc s with
     | ABinOp op l r :: _ => smem "BinOp" py_strrep_parent_types && smem op py_strrep_op_types && (l || r)
     | _ => false
     end.

Definition py_is_test_file (name : string) : bool :=
  prefix_l (chars py_test_prefix) (basename name) || contains (chars py_test_infix) (basename name).

Definition py_site_report (q : mquirks) (cfg : mconfig) (is_test : bool) (s : pysite) : list mrep :=
  if negb (val_is (p_val s) py_numeric_types (excl (q_py_bool_is_number q) py_numeric_excluded)) then []
  else if nmem (val_num (p_val s)) (allowed cfg) then []
  else if is_test || py_is_const_def q (p_anc s)
          || py_small_in py_range_value_types py_range_lo py_range_lo_cmp py_range_hi_cmp py_range_name cfg s
          || py_small_in py_enumerate_value_types py_enumerate_lo py_enumerate_lo_cmp py_enumerate_hi_cmp py_enumerate_name cfg s
          || (negb (q_py_enumerate_kw_flagged q)
              && py_small_kw py_enumerate_value_types py_enumerate_lo py_enumerate_lo_cmp py_enumerate_hi_cmp py_enumerate_name cfg s)
          || py_string_repetition s
       then []
       else [(p_line s, rval_of (p_val s))].

(* definition_detector *)
Definition def_name_match (name : string) : bool :=
  let base := map lower_char (basename name) in
  existsb (fun p : bool * string => let '(is_suffix, pat) := p in
             if is_suffix then ends_with (chars pat) base else list_eqb base (chars pat))
          def_name_patterns.

Definition def_upper_count_site (b : bool) (s : pysite) : nat :=
  match p_anc s with
  | [AAssign tg; AOther "Module"] =>
    if val_is (p_val s) def_numeric_types (excl b def_numeric_excluded)
    then List.length (filter (fun t => match t with Some id => def_const_name id | None => false end) tg)
    else 0
  | _ => 0
  end.

Definition sum_nat (l : list nat) : nat := fold_right Nat.add 0 l.

Definition def_int_keys (b : bool) (stmt : list pysite) : nat :=
  List.length (filter (fun s => match p_anc s with
                                | ADict true :: _ => val_is (p_val s) def_int_key_types (excl b def_int_key_excluded)
                                | _ => false
                                end) stmt).

Definition py_is_definition_file (q : mquirks) (name : string) (stmts : list (list pysite)) : bool :=
  let b := q_py_bool_is_number q in
  def_name_match name
  || cmp_nat def_min_upper_cmp (sum_nat (map (fun st => sum_nat (map (def_upper_count_site b) st)) stmts)) def_min_upper
  || existsb (fun st => cmp_nat def_min_dict_cmp (def_int_keys b st) def_min_dict) stmts.

Definition py_report (q : mquirks) (cfg : mconfig) (f : file) : list mrep :=
  let stmts := to_py f in
  if py_is_definition_file q (f_name f) stmts then []
  else flat_map (fun st => flat_map (py_site_report q cfg (py_is_test_file (f_name f))) st) stmts.

(* ------------------------------------------------------------------ tree-sitter TypeScript: what the parser yields *)
Record tsanc := mk_tsanc { ta_type : string; ta_ident : option string }.   (* first identifier found depth-first *)
Record tssite := mk_tssite { t_type : string; t_text : list ascii; t_anc : list tsanc; t_line : nat }.

Definition tn (ty : string) : tsanc := mk_tsanc ty None.
Definition tnames (tys : list string) : list tsanc := map tn tys.

Definition ts_scope_chain (k : skind) : list tsanc :=
  match k with
  | STop => [tn "program"]
  | SClass => tnames ["class_body"; "class_declaration"; "program"]
  | SFunc => tnames ["statement_block"; "function_declaration"; "program"]
  | SMethod => tnames ["statement_block"; "method_definition"; "class_body"; "class_declaration"; "program"]
  | SNested => tnames ["statement_block"; "arrow_function"]
               ++ [mk_tsanc "variable_declarator" (Some "inner"); mk_tsanc "lexical_declaration" (Some "inner")]
               ++ tnames ["statement_block"; "function_declaration"; "program"]
  end.

Definition ts_decl (name : string) : list tsanc :=
  [mk_tsanc "variable_declarator" (Some name); mk_tsanc "lexical_declaration" (Some name)].

Definition ts_ctx_chain (c : ctx) (name : string) : list tsanc :=
  match c with
  | CAssign | CUpper | CUpperAnn => ts_decl name
  | CArg => tnames ["arguments"; "call_expression"; "expression_statement"]
  | CReturn => tnames ["return_statement"]
  | CDefault => tnames ["required_parameter"; "formal_parameters"; "function_declaration"]
  | CElts | CUpperTuple => tn "array" :: ts_decl name
  | CCompare => tnames ["binary_expression"; "parenthesized_expression"; "if_statement"]
  | CBinop | CMul | CUpperBinop => tn "binary_expression" :: ts_decl name
  | CNeg | CUpperNeg => tn "unary_expression" :: ts_decl name
  | CTsEnum => tnames ["enum_assignment"; "enum_body"; "enum_declaration"]
  | CInterp => tnames ["template_substitution"; "template_string"] ++ ts_decl name
  | CNested => tnames ["array"; "array"] ++ ts_decl name
  | CMatch => tnames ["switch_case"; "switch_body"; "switch_statement"]
  | CIndex => tn "subscript_expression" :: ts_decl name
  | CLambda => tnames ["binary_expression"; "arrow_function"] ++ ts_decl name
  | CTsField => tnames ["public_field_definition"]
  | _ => [tn "<none>"]
  end.

Definition ts_node_type (l : lit) : string :=
  match l with
  | LInt _ _ _ _ | LFloat _ _ _ _ => "number"
  | LBool true => "true" | LBool false => "false" | LStr _ => "string" | LIdent _ => "identifier"
  end.

(* `const NAME: number = L` : the keyword `number` of the annotation is itself a node of type "number" *)
Definition ts_keyword_nodes (typed : bool) (k : skind) (s : site) : list tssite :=
  match s_ctx s with
  | CUpperAnn => if typed then [mk_tssite "number" (chars "number")
                                          (tnames ["predefined_type"; "type_annotation"] ++ ts_decl (s_name s) ++ ts_scope_chain k)
                                          (s_line s)] else []
  | _ => []
  end.

Definition to_ts_site (typed : bool) (k : skind) (s : site) : list tssite :=
  ts_keyword_nodes typed k s
  ++ map (fun l => mk_tssite (ts_node_type l) (lit_chars l) (ts_ctx_chain (s_ctx s) (s_name s) ++ ts_scope_chain k) (s_line s))
         (s_lits s).

Definition to_ts (f : file) : list tssite :=
  flat_map (fun sc => flat_map (to_ts_site true (sc_kind sc)) (sc_sites sc)) (f_scopes f).

(* ------------------------------------------------------------------ TypeScript: the analyzer *)
Definition ts_is_enum (anc : list tsanc) : bool := existsb (fun a => String.eqb (ta_type a) ts_enum_type) anc.

Definition ts_is_decl (a : tsanc) : bool := smem (ta_type a) ts_decl_types.

(* _find_declaration_parent: the parent, else the grandparent *)
Definition ts_decl_parent (anc : list tsanc) : option tsanc :=
  match anc with
  | p :: rest =>
    if ts_is_decl p then Some p
    else match rest with g :: _ => if ts_is_decl g then Some g else None | [] => None end
  | [] => None
  end.

(* _is_uppercase_constant has no length requirement; the documented convention (and both Python predicates) ask for two characters *)
Definition ts_const_name (q : mquirks) (name : string) : bool :=
  ts_upper_name name && (q_ts_single_letter_const q || (2 <=? String.length name)).

Definition ts_is_const_def (q : mquirks) (anc : list tsanc) : bool :=
  match ts_decl_parent anc with
  | Some p => match ta_ident p with Some id => ts_const_name q id | None => false end
  | None => false
  end.

(* MagicNumberRule._is_test_file: any marker occurs anywhere in the path *)
Definition ts_code_is_test (path : string) : bool :=
  existsb (fun m => contains (chars m) (chars path)) ts_test_markers.

(* the documented reading: *.test.*, *.spec.*, test_*, *_test.* on the file name; tests/ or test/ directory *)
Definition ts_doc_is_test (path : string) : bool :=
  let base := basename path in
  contains (chars ".test.") base || contains (chars ".spec.") base || prefix_l (chars "test_") base
  || contains (chars "_test.") base || contains (chars "/tests/") (chars path) || contains (chars "/test/") (chars path).

Definition ts_is_test (q : mquirks) (path : string) : bool :=
  if q_ts_test_marker_anywhere q then ts_code_is_test path else ts_doc_is_test path.

Definition ts_site_report (q : mquirks) (cfg : mconfig) (is_test : bool) (s : tssite) : list mrep :=
  if negb (String.eqb (t_type s) ts_number_type) then []
  else match ts_extract (q_ts_hex_e_float q) (q_ts_bigint_dropped q) (t_text s) with
       | None => []
       | Some raw =>
         let v := norm raw in
         if nmem v (allowed cfg) || is_test then []
         else if ts_is_enum (t_anc s) || ts_is_const_def q (t_anc s) then []
         else [(t_line s, RNum v)]
       end.

Definition ts_report (q : mquirks) (cfg : mconfig) (f : file) : list mrep :=
  flat_map (ts_site_report q cfg (ts_is_test q (f_name f))) (to_ts f).

(* ------------------------------------------------------------------ tree-sitter Rust *)
Record rsanc := mk_rsanc { ra_type : string; ra_attrs : list string }.    (* attribute_item siblings just before the node *)
Record rssite := mk_rssite { r_type : string; r_text : list ascii; r_anc : list rsanc; r_line : nat }.

Definition rn (ty : string) : rsanc := mk_rsanc ty [].
Definition rnames (tys : list string) : list rsanc := map rn tys.

Definition rs_mod_chain (ma : option (list string)) : list rsanc :=
  match ma with
  | None => [rn "source_file"]
  | Some attrs => [rn "declaration_list"; mk_rsanc "mod_item" attrs; rn "source_file"]
  end.

Definition rs_scope_chain (sc : scope) : list rsanc :=
  let fnode := mk_rsanc "function_item" (sc_attrs sc) in
  (match sc_kind sc with
   | STop => []
   | SClass => rnames ["declaration_list"; "impl_item"]
   | SFunc => [rn "block"; fnode]
   | SMethod => [rn "block"; fnode] ++ rnames ["declaration_list"; "impl_item"]
   | SNested => rnames ["block"; "function_item"; "block"] ++ [fnode]
   end) ++ rs_mod_chain (sc_mod_attrs sc).

Definition rs_ctx_chain (c : ctx) : list rsanc :=
  match c with
  | CAssign => rnames ["let_declaration"]
  | CArg => rnames ["arguments"; "call_expression"; "expression_statement"]
  | CReturn => rnames ["return_expression"; "expression_statement"]
  | CElts => rnames ["array_expression"; "let_declaration"]
  | CCompare => rnames ["binary_expression"; "if_expression"; "expression_statement"]
  | CBinop | CMul => rnames ["binary_expression"; "let_declaration"]
  | CNeg => rnames ["unary_expression"; "let_declaration"]
  | CUpper => rnames ["const_item"]
  | CUpperNeg => rnames ["unary_expression"; "const_item"]
  | CUpperTuple => rnames ["array_expression"; "reference_expression"; "const_item"]
  | CUpperBinop => rnames ["binary_expression"; "const_item"]
  | CRsStatic => rnames ["static_item"]
  | CMacro => rnames ["token_tree"; "macro_invocation"; "expression_statement"]
  | CNested => rnames ["array_expression"; "array_expression"; "let_declaration"]
  | CMatch => rnames ["match_pattern"; "match_arm"; "match_block"; "match_expression"; "expression_statement"]
  | CIndex => rnames ["index_expression"; "let_declaration"]
  | CLambda => rnames ["binary_expression"; "closure_expression"; "let_declaration"]
  | CRsEnum => rnames ["enum_variant"; "enum_variant_list"; "enum_item"]
  | _ => rnames ["<none>"]
  end.

Definition rs_node_type (l : lit) : string :=
  match l with
  | LInt _ _ _ _ => "integer_literal" | LFloat _ _ _ _ => "float_literal"
  | LBool _ => "boolean_literal" | LStr _ => "string_literal" | LIdent _ => "identifier"
  end.

Definition to_rs_site (sc : scope) (s : site) : list rssite :=
  map (fun l => mk_rssite (rs_node_type l) (lit_chars l) (rs_ctx_chain (s_ctx s) ++ rs_scope_chain sc) (s_line s)) (s_lits s).

Definition to_rs (f : file) : list rssite :=
  flat_map (fun sc => flat_map (to_rs_site sc) (sc_sites sc)) (f_scopes f).

(* ------------------------------------------------------------------ Rust: the analyzer *)
Definition rs_is_const (anc : list rsanc) : bool := existsb (fun a => smem (ra_type a) rs_const_types) anc.

Definition attr_has (needle : string) (attrs : list string) : bool :=
  existsb (fun a => contains (chars needle) (chars a)) attrs.

(* rust_context._is_test_context on every ancestor *)
Definition rs_is_test (anc : list rsanc) : bool :=
  existsb (fun a => (String.eqb (ra_type a) rs_test_fn_type && attr_has rs_test_attr_needle (ra_attrs a))
                    || (String.eqb (ra_type a) rs_test_mod_type && attr_has rs_cfg_test_needle (ra_attrs a))) anc.

Definition rs_site_report (q : mquirks) (cfg : mconfig) (s : rssite) : list mrep :=
  if negb (smem (r_type s) rs_numeric_types) then []
  else match rs_extract (q_rs_hex_suffix_clash q) (r_type s) (r_text s) with
       | None => []
       | Some raw =>
         let v := norm raw in
         if nmem v (allowed cfg) then []
         else if rs_is_const (r_anc s) then []
         else if rs_is_test (r_anc s) then []
         else [(r_line s, RNum v)]
       end.

Definition rs_report (q : mquirks) (cfg : mconfig) (f : file) : list mrep :=
  flat_map (rs_site_report q cfg) (to_rs f).

(* ------------------------------------------------------------------ all languages *)
Definition report (l : mlang) (q : mquirks) (cfg : mconfig) (f : file) : list mrep :=
  match l with MPy => py_report q cfg f | MTs => ts_report q cfg f | MRs => rs_report q cfg f end.

(* ------------------------------------------------------------------ the section switches: enabled, ignore *)
Definition enabled (cfg : mconfig) : bool := match c_enabled cfg with Some b => b | None => cfg_enabled_default end.

(* one path segment against one pattern segment: * any run of characters, ? one character (fnmatch, no brackets) *)
Fixpoint seg_match (fuel : nat) (pat s : list ascii) : bool :=
  match fuel with
  | O => false
  | S fuel' =>
    match pat with
    | [] => match s with [] => true | _ => false end
    | p :: pat' =>
      if Ascii.eqb p "*"%char
      then seg_match fuel' pat' s || match s with _ :: s' => seg_match fuel' pat s' | [] => false end
      else match s with
           | c :: s' => (Ascii.eqb p "?"%char || Ascii.eqb p c) && seg_match fuel' pat' s'
           | [] => false
           end
    end
  end.

Fixpoint split_slash (s : list ascii) (cur : list ascii) : list (list ascii) :=
  match s with
  | [] => match cur with [] => [] | _ => [cur] end
  | c :: r => if Ascii.eqb c "/"%char then (match cur with [] => split_slash r [] | _ => cur :: split_slash r [] end)
              else split_slash r (cur ++ [c])
  end.

Fixpoint segs_match_rev (pats segs : list (list ascii)) : bool :=
  match pats, segs with
  | [], _ => true
  | p :: ps, s :: ss => seg_match (S (S (List.length p + List.length s + List.length s))) p s && segs_match_rev ps ss
  | _ :: _, [] => false
  end.

(* PurePath(abs).match(pattern) for a relative pattern: the pattern's segments against the last segments of the path
   (Python 3.12: a `**` segment behaves like `*`).  The project root contributes two anonymous segments. *)
Definition root_segs : list (list ascii) := [[ascii_of_nat 1]; [ascii_of_nat 1]].
Definition path_match (pattern path : string) : bool :=
  match split_slash (chars pattern) [] with
  | [] => false
  | ps => segs_match_rev (rev ps) (rev (root_segs ++ split_slash (chars path) []))
  end.

(* MagicNumberRule._matches_pattern, the tests listed in the source *)
Definition ignore_matches (pattern path : string) : bool :=
  (smem "path_match" ignore_match_modes && path_match pattern path)
  || (smem "substring" ignore_match_modes && contains (chars pattern) (chars path)).

Definition file_ignored (cfg : mconfig) (path : string) : bool := existsb (fun p => ignore_matches p path) (c_ignore cfg).

(* MultiLanguageLintRule.check + _check_<language>: nothing when the linter is disabled or the file is ignored *)
Definition lint (l : mlang) (q : mquirks) (cfg : mconfig) (f : file) : list mrep :=
  if negb (enabled cfg) then [] else if file_ignored cfg (f_name f) then [] else report l q cfg f.

(* ------------------------------------------------------------------ same-line ignore directives *)
(* a trailing comment on a statement line: its text after the comment leader, and what the shared IgnoreDirectiveParser reads
   in it (None: no directive; Some []: the bare `thailint: ignore`; Some rules: `thailint: ignore[r1, r2]`).  The parser is
   property C04's subject: here it is an oracle on the directive forms of the pool, validated by the correspondence. *)
Record directive := mk_dir { d_text : string; d_rules : option (list string) }.
Definition dirs := list (nat * directive).

Definition rule_matches (r : string) : bool := String.eqb r "magic-numbers" || String.eqb r magic_rule_id.
Definition parser_ignores (d : directive) : bool :=
  match d_rules d with None => false | Some [] => true | Some rs => existsb rule_matches rs end.

Fixpoint after_first (needle hay : list ascii) : option (list ascii) :=
  if prefix_l needle hay then Some (skipn (List.length needle) hay)
  else match hay with [] => None | _ :: r => after_first needle r end.
Fixpoint before_first (needle hay : list ascii) : list ascii :=
  if prefix_l needle hay then [] else match hay with [] => [] | c :: r => c :: before_first needle r end.

(* `M in line` and no bracket between M and the next separator *)
Definition generic_ignore (msb : string * string * string) (line : list ascii) : bool :=
  let '(m, s, b) := msb in
  match after_first (chars m) line with
  | None => false
  | Some rest => negb (contains (chars b) (before_first (chars s) rest))
  end.

Definition comment_leader (l : mlang) : string := match l with MPy => "#" | _ => "//" end.
Definition dir_line (l : mlang) (d : directive) : list ascii := map lower_char (chars (comment_leader l ++ " " ++ d_text d)).

(* MagicNumberRule._should_ignore (Python, Rust) / TypeScriptIgnoreChecker.should_ignore: the parser, then the linter's own checks *)
Definition own_ignores (l : mlang) (line : list ascii) : bool :=
  match l with
  | MTs => contains (chars ts_dir_specific) line || generic_ignore ts_dir_generic line || contains (chars ts_dir_noqa) line
  | _ => generic_ignore py_dir_generic line || contains (chars py_dir_noqa) line
  end.
Definition model_suppresses (l : mlang) (d : directive) : bool := parser_ignores d || own_ignores l (dir_line l d).

Definition suppressed_at (sup : directive -> bool) (ds : dirs) (line : nat) : bool :=
  existsb (fun ld : nat * directive => (fst ld =? line) && sup (snd ld)) ds.

Definition lint_d (l : mlang) (q : mquirks) (cfg : mconfig) (f : file) (ds : dirs) : list mrep :=
  filter (fun r => negb (suppressed_at (model_suppresses l) ds (fst r))) (lint l q cfg f).
