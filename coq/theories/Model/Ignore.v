(* Model/Ignore.v — executable, quirk-parametric model of the shared suppression machinery:
   src/linter_config/ignore.py (IgnoreDirectiveParser.should_ignore_violation and helpers),
   directive_markers.py, rule_matcher.py, core/rule_aliases.py, over the bytes of the file.
   Every literal (needles, regex literals and flags, comparison operators, offsets, header window,
   alias table) comes from Gen/IgnoreGen.v.  Flags: true = what the code does, false = what C04 demands.
   Definitions only. *)
From TL Require Import Lib.Base Lib.GenTypes Gen.IgnoreGen Model.PyStr.

(* For every flag: true = read the behaviour from the source (Gen), false = what C04 demands.  After the fix: commits b7d1dc0,
   71ade39, 9b79df3 the source variants of flags 2-6 below meet the specification themselves (the theorems cover both values
   and rest on the generated facts; if the source regresses the generated layer changes and those proofs fail). *)
Record iquirks := {
  q_splitlines_unicode : bool;   (* lines are numbered by str.splitlines (also breaks at \f \v FS GS RS NEL LS PS) *)
  q_next_line_hash_only : bool;  (* ignore-next-line: marker needles, lowering and regex flag exactly as in the source *)
  q_file_hash_only : bool;       (* ignore-file: marker needles exactly as in the source *)
  q_block_end_before : bool;     (* the ignore-end branch of the source, if it has one (Gen.block_end_cmp) *)
  q_bare_line_unsupported : bool;(* bare `ignore` on a line: fallback as in the source (ignore-all / Gen.line_bare_suffixes) *)
  q_bare_file_unsupported : bool;(* bare `ignore-file`: fallback as in the source (Gen.file_bare_general) *)
  q_start_rules_from_code : bool (* rule list of ignore-start parsed as in the source (case-sensitive, space form only) *)
}.

Definition ideal : iquirks := Build_iquirks false false false false false false false.

(* ---------- rule_matcher.py ---------- *)
Definition ends_with (suffix s : string) : bool := suffixb suffix s.
Definition drop_last (n : nat) (s : string) : string := stake (String.length s - n) s.

Definition matches_pattern_directly (rule_id pattern : string) : bool :=
  let r := lower rule_id in
  let p := lower pattern in
  if ends_with rm_wildcard p then prefixb (drop_last (String.length rm_wildcard) p) r
  else if String.eqb r p then true
  else prefixb (p ++ rm_sep) r.

Definition pattern_matches_deprecated_id (pattern_lower deprecated_id : string) : bool :=
  if String.eqb pattern_lower (lower deprecated_id) then true
  else
    let cat := lower (first_field rm_alias_sep deprecated_id) in
    if String.eqb pattern_lower cat then true
    else String.eqb pattern_lower (cat ++ rm_alias_wild).

Definition matches_via_alias (rule_id pattern : string) : bool :=
  let p := lower pattern in
  let r := lower rule_id in
  existsb (fun kv => String.eqb (lower (snd kv)) r && pattern_matches_deprecated_id p (fst kv)) rule_id_aliases.

Definition rule_matches (rule_id pattern : string) : bool :=
  matches_pattern_directly rule_id pattern || matches_via_alias rule_id pattern.

Definition check_bracket_rules (rules_text rule_id : string) : bool :=
  existsb (fun r => rule_matches rule_id (strip r)) (split_on rm_bracket_sep rules_text).

Definition check_space_separated_rules (rules_text rule_id : string) : bool :=
  existsb (rule_matches rule_id) (tokens rules_text).

Definition rules_match_violation (rules : list string) (rule_id : string) : bool :=
  smem rm_star_rule rules || existsb (rule_matches rule_id) rules.

(* ---------- directive_markers.py ---------- *)
(* "# x" -> "// x" : the comment style the source's needle lists lack *)
Definition slash_variant (n : string) : string :=
  match n with String c r => if is c35 c then "//" ++ r else n | EmptyString => n end.
Definition both_styles (l : list string) : list string := l ++ map slash_variant l.

Definition marker (needles : list string) (lowered : bool) (line : string) : bool :=
  any_contains needles (if lowered then lower line else line).

Definition has_ignore_directive_marker (q : iquirks) (line : string) : bool :=
  if q_file_hash_only q then marker file_marker_needles file_marker_lowered line
  else marker (both_styles file_marker_needles) true line.

Definition has_line_ignore_marker (line : string) : bool := marker line_marker_needles line_marker_lowered line.

Definition has_ignore_next_line_marker (q : iquirks) (line : string) : bool :=
  if q_next_line_hash_only q then marker next_marker_needles next_marker_lowered line
  else marker (both_styles next_marker_needles) true line.

Definition block_marker (prefixes : list string) (kw : string) (tags : list string) (line : string) : bool :=
  let s := lower (strip line) in
  existsb (fun p => prefixb p s) prefixes && containsb kw s && any_contains tags s.

Definition has_ignore_start_marker (line : string) : bool :=
  block_marker start_marker_comment_prefixes start_marker_keyword start_marker_tags line.
Definition has_ignore_end_marker (line : string) : bool :=
  block_marker end_marker_comment_prefixes end_marker_keyword end_marker_tags line.

Definition check_general_ignore (line : string) : bool := negb (containsb general_ignore_needle line).

(* ---------- ignore.py ---------- *)
Definition nonempty (s : string) : bool := match s with EmptyString => false | _ => true end.

Definition check_specific_rule_ignore (q : iquirks) (line rule_id : string) : bool :=
  match re_bracket (snd re_file_bracket) (fst re_file_bracket) line with
  | Some g => check_bracket_rules g rule_id
  | None =>
      match re_space (snd re_file_space) (fst re_file_space) line with
      | Some g => check_space_separated_rules g rule_id
      | None =>
          (* no rule list follows: the source's fallback / what C04 demands (bare ignore-file = all rules, unless a malformed bracket follows) *)
          if q_bare_file_unsupported q then (if file_bare_general then check_general_ignore line else false)
          else negb (containsb "ignore-file[" line)
      end
  end.

Definition check_line_for_ignore (q : iquirks) (line rule_id : string) : bool :=
  if has_ignore_directive_marker q line then
    if nonempty rule_id then check_specific_rule_ignore q line rule_id else check_general_ignore line
  else false.

Definition has_file_ignore_in_lines (q : iquirks) (lines : list string) (rule_id : string) : bool :=
  existsb (fun l => check_line_for_ignore q l rule_id) (firstn header_scan_lines lines).

Definition check_specific_rule_in_line (q : iquirks) (code rule_id : string) : bool :=
  match re_bracket (snd re_line_bracket) (fst re_line_bracket) code with
  | Some g => check_bracket_rules g rule_id
  | None =>
      match re_space (snd re_line_space) (fst re_line_space) code with
      | Some g => check_space_separated_rules g rule_id
      | None =>
          (* code.rstrip().lower(); the right strip cannot change the containment test (the needle has no white space) *)
          let cl := lower (rstrip code) in
          if q_bare_line_unsupported q then
            containsb ignore_all_needle cl || existsb (fun sfx => suffixb sfx cl) line_bare_suffixes
          else (* what C04 demands: the comment ends with the bare directive (or says ignore-all) *)
            containsb "ignore-all" cl || existsb (fun sfx => suffixb sfx cl) ["thailint: ignore"; "design-lint: ignore"]
      end
  end.

Definition parse_ignore_start_rules (q : iquirks) (line : string) : list string :=
  if q_start_rules_from_code q then
    match re_space (snd re_start_space) (fst re_start_space) line with
    | Some g => tokens (strip g)
    | None => start_default_rules
    end
  else
    match re_bracket true (fst re_start_space) line with
    | Some g => map strip (split_on rm_bracket_sep g)
    | None =>
        match re_space true (fst re_start_space) line with
        | Some g => tokens (strip g)
        | None => start_default_rules
        end
    end.

Definition is_valid_line_range (line max_lines : nat) : bool :=
  cmp_nat valid_lo_cmp valid_lo line && cmp_nat valid_hi_cmp line max_lines.

(* the loop of _check_block_ignore with _process_block_line / _handle_block_end inlined, over the lines
   classified once (start marker with its parsed rule list / end marker / anything else); i = current line number *)
Inductive bline := BStart (rules : list string) | BEnd | BOther.

Definition classify (q : iquirks) (l : string) : bline :=
  if has_ignore_start_marker l then BStart (parse_ignore_start_rules q l)
  else if has_ignore_end_marker l then BEnd else BOther.

Fixpoint block_scan (q : iquirks) (bl : list bline) (i v : nat) (rule_id : string) (in_block : bool) (rules : list string) : bool :=
  match bl with
  | [] => false
  | b :: rest =>
      match b with
      | BStart rs => block_scan q rest (S i) v rule_id true rs
      | BEnd =>
          if match block_end_cmp with
             | Some c => q_block_end_before q && in_block && cmp_nat c i v && rules_match_violation rules rule_id
             | None => false
             end
          then true
          else block_scan q rest (S i) v rule_id false []
      | BOther =>
          if (i =? v) && in_block then rules_match_violation rules rule_id
          else block_scan q rest (S i) v rule_id in_block rules
      end
  end.

Definition check_block_ignore (q : iquirks) (bl : list bline) (v : nat) (rule_id : string) : bool :=
  if is_valid_line_range v (List.length bl) then block_scan q bl block_first_line v rule_id false [] else false.

Definition matches_ignore_next_line_rules (q : iquirks) (prev_line rule_id : string) : bool :=
  match re_bracket (if q_next_line_hash_only q then snd re_next_bracket else true) (fst re_next_bracket) prev_line with
  | Some g => check_bracket_rules g rule_id
  | None => true
  end.

(* every line is examined once: its text, its role in the block scan, whether it carries the next-line marker and the
   same-line marker (the per-violation checks below then only look these up) *)
Record pline := { pl_text : string; pl_block : bline; pl_next : bool; pl_line : bool }.

Definition prepare (q : iquirks) (l : string) : pline :=
  {| pl_text := l; pl_block := classify q l; pl_next := has_ignore_next_line_marker q l; pl_line := has_line_ignore_marker l |}.

(* the lines of the header window that carry the file-level marker *)
Definition header_candidates (q : iquirks) (lines : list string) : list string :=
  filter (has_ignore_directive_marker q) (firstn header_scan_lines lines).

Definition file_ignore_among (q : iquirks) (hdr : list string) (rule_id : string) : bool :=
  existsb (fun l => if nonempty rule_id then check_specific_rule_ignore q l rule_id else check_general_ignore l) hdr.

Definition get_prev_line (pls : list pline) (v : nat) : option pline :=
  if cmp_nat prev_min_cmp v prev_min then None
  else if v <? prev_offset then None
  else nth_error pls (v - prev_offset).

Definition check_prev_line_ignore (q : iquirks) (pls : list pline) (v : nat) (rule_id : string) : bool :=
  match get_prev_line pls v with
  | None => false
  | Some p => if pl_next p then matches_ignore_next_line_rules q (pl_text p) rule_id else false
  end.

Definition check_current_line_ignore (q : iquirks) (pls : list pline) (v : nat) (rule_id : string) : bool :=
  if cmp_nat cur_lo_cmp v cur_lo || cmp_nat cur_hi_cmp v (List.length pls) then false
  else if v <? cur_offset then false
  else match nth_error pls (v - cur_offset) with
       | None => false
       | Some l => if pl_line l then (if nonempty rule_id then check_specific_rule_in_line q (pl_text l) rule_id else true) else false
       end.

Definition is_ignored_in_lines (q : iquirks) (pls : list pline) (v : nat) (rule_id : string) : bool :=
  check_block_ignore q (map pl_block pls) v rule_id || check_prev_line_ignore q pls v rule_id || check_current_line_ignore q pls v rule_id.

Definition lines_of (q : iquirks) (content : string) : list string :=
  if q_splitlines_unicode q then splitlines content else split_newlines content.

(* should_ignore_violation, for a file whose on-disk text is `content`; repo = the file matches a repository-level pattern *)
Definition should_ignore_pre (q : iquirks) (hdr : list string) (pls : list pline) (v : nat) (rule_id : string) : bool :=
  file_ignore_among q hdr rule_id || is_ignored_in_lines q pls v rule_id.

Definition should_ignore_lines (q : iquirks) (lines : list string) (v : nat) (rule_id : string) : bool :=
  should_ignore_pre q (header_candidates q lines) (map (prepare q) lines) v rule_id.

Definition should_ignore (q : iquirks) (repo : bool) (content : string) (v : nat) (rule_id : string) : bool :=
  repo || should_ignore_lines q (lines_of q content) v rule_id.

(* ---------- the linters' own extra checks on the violation line (observable level) ---------- *)
Inductive pipeline :=
| PShared                               (* the shared parser only *)
| PSharedGeneric (needles : list string)(* shared parser, then [marker; comment; bracket] generic ignore or "# noqa" *)
| PSharedGenericTs (needles : list string) (* shared parser, then [exact; marker; comment; bracket] or "// noqa" *)
| PSharedTl (needles : list string)     (* shared parser, plus the linter's own file-level and same-line tests (collection-pipeline,
                                           stateless-class): [file marker; file bracket; file directive; tag; word; line bracket; line directive] *)
| POwnLine (needles : list string)      (* no shared parser: [a; b; noqa] : a and b on the line, or noqa *)
| PFileHeader (needles : list string) (filtered : bool)
                                        (* file-header: its own file-level test over the header window (the shared marker and rule-list
                                           functions, or one of the custom needles [file a; file b; line]); violations found in an
                                           existing header (filtered = true) additionally pass through the shared parser and the custom
                                           same-line needle; the "no header at all" violation (filtered = false) does not *)
| PNone.                                (* no inline suppression at all *)

Definition line_lower (pls : list pline) (v : nat) : option string :=
  if (v =? 0) || (List.length pls <? v) then None else option_map (fun p => lower (pl_text p)) (nth_error pls (v - 1)).

Definition nth_str (n : nat) (l : list string) : string := nth n l EmptyString.

Definition generic_hash (needles : list string) (noqa : string) (line : string) : bool :=
  match after_first (nth_str 0 needles) line with
  | Some rest => negb (containsb (nth_str 2 needles) (before_first (nth_str 1 needles) rest)) || containsb noqa line
  | None => containsb noqa line
  end.

Definition generic_ts (needles : list string) (noqa : string) (line : string) : bool :=
  containsb (nth_str 0 needles) line
  || match after_first (nth_str 1 needles) line with
     | Some rest => negb (containsb (nth_str 3 needles) (before_first (nth_str 2 needles) rest))
     | None => false
     end
  || containsb noqa line.

(* <directive>[a, b] on an already lowered line: some entry names the rule (entries trimmed and lowered) *)
Definition tl_rules_match (line_lower directive rule_id : string) : bool :=
  match re_bracket false directive line_lower with
  | Some g => existsb (fun r => rule_matches rule_id (lower (strip r))) (split_on "," g)
  | None => false
  end.

Definition tl_file_directive (n : list string) (line rule_id : string) : bool :=
  let ll := lower line in
  containsb (nth_str 0 n) ll && (negb (containsb (nth_str 1 n) ll) || tl_rules_match ll (nth_str 2 n) rule_id).

Definition tl_line_directive (n : list string) (ll rule_id : string) : bool :=
  containsb (nth_str 3 n) ll && containsb (nth_str 4 n) ll && (negb (containsb (nth_str 5 n) ll) || tl_rules_match ll (nth_str 6 n) rule_id).

(* FileHeaderRule._line_has_matching_ignore / _is_ignore_line on one line of the header window *)
Definition fh_file_line (q : iquirks) (n : list string) (line rule_id : string) : bool :=
  (has_ignore_directive_marker q line && (check_specific_rule_ignore q line rule_id || check_general_ignore line))
  || containsb (nth_str 0 n) (lower line) || containsb (nth_str 1 n) (lower line).

Definition fh_file_level (q : iquirks) (n : list string) (lines : list pline) (rule_id : string) : bool :=
  existsb (fun l => fh_file_line q n (pl_text l) rule_id) (firstn header_scan_lines lines).

Definition extra_check (q : iquirks) (p : pipeline) (lines : list pline) (v : nat) (rule_id : string) : bool :=
  match p with
  | PShared => false
  | PFileHeader n filtered =>
      fh_file_level q n lines rule_id
      || (filtered && match line_lower lines v with Some l => containsb (nth_str 2 n) l | None => false end)
  | PSharedTl n =>
      existsb (fun l => tl_file_directive n (pl_text l) rule_id) (firstn header_scan_lines lines)
      || match line_lower lines v with Some l => tl_line_directive n l rule_id | None => false end
  | PSharedGeneric n => match line_lower lines v with Some l => generic_hash n noqa_hash l | None => false end
  | PSharedGenericTs n => match line_lower lines v with Some l => generic_ts n noqa_slash l | None => false end
  | POwnLine n =>
      match line_lower lines v with
      | Some l => (containsb (nth_str 0 n) l && containsb (nth_str 1 n) l) || containsb (nth_str 2 n) l
      | None => false
      end
  | PNone => false
  end.

Definition uses_shared (p : pipeline) : bool :=
  match p with PShared | PSharedGeneric _ | PSharedGenericTs _ | PSharedTl _ => true | PFileHeader _ f => f | _ => false end.

Definition suppressed_pre (q : iquirks) (p : pipeline) (hdr : list string) (pls : list pline) (v : nat) (rule_id : string) : bool :=
  (uses_shared p && should_ignore_pre q hdr pls v rule_id) || extra_check q p pls v rule_id.

Definition suppressed (q : iquirks) (p : pipeline) (content : string) (v : nat) (rule_id : string) : bool :=
  let lines := lines_of q content in
  suppressed_pre q p (header_candidates q lines) (map (prepare q) lines) v rule_id.
