(* Model/ConfigTypes.v - the types the generated configuration layer (Gen/ConfigGen.v) and the
   configuration model (Model/Config.v) are expressed in.  Definitions only. *)
From TL Require Import Lib.Base Lib.GenTypes.
From Coq Require Import ZArith.

(* a parsed configuration document: what yaml.safe_load / json.load / tomllib.load yield *)
Inductive val :=
| VBool (b : bool)
| VInt (z : Z)
| VStr (s : string)
| VList (l : list val)
| VMap (m : list (string * val)).

Definition dict := list (string * val).

(* default of an option as written in a from_dict fallback *)
Inductive dval := DBool (b : bool) | DInt (z : Z) | DInts (l : list Z) | DOther.

(* where a rule looks for its section *)
Inductive lookup_src :=
| SrcMeta          (* context.metadata = the loaded configuration *)
| SrcCtx           (* context.config (an attribute FileLintContext may not have) *)
| SrcCtxThenMeta   (* context.config when present, else context.metadata *)
| SrcNone.         (* the rule never looks at the configuration *)

Definition cmp_Z (c : cmp) (a b : Z) : bool :=
  match c with
  | CLe => Z.leb a b | CLt => Z.ltb a b | CGe => Z.leb b a | CGt => Z.ltb b a
  | CEq => Z.eqb a b | CNe => negb (Z.eqb a b)
  end.
