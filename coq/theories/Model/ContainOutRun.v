(* Model/ContainOutRun.v — judging output-stage cases of C11 inside the kernel's VM: a list of Violation objects with fields of
   arbitrary Python types goes through the real format_violations / run_linter_command; the harness reports the exit status and,
   for sarif, the (startLine, startColumn) pairs of the document. *)
From TL Require Import Lib.Base Lib.GenTypes Model.ContainTypes Gen.ContainGen Gen.ContainOutGen Model.Contain Model.ContainOut.
Require Import ZArith.

Definition pv_eqb (a b : pv) : bool :=
  match a, b with
  | PInt x, PInt y => Z.eqb x y
  | PNone, PNone => true
  | PStr x, PStr y => String.eqb x y
  | PEnum x, PEnum y => String.eqb x y
  | _, _ => false
  end.

Fixpoint regions_eqb (a : list (pv * pv)) (b : list (option (pv * pv))) : bool :=
  match a, b with
  | [], [] => true
  | (l, c) :: a', Some (l', c') :: b' => pv_eqb l l' && pv_eqb c c' && regions_eqb a' b'
  | _, _ => false
  end.

(* [impl exit = model exit ; impl exit is 0 or 1 ; every violation is well typed ; sarif regions agree with the model (true for the
   other formats and for failed runs) ; every region of the model is valid SARIF] *)
Definition judge_out (fmt : string) (vs : list oviol) (impl_exit : nat) (impl_regions : list (pv * pv)) : list bool :=
  [ impl_exit =? out_exit fmt vs ;
    impl_exit <=? 1 ;
    forallb well_typed vs ;
    if String.eqb (formatter_of fmt) "sarif" && (out_exit fmt vs <=? 1) then regions_eqb impl_regions (map sarif_region vs) else true ;
    forallb (fun v => match sarif_region v with Some r => region_valid r | None => false end) vs ].
