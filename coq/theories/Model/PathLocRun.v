(* Model/PathLocRun.v — judging one correspondence case (one CLI invocation) inside the kernel's VM.
   Returns [root detection = project dir; impl = spec; model ideal = spec; impl = model c for each candidate c]. *)
From TL Require Import Lib.Base Lib.GenTypes Model.PathLocTypes Gen.PathLocGen Model.PathLoc.

Definition with_flag (i : nat) (q : quirks) : quirks :=
  let a := q_excl_all_parts q in let b := q_ignore_no_reroot q in let c := q_linter_ignore_full_path q in
  let d := q_fp_relative_unchanged q in let e := q_test_marker_full_path q in let f := q_rule_parser_cwd q in
  match i with
  | 0 => Build_quirks false b c d e f
  | 1 => Build_quirks a false c d e f
  | 2 => Build_quirks a b false d e f
  | 3 => Build_quirks a b c false e f
  | 4 => Build_quirks a b c d false f
  | _ => Build_quirks a b c d e false
  end.

(* candidates: the claimed vector, the claimed vector with one flag switched off, the ideal *)
Definition candidates (q : quirks) : list quirks := q :: map (fun i => with_flag i q) [0;1;2;3;4;5] ++ [ideal].

Definition same_lines (a b : list nat) : bool := ms_eqb Nat.eqb a b.

Fixpoint same (a b : list (list nat)) : bool :=
  match a, b with
  | [], [] => true
  | x :: a', y :: b' => same_lines x y && same a' b'
  | _, _ => false
  end.

(* one file of a case: path as it reaches lint_file, language, what the analysers find in its text,
   its path inside the project, and the lines the implementation reported for it *)
Record jfile := { j_given : gpath; j_lang : lang; j_raw : list nat; j_rel : list string; j_impl : list nat }.

Definition dummy_sig : cmdsig := Build_cmdsig "" INone false [] t_none t_none t_none false.

(* full = false: the six single-flag candidates and the ideal candidate are only evaluated for a case on which the implementation
   differs from the specification or from the claimed vector (they are not looked at otherwise; the harness re-judges every case
   with full = true as soon as one case disagrees with the claimed vector) *)
Definition judge_gen (full : bool) (q : quirks) (cmd : string) (chain : list level) (proj_depth : nat) (cwd : list string)
           (root_pats cwd_pats : list string) (configured : option (list string)) (files : list jfile) : list bool :=
  let sg := match find_sig cmd with Some s => s | None => dummy_sig end in
  let e := {| e_root := find_root chain; e_cwd := cwd; e_root_pats := root_pats; e_cwd_pats := cwd_pats |} in
  let fs := map (fun j => {| f_given := j_given j; f_lang := j_lang j; f_raw := j_raw j |}) files in
  let ss := map (fun j => {| s_rel := j_rel j; s_lang := j_lang j; s_raw := j_raw j |}) files in
  let impl := map j_impl files in
  let xf := find (fun x => String.eqb (fst x) cmd) xfile_commands in   (* cross-file commands and their gate *)
  let spec := match xf with Some (_, gate) => xfile_spec gate root_pats sg configured ss | None => spec_result root_pats sg configured ss end in
  let run := fun c => match xf with Some (_, gate) => xfile_result_fast gate c e sg configured fs | None => run_result c e sg configured fs end in
  let spec_ok := same impl spec in
  let c0 := same impl (run q) in
  (match find_sig cmd with Some _ => true | None => false end && (find_root_len root_markers chain =? proj_depth))
  :: spec_ok
  :: same (run ideal) spec
  :: c0
  :: (if negb full && spec_ok && c0 then map (fun _ => true) (tl (candidates q))
      else map (fun c => same impl (run c)) (tl (candidates q))).

Definition judge := judge_gen true.
Definition judge_lazy := judge_gen false.

(* unit-level: root detection alone *)
Definition judge_root (chain : list level) (impl_len : nat) : bool := find_root_len root_markers chain =? impl_len.
