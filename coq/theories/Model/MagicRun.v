(* Model/MagicRun.v — judging one correspondence case inside the kernel's VM.
   For an abstract file, a language and a list of (configuration, implementation output) the
   harness gets back, per configuration:
   [file_good ; impl = spec ; model ideal = spec ; impl = model q for each candidate q]. *)
From Coq Require Import ZArith.
From TL Require Import Lib.Base Lib.GenTypes Gen.MagicGen Model.MagicNum Model.Magic Model.MagicSpec.

Definition with_flag (i : nat) (q : mquirks) : mquirks :=
  let b (k : nat) (v : bool) := if i =? k then false else v in
  Build_mquirks (b 0 (q_py_bool_is_number q)) (b 1 (q_py_upper_neg_flagged q)) (b 2 (q_py_upper_ann_flagged q))
                (b 3 (q_py_upper_tuple_flagged q)) (b 4 (q_ts_hex_e_float q)) (b 5 (q_ts_bigint_dropped q))
                (b 6 (q_ts_test_marker_anywhere q)) (b 8 (q_ts_single_letter_const q)) (b 7 (q_rs_hex_suffix_clash q))
                (b 9 (q_py_enumerate_kw_flagged q)) (b 10 (q_py_upper_binop_flagged q)).

(* the flags that can influence a language *)
Definition flag_ids (l : mlang) : list nat := match l with MPy => [0;1;2;3;9;10] | MTs => [4;5;6;8] | MRs => [7] end.

(* candidates: the claimed vector, the claimed vector with one of the language's flags switched off, the ideal *)
Definition candidates (l : mlang) (q : mquirks) : list mquirks := q :: map (fun i => with_flag i q) (flag_ids l) ++ [m_ideal].

Definition norm_rep (r : mrep) : mrep :=
  match r with (ln, RNum v) => (ln, RNum (norm v)) | _ => r end.

Definition same (a b : list mrep) : bool := ms_eqb mrep_eqb (map norm_rep a) (map norm_rep b).

Definition count_numeric (f : file) : nat :=
  sum_nat (map (fun sc => sum_nat (map (fun s => List.length (filter lit_is_numeric (s_lits s))) (sc_sites sc))) (f_scopes f)).

(* per configuration: [#reports demanded; #numeric literals; file_good; impl = spec; ideal = spec; impl = model c ...] *)
Definition judge (q : mquirks) (l : mlang) (f : file) (ds : dirs) (runs : list (mconfig * list mrep)) : list (list nat) :=
  map (fun r => let '(cfg, impl) := r in
         List.length (spec_lint_d l cfg f ds) :: count_numeric f
         :: map b2n (file_good l f && dirs_good ds
                     :: same impl (spec_lint_d l cfg f ds)
                     :: same (lint_d l m_ideal cfg f ds) (spec_lint_d l cfg f ds)
                     :: map (fun c => same impl (lint_d l c cfg f ds)) (candidates l q)))
      runs.

(* what the model says, for debugging a disagreement: (line, is_bool, mantissa sign/abs, exponent sign/abs) *)
Definition show_rep (r : mrep) : list nat :=
  match r with
  | (ln, RBool b) => [ln; 1; b2n b; 0; 0; 0]
  | (ln, RNum (m, e)) => [ln; 0; b2n (m <? 0)%Z; Z.to_nat (Z.abs m); b2n (e <? 0)%Z; Z.to_nat (Z.abs e)]
  end.
Definition show (l : mlang) (q : mquirks) (cfg : mconfig) (f : file) : list (list nat) * list (list nat) :=
  (map show_rep (lint l q cfg f), map show_rep (spec_lint l cfg f)).

(* the text the model assumes for every numeric literal of a file (compared with the renderer's text) *)
Definition lit_texts (f : file) : list (list nat) :=
  flat_map (fun sc => flat_map (fun s => flat_map (fun l => if lit_is_numeric l then [map nat_of_ascii (lit_chars l)] else [])
                                                  (s_lits s)) (sc_sites sc)) (f_scopes f).
