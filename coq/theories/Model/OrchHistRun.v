(* Model/OrchHistRun.v — running the orchestrator model inside the kernel's VM for the correspondence check.

   Two instances of the rule parameters:
   (1) symbolic: a report is the token "this rule's finalize over that evidence list"; running a history yields
       the list of report QUERIES the model makes; the harness measures each query on a fresh rule object of the
       implementation (single shot: check() every file version of the list, finalize() once);
   (2) tabled: violations are numbers, per-file results and the measured reports are association tables;
       `judge08` / `judge10` compare the implementation's outputs with the specification and with the model under
       each candidate quirk vector. *)
From Coq Require Import NArith.
From TL Require Import Lib.Base Lib.GenTypes Gen.OrchHistGen Model.OrchHist.

Definition nat_mem (x : nat) (l : list nat) : bool := existsb (Nat.eqb x) l.

(* path predicates as tables *)
Definition tbl_in_dir (dirs : list (nat * list nat)) (d : nat) (p : path) : bool :=
  match passoc d dirs with Some l => nat_mem p l | None => false end.

(* ---------- candidates ---------- *)
(* switch flag i off: 0 dry storage, 1 lint_file evidence, 2 constants order, 3 ignore parser reuse, 4 API file entry,
   5 DRY sticky configuration, 6 file-placement sticky configuration *)
Definition with_flag (i : nat) (q : oquirks) : oquirks :=
  let f (j : nat) (b : bool) := if i =? j then false else b in
  Build_oquirks (f 0 (q_dry_keeps_storage q)) (f 1 (q_lintfile_leaves_evidence q)) (f 2 (q_consts_in_processing_order q))
                (f 3 (q_ignore_parser_reused q)) (f 4 (q_api_file_no_finalize q)) (f 5 (q_dry_config_sticky q)) (f 6 (q_fp_config_sticky q)).
(* C08 does not speak about the API's choice of entry point: its ideal keeps that flag as claimed *)
Definition hist_off (q : oquirks) : oquirks := Build_oquirks false false false false (q_api_file_no_finalize q) false false.
Definition candidates08 (q : oquirks) : list oquirks :=
  [q; with_flag 0 q; with_flag 1 q; with_flag 2 q; with_flag 3 q; with_flag 5 q; with_flag 6 q; hist_off q].
Definition candidates10 (q : oquirks) : list oquirks :=
  [q; with_flag 0 q; with_flag 1 q; with_flag 2 q; with_flag 3 q; with_flag 4 q; with_flag 5 q; with_flag 6 q; ideal].

(* which paths the patterns of each version of the ignore file match: key 0 = no ignore file, S c = version c *)
Definition pats_key (pp : option content) : nat := match pp with None => 0 | Some c => S c end.
Definition tbl_ignored (ign : list (nat * list nat)) (pp : option content) (p : path) : bool :=
  match passoc (pats_key pp) ign with Some l => nat_mem p l | None => false end.

(* ---------- (1) symbolic instance ---------- *)
(* TRep k n l: report of kind k over the evidence l; for the block report (k = 0) the last n entries of l are the
   file versions checked since the last finalize (their inline-ignore ranges and contents are known to the rule);
   TBad: a state the single-shot measurement cannot reproduce *)
(* ck: key of the configuration the report is made under (0 for the stringly-typed report, which carries its own);
   file versions are enc content configuration *)
Inductive tok := TPer (p : path) (c : option content) | TFp (p : path) (c : option content)
               | TRep (k : nat) (n : nat) (ck : nat) (l : list fv) | TBad.

Definition sym_pf (p : path) (c : option content) : list tok := [TPer p c].
Definition sym_fp (p : path) (c : option content) : list tok := [TFp p c].
Definition sym_rep (k : nat) (cfg : option content) (l : list fv) : list tok := [TRep k 0 (cfg_key cfg) l].
Definition sym_st (l : list fv) : list tok := [TRep 2 0 0 l].

Definition fv_eqb (a b : fv) : bool := (fst a =? fst b) && (snd a =? snd b).
Fixpoint fvs_eqb (a b : list fv) : bool :=
  match a, b with [], [] => true | x :: xs, y :: ys => fv_eqb x y && fvs_eqb xs ys | _, _ => false end.
Fixpoint is_suffix (a l : list fv) : bool :=
  fvs_eqb a l || match l with [] => false | _ :: r => is_suffix a r end.
Definition sym_blocks (cfg : option content) (rows aux : list fv) : list tok :=
  if is_suffix aux rows then [TRep 0 (List.length aux) (cfg_key cfg) rows] else [TBad].

Fixpoint flat_fv (l : list fv) : list nat := match l with [] => [] | (p, c) :: r => p :: c :: flat_fv r end.
Definition enc_tok (t : tok) : list (list nat) :=
  match t with TRep k n ck l => [k :: n :: ck :: flat_fv l] | _ => [] end.

Section Sym.
  Variables (hard : list nat) (ign : list (nat * list nat)) (ip cp : path) (dirs : list (nat * list nat)).
  Definition sym_run (q : oquirks) (fs0 : fsys) (h : list op) : list (out tok) :=
    snd (run tok sym_pf sym_fp sym_blocks (sym_rep 1) sym_st (fun p => nat_mem p hard) (tbl_ignored ign) ip cp (tbl_in_dir dirs) q (mk_init ip cp fs0, fs0) h).
  Fixpoint sym_fresh_run (q : oquirks) (fs : fsys) (h : list op) : list (out tok) :=
    match h with
    | [] => []
    | o :: r => fresh tok sym_pf sym_fp sym_blocks (sym_rep 1) sym_st (fun p => nat_mem p hard) (tbl_ignored ign) ip cp (tbl_in_dir dirs) q fs o
                :: sym_fresh_run q (fs_step fs o) r
    end.
  Definition enc_outs (l : list (out tok)) : list (list nat) := flat_map (fun o => flat_map enc_tok (out_all o)) l.

  (* every report query the judge will make for this history *)
  (* h: the history as executed; hc: the same history with every file list / directory listing in canonical
     (sorted) order — the specification is stated on hc *)
  Definition queries08 (q : oquirks) (fs0 : fsys) (h hc : list op) : list (list nat) :=
    flat_map (fun c => enc_outs (sym_run c fs0 h)) (candidates08 q)
    ++ enc_outs (sym_fresh_run q fs0 h) ++ enc_outs (sym_fresh_run (hist_off q) fs0 hc).
End Sym.

(* ---------- (2) tabled instance: violations are binary numbers (N), 0 = missing table entry ---------- *)
Definition sentinel : N := 0%N.   (* real violation ids start at 1 *)

Definition ocontent_eqb (a b : option content) : bool :=
  match a, b with Some x, Some y => x =? y | None, None => true | _, _ => false end.
Fixpoint pf_lookup (tbl : list (nat * option nat * list N)) (p : path) (c : option content) : list N :=
  match tbl with
  | [] => [sentinel]
  | (p', c', v) :: r => if (p =? p') && ocontent_eqb c c' then v else pf_lookup r p c
  end.
Fixpoint nats_eqb (a b : list nat) : bool :=
  match a, b with [] , [] => true | x :: xs, y :: ys => (x =? y) && nats_eqb xs ys | _, _ => false end.
Fixpoint rep_lookup (tbl : list (list nat * list N)) (key : list nat) : list N :=
  match tbl with
  | [] => [sentinel]
  | (k, v) :: r => if nats_eqb k key then v else rep_lookup r key
  end.

Definition same (a b : list N) : bool := ms_eqb N.eqb a b.

Section Tab.
  Variables (hard : list nat) (ign : list (nat * list nat)) (ip cp : path) (dirs : list (nat * list nat)).
  Variable pf_tbl fp_tbl : list (nat * option nat * list N).
  Variable rep_tbl : list (list nat * list N).

  Definition t_pf := pf_lookup pf_tbl.
  Definition t_fp := pf_lookup fp_tbl.
  Definition t_rep (k : nat) (cfg : option content) (l : list fv) : list N := rep_lookup rep_tbl (k :: 0 :: cfg_key cfg :: flat_fv l).
  Definition t_st (l : list fv) : list N := rep_lookup rep_tbl (2 :: 0 :: 0 :: flat_fv l).
  Definition t_blocks (cfg : option content) (rows aux : list fv) : list N :=
    if is_suffix aux rows then rep_lookup rep_tbl (0 :: List.length aux :: cfg_key cfg :: flat_fv rows) else [sentinel].
  Definition t_run (q : oquirks) (fs0 : fsys) (h : list op) : list (list N) :=
    map out_all (snd (run N t_pf t_fp t_blocks (t_rep 1) t_st (fun p => nat_mem p hard) (tbl_ignored ign) ip cp (tbl_in_dir dirs) q (mk_init ip cp fs0, fs0) h)).
  Fixpoint t_fresh_run (q : oquirks) (fs : fsys) (h : list op) : list (list N) :=
    match h with
    | [] => []
    | o :: r => out_all (fresh N t_pf t_fp t_blocks (t_rep 1) t_st (fun p => nat_mem p hard) (tbl_ignored ign) ip cp (tbl_in_dir dirs) q fs o)
                :: t_fresh_run q (fs_step fs o) r
    end.

  Fixpoint transpose_judge (impl fresh_impl spec fresh_model ideal_run : list (list N)) (cands : list (list (list N))) : list (list bool) :=
    match impl, fresh_impl, spec, fresh_model, ideal_run with
    | i :: ir, f :: fr, s :: sr, m :: mr, d :: dr =>
        (same i s :: same f m :: same d s :: map (fun c => same i (hd [sentinel] c)) cands)
        :: transpose_judge ir fr sr mr dr (map (@tl _) cands)
    | _, _, _, _, _ => []
    end.

  (* per step of the history:
     [ impl = spec ; fresh impl = fresh model (claimed vector) ; model (C08 flags off) = spec ; impl = model c for each candidate c ]
     where spec = what a fresh object returns, under the vector with the C08 flags off, for the same call with
     its files in canonical order (hc) *)
  Definition judge08 (q : oquirks) (fs0 : fsys) (h hc : list op) (impl fresh_impl : list (list N)) : list (list bool) :=
    transpose_judge impl fresh_impl (t_fresh_run (hist_off q) fs0 hc) (t_fresh_run q fs0 h) (t_run (hist_off q) fs0 h)
                    (map (fun c => t_run c fs0 h) (candidates08 q)).
End Tab.

(* ---------- C10: one command-line invocation against the library API on the same targets ---------- *)
Section Tab10.
  Variables (hard : list nat) (ign : list (nat * list nat)) (ip cp : path) (dirs : list (nat * list nat)).
  Variable pf_tbl fp_tbl : list (nat * option nat * list N).
  Variable rep_tbl : list (list nat * list N).
  Variable rule_ids : list string.            (* distinct rule ids of the case *)
  Variable rid : list (N * nat).              (* violation id -> index into rule_ids *)
  Variable cross : list N.                    (* ids of violations produced by finalize() (cross-file rules) *)

  Fixpoint n_assoc (k : N) (l : list (N * nat)) : option nat :=
    match l with [] => None | (k', v) :: r => if N.eqb k k' then Some v else n_assoc k r end.
  Definition rule_of (v : N) : string := match n_assoc v rid with Some i => nth i rule_ids "" | None => "" end.
  Definition is_cross (v : N) : bool := existsb (N.eqb v) cross.

  (* fn = "" : no rule filter (in-process execute_linting_on_paths); otherwise the filter of that CLI function *)
  Definition keep (fn : string) (v : N) : bool :=
    if String.eqb fn "" then true
    else match cli_filter_of fn cli_filters with Some (k, n) => fmatch k n (rule_of v) | None => false end.
  (* what the command OUGHT to report: the findings whose rule id is emitted by a rule class of the command's own
     linter package (spec_rules: indices into rule_ids, attributed by the harness by running each rule on its own) *)
  Variable spec_rules : list nat.
  Definition keep_spec (fn : string) (v : N) : bool :=
    if String.eqb fn "" then true
    else match n_assoc v rid with Some i => nat_mem i spec_rules | None => false end.

  Definition m_cli (q : oquirks) (fs : fsys) (files : list path) (ds : list (nat * list path)) : list N :=
    flat_map out_all (cli_run N (pf_lookup pf_tbl) (pf_lookup fp_tbl) (t_blocks rep_tbl) (t_rep rep_tbl 1) (t_st rep_tbl)
                        (fun p => nat_mem p hard) (tbl_ignored ign) ip cp (tbl_in_dir dirs) q fs files ds).
  Definition m_api (q : oquirks) (fs : fsys) (t : target) : list N :=
    out_all (api_run N (pf_lookup pf_tbl) (pf_lookup fp_tbl) (t_blocks rep_tbl) (t_rep rep_tbl 1) (t_st rep_tbl)
               (fun p => nat_mem p hard) (tbl_ignored ign) ip cp (tbl_in_dir dirs) q fs t).
  Definition targets (files : list path) (ds : list (nat * list path)) : list target :=
    map TFile files ++ map (fun d => TDir (fst d) (snd d)) ds.

  Fixpoint all_same (a b : list (list N)) : bool :=
    match a, b with
    | [], [] => true
    | x :: xs, y :: ys => same x y && all_same xs ys
    | _, _ => false
    end.

  (* [ CLI = API restricted to the command's linter, all findings ;
       the same restricted to what check() returns (findings of rules that judge files one at a time) ;
       model with all flags off: CLI (the command's own filter, from the source) = API restricted to the command's linter ;
       for each candidate q: CLI output = model q and every API output = model q ] *)
  Definition judge10 (q : oquirks) (fs : fsys) (fn : string) (files : list path) (ds : list (nat * list path))
             (cli_impl : list N) (api_impl : list (list N)) : list bool :=
    let api_all := filter (keep_spec fn) (List.concat api_impl) in
    let ts := targets files ds in
    same cli_impl api_all
    :: same (filter (fun v => negb (is_cross v)) cli_impl) (filter (fun v => negb (is_cross v)) api_all)
    :: same (filter (keep fn) (m_cli ideal fs files ds)) (filter (keep_spec fn) (flat_map (m_api ideal fs) ts))
    :: map (fun c => same cli_impl (filter (keep fn) (m_cli c fs files ds)) && all_same api_impl (map (m_api c fs) ts))
           (candidates10 q)
    (* and, for attribution: under which candidate the MODEL's two routes agree on this case *)
    ++ map (fun c => same (filter (keep fn) (m_cli c fs files ds)) (filter (keep_spec fn) (flat_map (m_api c fs) ts)))
           (candidates10 q).

  (* the report queries of a case *)
End Tab10.

Section Sym10.
  Variables (hard : list nat) (ign : list (nat * list nat)) (ip cp : path) (dirs : list (nat * list nat)).
  Definition sym_cli (q : oquirks) (fs : fsys) (files : list path) (ds : list (nat * list path)) : list (out tok) :=
    cli_run tok sym_pf sym_fp sym_blocks (sym_rep 1) sym_st (fun p => nat_mem p hard) (tbl_ignored ign) ip cp (tbl_in_dir dirs) q fs files ds.
  Definition sym_api (q : oquirks) (fs : fsys) (t : target) : out tok :=
    api_run tok sym_pf sym_fp sym_blocks (sym_rep 1) sym_st (fun p => nat_mem p hard) (tbl_ignored ign) ip cp (tbl_in_dir dirs) q fs t.
  Definition queries10 (q : oquirks) (fs : fsys) (files : list path) (ds : list (nat * list path)) : list (list nat) :=
    flat_map (fun c => enc_outs (sym_cli c fs files ds)
                       ++ enc_outs (map (sym_api c fs) (map TFile files ++ map (fun d => TDir (fst d) (snd d)) ds)))
             (candidates10 q).
End Sym10.
