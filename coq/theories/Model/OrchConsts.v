(* Model/OrchConsts.v — executable model of the grouping of near-equal constant names in DRYRule's duplicate-constant report
   (src/linters/dry/constant_matcher.py: find_constant_groups -> _merge_fuzzy_groups -> _union_matching_pairs /
   _build_merged_groups with the UnionFind class).  C08: the groups must not depend on the order in which the files (hence
   the names) reach the rule.

   Names are numbers (the harness numbers the distinct names of a case).  The union-find is modelled by its observable:
   the table name -> root that find() returns.  union(x, y) with px = find x, py = find y, px <> py re-roots every name
   whose root is px to py (the source writes _parent[px] = py; path compression never changes a root) - or the other way
   round when the generated layer says so (Gen.uf_first_root_under_second, read from UnionFind.union).
   The pairs are those of itertools.combinations(names, 2): every earlier name with every later one, in list order.
   The match predicate (_is_fuzzy_match: equal, or similar words / edit distance <= Gen.const_max_edit_distance without
   antonym conflict) is a PARAMETER: the theorems hold for every symmetric predicate.  No proofs here. *)
From TL Require Import Lib.Base Lib.GenTypes Gen.OrchHistGen.

Definition cname := nat.
Definition roots := list (cname * cname).        (* name -> root; names absent from the table are their own root *)

Fixpoint uf_find (l : roots) (x : cname) : cname :=
  match l with [] => x | (n, r) :: t => if n =? x then r else uf_find t x end.
Definition relabel (from to : cname) (l : roots) : roots :=
  map (fun e => if snd e =? from then (fst e, to) else e) l.
Definition uf_union (dir : bool) (l : roots) (x y : cname) : roots :=
  let px := uf_find l x in let py := uf_find l y in
  if px =? py then l else if dir then relabel px py l else relabel py px l.

Fixpoint combinations2 (l : list cname) : list (cname * cname) :=
  match l with [] => [] | x :: t => map (pair x) t ++ combinations2 t end.
Definition uf_init (names : list cname) : roots := map (fun n => (n, n)) names.
Definition union_step (dir : bool) (m : cname -> cname -> bool) (l : roots) (p : cname * cname) : roots :=
  if m (fst p) (snd p) then uf_union dir l (fst p) (snd p) else l.
Definition union_pairs (dir : bool) (m : cname -> cname -> bool) (l : roots) (ps : list (cname * cname)) : roots :=
  fold_left (union_step dir m) ps l.
(* _merge_fuzzy_groups up to the union-find state *)
Definition uf_run (dir : bool) (m : cname -> cname -> bool) (names : list cname) : roots :=
  union_pairs dir m (uf_init names) (combinations2 names).

(* _build_merged_groups: groups keyed by root in order of first appearance, members in the order of `names` *)
Fixpoint add_member (root n : cname) (gs : list (cname * list cname)) : list (cname * list cname) :=
  match gs with
  | [] => [(root, [n])]
  | (r, ms) :: t => if r =? root then (r, ms ++ [n]) :: t else (r, ms) :: add_member root n t
  end.
Definition merged_groups (dir : bool) (m : cname -> cname -> bool) (names : list cname) : list (cname * list cname) :=
  fold_left (fun gs n => add_member (uf_find (uf_run dir m names) n) n gs) names [].
(* ConstantGroup.is_fuzzy_match: some member is not the root *)
Definition group_fuzzy (g : cname * list cname) : bool := existsb (fun n => negb (n =? fst g)) (snd g).

(* the grouping as the source does it: direction of union from the generated layer *)
Definition const_groups (m : cname -> cname -> bool) (names : list cname) : list (cname * list cname) :=
  merged_groups uf_first_root_under_second m names.

(* ---------- run-time judge (C08 stream `constgroups`) ---------- *)
Definition tbl_match (tbl : list (cname * cname)) (a b : cname) : bool :=
  (a =? b) || existsb (fun e => ((fst e =? a) && (snd e =? b)) || ((fst e =? b) && (snd e =? a))) tbl.
Fixpoint nl_eqb (a b : list nat) : bool :=
  match a, b with [], [] => true | x :: s, y :: t => (x =? y) && nl_eqb s t | _, _ => false end.
Fixpoint groups_eqb (a b : list (cname * list cname)) : bool :=
  match a, b with
  | [], [] => true
  | (r, ms) :: s, (r', ms') :: t => (r =? r') && nl_eqb ms ms' && groups_eqb s t
  | _, _ => false
  end.
(* independent specification of "same group": b is reachable from a in the match graph restricted to names
   (breadth-first closure, |names| rounds) *)
Definition reach_step (m : cname -> cname -> bool) (names seen : list cname) : list cname :=
  filter (fun b => existsb (Nat.eqb b) seen || existsb (fun s => m s b) seen) names.
Fixpoint reach_iter (m : cname -> cname -> bool) (names seen : list cname) (fuel : nat) : list cname :=
  match fuel with 0 => seen | S k => reach_iter m names (reach_step m names seen) k end.
Definition reachable (m : cname -> cname -> bool) (names : list cname) (a b : cname) : bool :=
  existsb (Nat.eqb b) (reach_iter m names [a] (List.length names)).
Definition partition_is_components (dir : bool) (m : cname -> cname -> bool) (names : list cname) : bool :=
  let l := uf_run dir m names in
  forallb (fun a => forallb (fun b => Bool.eqb (uf_find l a =? uf_find l b) (reachable m names a b)) names) names.
(* per order of the names: [ implementation's groups = model's groups (roots, group order, member order) ;
                             implementation's fuzzy flags = model's ; model's partition = connected components ] *)
Definition judge_consts (tbl : list (cname * cname)) (names : list cname) (impl : list (cname * list cname)) (impl_fuzzy : list bool) : list bool :=
  let g := const_groups (tbl_match tbl) names in
  [ groups_eqb impl g ;
    nl_eqb (map (fun b : bool => if b then 1 else 0) impl_fuzzy) (map (fun x => if group_fuzzy x then 1 else 0) g) ;
    partition_is_components uf_first_root_under_second (tbl_match tbl) names ].
