(* Model/ContainOut.v — property C11: the OUTPUT STAGE of a linter command.
   After linting, every execute function of src/cli/linters calls format_violations(vs, fmt) and then
   sys.exit(1 if vs else 0), inside run_linter_command's `try ... except Exception: handle_linting_error`
   (exit cli_error_exit) but OUTSIDE the per-rule safety net: one exception in a formatter costs the
   whole run.  What a formatter does with each field of a Violation comes from Gen/ContainOutGen.v
   (output_uses); Python values are modelled by their type tag.  Executable, no proofs. *)
From TL Require Import Lib.Base Lib.GenTypes Model.ContainTypes Gen.ContainGen Gen.ContainOutGen Model.Contain.
Require Import ZArith.

(* a Python value as far as the formatters can tell *)
Inductive pv :=
| PInt (z : Z)        (* int *)
| PNone               (* None *)
| PStr (s : string)   (* str *)
| PEnum (s : string). (* a member of the Severity enum, by name *)

Definition is_int (x : pv) : bool := match x with PInt _ => true | _ => false end.
Definition is_str (x : pv) : bool := match x with PStr _ => true | _ => false end.
Definition is_enum (x : pv) : bool := match x with PEnum _ => true | _ => false end.

(* the fields of src/core/types.py Violation *)
Record oviol := {
  o_rule : pv; o_file : pv; o_line : pv; o_col : pv; o_msg : pv; o_sev : pv; o_sugg : pv
}.

Definition field (f : string) (v : oviol) : option pv :=
  if String.eqb f "rule_id" then Some (o_rule v)
  else if String.eqb f "file_path" then Some (o_file v)
  else if String.eqb f "line" then Some (o_line v)
  else if String.eqb f "column" then Some (o_col v)
  else if String.eqb f "message" then Some (o_msg v)
  else if String.eqb f "severity" then Some (o_sev v)
  else if String.eqb f "suggestion" then Some (o_sugg v)
  else None.

(* does the operation succeed on the value?  (false = it raises TypeError / AttributeError) *)
Definition op_ok (o : uop) (x : pv) : bool :=
  match o with
  | UAsIs | UStr => true
  | UJson => negb (is_enum x)            (* json.dumps: int, None, str are serialisable, an Enum member is not *)
  | USanitize | UStrMethod => is_str x
  | UEnumName => is_enum x
  | UAddInt _ => is_int x
  end.

(* format_violations: the formatter a format name reaches *)
Definition formatter_of (fmt : string) : string :=
  match find (fun d => String.eqb fmt (fst d)) output_dispatch with
  | Some d => snd d
  | None => output_default
  end.

Definition uses_of (fmt : string) : list (string * uop) :=
  match find (fun u => String.eqb (formatter_of fmt) (fst u)) output_uses with
  | Some u => snd u
  | None => []
  end.

Definition use_ok (v : oviol) (u : string * uop) : bool :=
  match field (fst u) v with Some x => op_ok (snd u) x | None => false end.

(* the formatter gets through this violation *)
Definition fmt_ok (fmt : string) (v : oviol) : bool := forallb (use_ok v) (uses_of fmt).

(* exit status of the output stage: format_violations, then sys.exit(1 if vs else 0); an exception -> handle_linting_error *)
Definition out_exit (fmt : string) (vs : list oviol) : nat :=
  if forallb (fmt_ok fmt) vs then match vs with [] => 0 | _ => 1 end else cli_error_exit.

(* what the fields must be for every formatter: the annotated types of Violation *)
Definition well_typed (v : oviol) : bool :=
  is_str (o_rule v) && is_int (o_line v) && is_int (o_col v) && is_str (o_msg v) && is_enum (o_sev v).

(* ---------------------------------------------------------------- the SARIF region of a result *)
(* the constant k of the `column + k` use (Gen); 0 when the formatter has no such use *)
Definition sarif_col_shift : nat :=
  match find (fun u => String.eqb "column" (fst u) && match snd u with UAddInt _ => true | _ => false end) (uses_of "sarif") with
  | Some (_, UAddInt k) => k
  | _ => 0
  end.

(* (startLine, startColumn) of the result, when the formatter gets through *)
Definition sarif_region (v : oviol) : option (pv * pv) :=
  if fmt_ok "sarif" v then
    Some (o_line v, match o_col v with PInt c => PInt (c + Z.of_nat sarif_col_shift) | x => x end)
  else None.

(* SARIF 2.1.0, 3.30.5 / 3.30.6: both are integers >= 1 *)
Definition region_valid (r : pv * pv) : bool :=
  match r with
  | (PInt l, PInt c) => (1 <=? l)%Z && (1 <=? c)%Z
  | _ => false
  end.

(* ---------------------------------------------------------------- a linter command as a whole *)
(* rend: how a reported line of the containment model is turned into a Violation object *)
Definition cli_exit (fmt : string) (rend : viol -> oviol) (r : run_result) : nat :=
  match r with
  | Crashed _ => cli_error_exit
  | Completed cs fs => out_exit fmt (map rend (flat_viols cs fs))
  end.

(* the rendering the containment model has assumed so far: every field has its annotated type *)
Definition rend_typed (v : viol) : oviol :=
  {| o_rule := PStr (fst (fst v)); o_file := PStr (snd (fst v)); o_line := PInt (Z.of_nat (snd v)); o_col := PInt 0;
     o_msg := PStr ""; o_sev := PEnum "ERROR"; o_sugg := PNone |}.
