(* Model/CfgLoc.v — `thailint config set / get / reset` WITHOUT --config: the default-location chain of src/config.py.
   load_config(None) walks CONFIG_LOCATIONS in order and takes the first location that exists, can be read, and whose
   configuration (merged over the defaults) validates; unreadable and invalid ones are skipped; none left -> the defaults.
   save_config(None) writes CONFIG_LOCATIONS[save_location_index].  State: one file state per location, in the order of
   Gen.config_locations.  The single-file machine of Model/CfgCli.v (`step q false`) is the one-location instance.
   No proofs in this file. *)
From TL Require Import Lib.Base Lib.GenTypes Model.CfgTypes Gen.CfgToolGen Model.CfgMerge Model.CfgCli.
From Coq Require Import ZArith.

(* what stands at a location: nothing; a file no loader can turn into a mapping (syntax error, not a mapping);
   a file with these top-level (key, value) pairs *)
Inductive lfile := LAbsent | LBroken | LFile (kv : cfg).
Definition lstate := list lfile.

(* _load_from_default_locations / _try_load_from_location *)
Fixpoint load_chain (ls : lstate) : cfg :=
  match ls with
  | [] => default_config
  | LFile kv :: r => let m := merge_cfg default_config (normalize kv) in if valid m then m else load_chain r
  | _ :: r => load_chain r
  end.

(* writing location n (directories are created on the way: path.parent.mkdir) *)
Fixpoint write_loc (n : nat) (x : lfile) (ls : lstate) : lstate :=
  match n, ls with
  | 0, [] => [x]
  | 0, _ :: r => x :: r
  | S k, [] => LAbsent :: write_loc k x []
  | S k, a :: r => a :: write_loc k x r
  end.

Record lobs := { lo_rc : nat; lo_out : option string; lo_files : lstate }.

Definition lstep (q : cquirks) (ls : lstate) (c : cmd) : lobs :=
  let conf := load_chain ls in
  match c with
  | CSet k t =>
    let v := convert t in
    let conf' := upd (ckey_set q k) v conf in
    if valid conf'
    then Build_lobs 0 (Some (set_msg_prefix ++ ckey_set q k ++ set_msg_mid ++ show v)%string) (write_loc save_location_index (LFile conf') ls)
    else Build_lobs set_reject_exit None ls
  | CGet k =>
    match lookup (ckey_get q k) conf with
    | Some v => Build_lobs 0 (Some (show v)) ls
    | None => Build_lobs get_missing_exit None ls
    end
  | CReset => Build_lobs 0 None (write_loc save_location_index (LFile default_config) ls)
  end.

Fixpoint lrun (q : cquirks) (ls : lstate) (cs : list cmd) : list lobs :=
  match cs with
  | [] => []
  | c :: r => let o := lstep q ls c in o :: lrun q (lo_files o) r
  end.

(* ------------------------------------------------------------------ specification (on observed traces) *)
(* Stated on what can be observed - the files at the known locations before and after each command, exit code, output - and
   independent of the search order the code uses:
     rejected set, get: no file at any location changes;
     accepted set: every file that changed is valid AS DOCUMENTED after loading and holds the accepted value under the key,
                   and at least one location holds it;
     a get of a key set earlier (no later accepted set of it, no reset) exits 0 and prints that value. *)
Definition lfile_eqb (a b : lfile) : bool :=
  match a, b with
  | LAbsent, LAbsent => true
  | LBroken, LBroken => true
  | LFile x, LFile y => file_eqb (Some x) (Some y)
  | _, _ => false
  end.
Definition lstate_eqb (a b : lstate) : bool := list_eqb lfile_eqb a b.
Definition lstored_ok (k : string) (v : cval) (f : lfile) : bool :=
  match f with LFile c => stored_ok k v (Some c) | _ => false end.
Fixpoint changed_ok (k : string) (v : cval) (before after : lstate) : bool :=
  match before, after with
  | [], r => forallb (fun a => lfile_eqb a LAbsent || lstored_ok k v a) r
  | _ :: _, [] => false
  | b :: br, a :: ar => (lfile_eqb a b || lstored_ok k v a) && changed_ok k v br ar
  end.

Fixpoint lspec_trace (exp : list (string * string)) (before : lstate) (cs : list cmd) (os : list lobs) : list bool :=
  match cs, os with
  | c :: cr, o :: or =>
    match c with
    | CSet k t =>
      if lo_rc o =? 0
      then (changed_ok k (convert_doc t) before (lo_files o) && existsb (lstored_ok k (convert_doc t)) (lo_files o))
           :: lspec_trace (upd (norm k) (show (convert_doc t)) exp) (lo_files o) cr or
      else lstate_eqb (lo_files o) before :: lspec_trace exp (lo_files o) cr or
    | CGet k =>
      (lstate_eqb (lo_files o) before &&
       match lookup (norm k) exp with
       | Some s => (lo_rc o =? 0) && opt_str_eqb (lo_out o) (Some s)
       | None => true
       end) :: lspec_trace exp (lo_files o) cr or
    | CReset => true :: lspec_trace [] (lo_files o) cr or
    end
  | _, _ => []
  end.

Definition lobs_eqb (a b : lobs) : bool :=
  (lo_rc a =? lo_rc b) && opt_str_eqb (lo_out a) (lo_out b) && lstate_eqb (lo_files a) (lo_files b).

(* judging one observed history (correspondence): [specification bits per step; [ideal model trace meets the specification];
   [observed trace = model trace under q / q without the key flag / ideal]; [every set text is in conv_domain]] *)
Definition judge_loc (q : cquirks) (ls0 : lstate) (cs : list cmd) (os : list lobs) : list (list bool) :=
  let noraw (c : cquirks) := Build_cquirks (q_missing_by_raw_key c) (q_append_to_flow_root c) (q_insert_mid_entry c) false in
  let same (c : cquirks) := list_eqb lobs_eqb os (lrun c ls0 cs) in
  [ lspec_trace [] ls0 cs os;
    [forallb (fun b => b) (lspec_trace [] ls0 cs (lrun ideal ls0 cs))];
    map same [q; noraw q; ideal];
    [forallb (fun c => match c with CSet _ t => conv_domain t | _ => true end) cs] ].

(* ------------------------------------------------------------------ fresh files *)
(* `init-config` on a path that does not exist, and `init-config --force` on any existing file, write the template with the
   placeholders of the preset substituted: the text theorem C20_fresh_files talks about.  [preset known; text = gen_content] *)
Definition judge_fresh (preset : string) (text : list string) : list bool :=
  match lookup preset presets with
  | Some reps => [true; lines_eqb text (gen_content reps)]
  | None => [false; false]
  end.
