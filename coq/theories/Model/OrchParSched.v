(* Model/OrchParSched.v — the process pool of lint_files_parallel as a MACHINE (C07): `k` worker processes, a FIFO call
   queue holding the submitted tasks, and two kinds of events in any interleaving:
     EStart w   - the idle worker w takes the next task from the queue and runs _lint_file_worker on it in its process
                  (process-level state of w: Model/OrchParPool.v `step`)
     EFinish t  - the future of the running task t completes: it is the next one as_completed hands to the parent
   A trace (list of events) is an execution when every event is enabled and, at the end, the queue is empty and no task
   is running.  Model/OrchPar.v / OrchParPool.v describe a run by TWO LISTS (which worker served which task, in which
   order the futures completed); Proofs/OrchParSched.v shows that every execution of this machine is such a run.
   No proofs here. *)
From TL Require Import Lib.Base Lib.GenTypes Model.OrchParTypes Gen.OrchParGen Model.OrchPar Model.OrchParPool.

Inductive event := EStart (w : nat) | EFinish (t : nat).

Section Sched.
  Variables file evidence wstate : Type.
  Variable step : wstate -> file -> option (list violation) * wstate.
  Variable init : wstate.
  Variable collect : file -> evidence.
  Variable report : list evidence -> list violation.
  Variable parent_sees : file -> bool.

  Record pstate := {
    p_queue : list file;                         (* submitted, not started; head = next *)
    p_next : nat;                                (* submission index of the head of the queue *)
    p_running : list (nat * nat);                (* (worker, task) pairs in progress *)
    p_wst : nat -> wstate;                       (* process-level state of every worker *)
    p_assign : list nat;                         (* log: the worker of every started task, in submission order *)
    p_res : list (option (list pydict));         (* what the started tasks return / None = raise, in submission order *)
    p_done : list nat                            (* the completed tasks, in completion order *)
  }.

  Definition p_init (files : list file) : pstate :=
    {| p_queue := files; p_next := 0; p_running := []; p_wst := fun _ => init; p_assign := []; p_res := []; p_done := [] |}.

  Definition busy (w : nat) (running : list (nat * nat)) : bool := existsb (fun p : nat * nat => fst p =? w) running.

  (* the running entry of task t, taken out *)
  Fixpoint take_task (t : nat) (running : list (nat * nat)) : option (list (nat * nat)) :=
    match running with
    | [] => None
    | p :: r => if snd p =? t then Some r else option_map (cons p) (take_task t r)
    end.

  (* one event; None = not enabled *)
  Definition mstep (q : pquirks) (k : nat) (ev : event) (st : pstate) : option pstate :=
    match ev with
    | EStart w =>
      if (w <? k) && negb (busy w (p_running st)) then
        match p_queue st with
        | [] => None
        | f :: rest =>
          let '(r, s') := step (p_wst st w) f in
          Some {| p_queue := rest; p_next := S (p_next st); p_running := (w, p_next st) :: p_running st;
                  p_wst := upd wstate (p_wst st) w s'; p_assign := p_assign st ++ [w];
                  p_res := p_res st ++ [worker_result q r]; p_done := p_done st |}
        end
      else None
    | EFinish t =>
      match take_task t (p_running st) with
      | None => None
      | Some r' => Some {| p_queue := p_queue st; p_next := p_next st; p_running := r'; p_wst := p_wst st;
                           p_assign := p_assign st; p_res := p_res st; p_done := p_done st ++ [t] |}
      end
    end.

  Fixpoint mrun (q : pquirks) (k : nat) (trace : list event) (st : pstate) : option pstate :=
    match trace with
    | [] => Some st
    | ev :: tr => match mstep q k ev st with None => None | Some st' => mrun q k tr st' end
    end.

  Definition terminal (st : pstate) : bool :=
    match p_queue st, p_running st with [], [] => true | _, _ => false end.

  (* lint_files_parallel over the machine: outer None = `trace` is not an execution of the pool for these files *)
  Definition machine_par_run (q : pquirks) (mw : option nat) (cpu : nat) (trace : list event) (files : list file)
    : option (option (list violation)) :=
    match files with
    | [] => Some (Some [])
    | _ =>
      if below_threshold file mw cpu files
      then Some (seq_run file evidence (fresh_perfile file wstate step init) collect report files)
      else match mrun q (effective_workers mw cpu) trace (p_init files) with
           | None => None
           | Some st =>
             if terminal st
             then Some (match all_some (p_res st) with
                        | None => None
                        | Some futs => Some (List.concat (apply_sched (p_done st) (map extract futs))
                                             ++ parent_finalize file evidence collect report parent_sees q files)
                        end)
             else None
           end
    end.

  (* the state of every worker after the tasks `files` were served under `assign` *)
  Fixpoint pool_state (st : nat -> wstate) (assign : list nat) (files : list file) : nat -> wstate :=
    match files with
    | [] => st
    | f :: fs => let w := hd 0 assign in pool_state (upd wstate st w (snd (step (st w) f))) (tl assign) fs
    end.
End Sched.
