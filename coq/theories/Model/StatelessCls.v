(* Model/StatelessCls.v — executable model of the stateless-class detector (src/linters/stateless_class:
   python_analyzer._find_stateless_classes / _is_stateless / _should_skip_class and the two name-based filters of
   StatelessClassRule._find_stateless_classes), as a walker in the sense of Model/Embed.v, quirk-parametric:
     q_sl_exempt_test_name   a class whose NAME starts with `Test` is exempt      (is_test_class; undocumented)
     q_sl_exempt_mixin_name  a class whose lower-cased NAME contains `mixin` is exempt  (is_mixin_class; undocumented)
     q_sl_lookup_by_name     the filters look the class up BY NAME in a table of all classes of the file (the last one
                             in ast.walk order wins), so another class of the same name elsewhere decides; false: the
                             class itself is examined
   Class names, constructor names, base names, rule id, message, defaults come from Gen/EmbedGen.v.
   Inline ignore directives, the `ignore` list and test FILE names are outside this model.  No proofs in this file. *)
From TL Require Import Lib.Base Lib.GenTypes Gen.EmbedGen Model.Embed Model.PrintStmt Model.PerfConcat.

Record squirks := mkSQ { q_sl_exempt_test_name : bool; q_sl_exempt_mixin_name : bool; q_sl_lookup_by_name : bool }.
Definition s_ideal : squirks := mkSQ false false false.

Fixpoint has_sub (sub s : string) : bool :=
  String.prefix sub s || match s with EmptyString => false | String _ r => has_sub sub r end.

(* ast.walk(t) with any(): some node of the subtree satisfies p *)
Fixpoint walk_any (p : ast -> bool) (t : ast) : bool :=
  match t with Node i ks => p (Node i ks) || existsb (walk_any p) ks end.

(* _get_base_name *)
Definition base_name (b : ast) : string :=
  if is_cls sl_base_name_cls b || is_cls sl_base_attr_cls b then nsval b else "".

Definition count_methods (c : ast) : nat := List.length (filter (is_cls sl_method_cls) (field "body" c)).
Definition has_constructor (c : ast) : bool :=
  existsb (fun it => is_cls sl_method_cls it && smem (nsval it) sl_constructor_names) (field "body" c).
Definition has_decorators (c : ast) : bool := match field "decorator_list" c with [] => false | _ :: _ => true end.
Definition inherits_abc (c : ast) : bool := existsb (fun b => smem (base_name b) sl_abc_names) (field "bases" c).
Definition has_class_attrs (c : ast) : bool := existsb (fun it => smem (ncls it) sl_class_attr_classes) (field "body" c).
Definition is_self_attribute (t : ast) : bool :=
  is_cls sl_self_attr_cls t && match field "value" t with [v] => named sl_self_name_cls sl_self_name v | _ => false end.
Definition is_self_attr_assignment (n : ast) : bool :=
  is_cls sl_assign_cls n && existsb is_self_attribute (field "targets" n).
Definition has_instance_attrs (c : ast) : bool :=
  existsb (fun it => is_cls sl_method_cls it && walk_any is_self_attr_assignment it) (field "body" c).
Definition has_base_classes (c : ast) : bool :=
  existsb (fun b => negb (String.eqb (base_name b) "") && negb (String.eqb (base_name b) sl_object_name)) (field "bases" c).
(* _should_skip_class / _is_stateless *)
Definition should_skip (c : ast) : bool :=
  has_constructor c || (has_decorators c || inherits_abc c) || has_class_attrs c || has_instance_attrs c || has_base_classes c.
Definition is_stateless (min : nat) (c : ast) : bool := negb (should_skip c) && (min <=? count_methods c).

(* is_test_class / is_mixin_class *)
Definition test_pred (q : squirks) (c : ast) : bool :=
  (q_sl_exempt_test_name q && String.prefix sl_test_prefix (nsval c))
  || existsb (fun b => smem (base_name b) sl_test_base_names) (field "bases" c).
Definition mixin_pred (q : squirks) (c : ast) : bool :=
  q_sl_exempt_mixin_name q && has_sub sl_mixin_word (lower (nsval c)).

(* _parse_class_nodes: {name: node} over ast.walk (breadth first), later entries overwrite earlier ones *)
Fixpoint depth (t : ast) : nat := match t with Node _ ks => S (maxl (map depth ks)) end.
Fixpoint bfs (fuel : nat) (level : list ast) : list ast :=
  match fuel with
  | O => []
  | S f => match level with [] => [] | _ :: _ => level ++ bfs f (flat_map nkids level) end
  end.
Definition class_table (file : list ast) : list ast :=
  map erase (filter (is_cls sl_class_cls) (bfs (S (maxl (map depth file))) file)).
Definition lookup (nm : string) (tbl : list ast) : option ast :=
  fold_left (fun acc c => if String.eqb (nsval c) nm then Some c else acc) tbl None.

Definition exempt (q : squirks) (tbl : list ast) (c : ast) : bool :=
  let target := if q_sl_lookup_by_name q then match lookup (nsval c) tbl with Some d => d | None => c end else c in
  (sl_exempt_test_default && test_pred q target) || (sl_exempt_mixins_default && mixin_pred q target).

Definition sl_step (tbl : list ast) (_ : ast) : list ast := tbl.
Definition sl_emit (q : squirks) (tbl : list ast) (t : ast) : list rep :=
  if is_cls sl_class_cls t && is_stateless sl_min_methods_default (erase t) && negb (exempt q tbl (erase t))
  then [(line (ninfo t), col (ninfo t), "", nsval t)] else [].

Definition sl_table (q : squirks) (file : list ast) : list ast := if q_sl_lookup_by_name q then class_table file else [].
Definition stateless_reports (q : squirks) (file : list ast) : list rep :=
  detectF sl_step (sl_emit q) (sl_table q file) file.

Definition stateless_message (r : rep) : string :=
  match r with (_, _, _, x) => sconcat (map (fun p => if String.eqb (fst p) "lit" then snd p else x) sl_message) end.

(* contexts the locality theorem covers: no wrapper is itself a class (a class wrapper's own verdict depends on what
   is put into it) *)
Fixpoint sl_ctx_ok (c : ctx) : bool :=
  match c with
  | Hole => true
  | Wrap i _ _ _ _ c' => negb (String.eqb (cls i) sl_class_cls) && sl_ctx_ok c'
  | Seq _ _ c' _ => sl_ctx_ok c'
  end.
