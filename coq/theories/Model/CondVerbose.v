(* Model/CondVerbose.v — executable model of the conditional-verbose rule of src/linters/print_statements
   (conditional_verbose_analyzer.py: is_verbose_condition and its four forms, is_logger_call,
   ConditionalVerboseAnalyzer.find_conditional_verbose_calls / _find_logger_calls_in_body; conditional_verbose_rule.py:
   _collect_violations / _create_violation), as a walker in the sense of Model/Embed.v, quirk-parametric:
     q_cv_per_enclosing_if   every `if` with a verbose-like test reports every logger call below its body, so a call
                             below two nested verbose tests is reported twice; false: a call is reported once, by the
                             outermost verbose `if` whose body contains it
   summary = (covered, parent is a verbose if): a node is covered when an ancestor verbose `if` holds it in its body.
   A report carries the position of the logger call and the method name; the implementation prints column cv_column (a
   constant) - the judge compares line, that constant and the message.  Class names, the two name tables, `get`, the rule
   id, the message format and the constant column come from Gen/Embed2Gen.v.  Inline ignore directives are outside this
   model.  No proofs in this file. *)
From TL Require Import Lib.Base Lib.GenTypes Gen.EmbedGen Gen.Embed2Gen Model.Embed Model.PrintStmt Model.PerfConcat.

Record vquirks := mkVQ { q_cv_per_enclosing_if : bool }.
Definition v_ideal : vquirks := mkVQ false.

Definition in_verbose (s : string) : bool := smem (lower s) cv_verbose_names.
Definition str_const_in (c : string) (k : ast) : bool := is_cls c k && String.eqb (nckind k) "str" && in_verbose (nsval k).

(* is_verbose_condition: name / attribute / subscript by a string / .get("...") call *)
Definition is_verbose_cond (t : ast) : bool :=
  (is_cls cv_name_cls t && in_verbose (nsval t))
  || (is_cls cv_attr_cls t && in_verbose (nsval t))
  || (is_cls cv_sub_cls t && match field "slice" t with [k] => str_const_in cv_slice_cls k | _ => false end)
  || (is_cls cv_get_call_cls t
      && match field "func" t with [f] => named cv_get_attr_cls cv_get_name f | _ => false end
      && match field "args" t with a :: _ => str_const_in cv_arg_cls a | [] => false end).
Definition is_verbose_if (t : ast) : bool :=
  is_cls cv_if_cls t && match field "test" t with [c] => is_verbose_cond c | _ => false end.

(* is_logger_call / _extract_logger_method *)
Definition logger_method (t : ast) : string := match field "func" t with [f] => nsval f | _ => "" end.
Definition is_logger_call (t : ast) : bool :=
  is_cls cv_call_cls t
  && match field "func" t with [f] => is_cls cv_logger_attr_cls f && smem (nsval f) cv_logger_methods | _ => false end.

(* _find_logger_calls_in_body on one statement: every logger call of the subtree *)
Fixpoint calls_in (t : ast) : list rep :=
  match t with
  | Node i ks =>
    (if is_logger_call (Node i ks) then [(line i, col i, "", logger_method (Node i ks))] else []) ++ flat_map calls_in ks
  end.
Definition body_calls (t : ast) : list rep := flat_map calls_in (field cv_body_field t).

Definition vsum := (bool * bool)%type.
Definition covered (s : vsum) (t : ast) : bool := fst s || (snd s && String.eqb (nrole t) cv_body_field).
Definition cv_step (s : vsum) (t : ast) : vsum := (covered s t, is_verbose_if (erase t)).
Definition cv_emit (q : vquirks) (s : vsum) (t : ast) : list rep :=
  if is_verbose_if (erase t) && (q_cv_per_enclosing_if q || negb (covered s t)) then body_calls t else [].

Definition cv_reports (q : vquirks) (file : list ast) : list rep := detectF cv_step (cv_emit q) (false, false) file.

Definition cv_message_of (r : rep) : string :=
  match r with (_, _, _, x) => sconcat (map (fun p => if String.eqb (fst p) "lit" then snd p else x) cv_message) end.

(* contexts the locality theorem covers: no wrapper is an `if` with a verbose-like test (such a wrapper legitimately
   makes every logger call of the fragment an occurrence of the pattern) *)
Definition nonverbose_test (pre : list ast) : bool :=
  match filter (fun k => String.eqb (nrole k) "test") pre with
  | c :: _ => negb (is_verbose_cond (erase c))
  | [] => false
  end.
Definition cv_wrap_ok (i : info) (pre : list ast) : bool :=
  negb (String.eqb (cls i) cv_if_cls) || nonverbose_test pre.
Fixpoint cv_ctx_ok (c : ctx) : bool :=
  match c with
  | Hole => true
  | Wrap i pre _ _ _ c' => cv_wrap_ok i pre && cv_ctx_ok c'
  | Seq _ _ c' _ => cv_ctx_ok c'
  end.

(* files on which the quirk cannot show: no verbose `if` lies in the body of another one *)
Fixpoint no_nested_verbose (s : vsum) (t : ast) : bool :=
  match t with
  | Node i ks => negb (is_verbose_if (erase (Node i ks)) && covered s (Node i ks))
                 && forallb (no_nested_verbose (cv_step s (Node i ks))) ks
  end.

(* finite renamings given by the harness: every pair keeps verbose-likeness and logger-method-ness of the name *)
Definition cv_names_kept (sg : list (string * string)) : bool :=
  forallb (fun p => Bool.eqb (in_verbose (fst p)) (in_verbose (snd p))) sg
  && forallb (fun p => Bool.eqb (smem (fst p) cv_logger_methods) (smem (snd p) cv_logger_methods)) sg.
