(* Model/RustSafety.v — executable model of the three Rust safety linters
   (src/linters/{unwrap_abuse,clone_abuse,blocking_async}, src/analyzers/rust_context.py).

   The analyzers walk the tree-sitter tree top-down and, at every call_expression, walk *up* the
   parent chain (is_inside_test, _is_inside_loop, _is_in_async_context, _is_inside_blocking_wrapper,
   _find_parent_let_declaration / _find_parent_block).  The model does the same top-down walk over
   the abstract file carrying the parent chain as a list of frames (nearest first); every upward
   walk is a function of that list.  Node-type names of the Rust grammar (node_type) are a parser
   oracle validated by the correspondence check; every literal of the Python code (tables, needles,
   method names, classifier order, skip rules, option keys and defaults, rule ids, offsets) is read
   from Gen/RustSafetyGen.v.  No proofs in this file. *)
From TL Require Import Lib.Base Lib.GenTypes Model.RustSafetyTypes Model.RustSafetySpec Gen.RustSafetyGen.

(* ------------------------------------------------------------------ quirks *)
(* true = what the code does, false = what the property / documentation demands *)
Record rquirks := {
  q_macro_opaque        : bool;  (* calls inside macro invocations (println!, vec!, assert!...) are never seen:
                                    tree-sitter keeps macro arguments as a token tree *)
  q_test_attr_substring : bool;  (* a function counts as a test when an attribute merely contains "test" *)
  q_cfg_test_literal    : bool;  (* a module counts as test code only when an attribute contains the text "cfg(test)" *)
  q_attr_stop_at_comment: bool;  (* the attribute walk passes over exactly the sibling types the source names
                                    (true) / over comments in any case (false).  Since def5e3f the source names them. *)
  q_chain_start_line    : bool;  (* a method call is reported at the line where its receiver chain starts *)
  q_for_header_in_loop  : bool;  (* the iterator expression of `for` counts as inside the loop *)
  q_clone_first_pattern : bool;  (* a clone is classified before the detect_* switches are consulted *)
  q_blocking_msg_line   : bool;  (* a blocking-async message quotes the source line; the documentation's examples
                                    quote the blocking API path (fs::read_to_string) *)
  q_wrapper_method_form : bool;  (* handle.spawn_blocking(|| ..) (method call) is not recognised as a wrapper *)
  q_net_bare_type       : bool;  (* call-path patterns exactly as in the source (true) / plus the NetType::method form
                                    (false).  The source lacks that form (e1a1fd7 added it, a07d81a removed it again). *)
}.
Definition ideal : rquirks := Build_rquirks false false false false false false false false false false.

(* ------------------------------------------------------------------ the parent chain *)
Record frame := {
  f_type   : string;               (* tree-sitter node type *)
  f_pre    : list sib;             (* preceding siblings, nearest first (items only) *)
  f_async  : bool;                 (* function_modifiers child with an `async` token *)
  f_callee : option (list string); (* call_expression: segments of its identifier / scoped_identifier child *)
  f_mname  : string;               (* call_expression whose function is a field_expression: the method name *)
  f_after  : list string;          (* block: identifier tokens of the children after the one being visited *)
}.
Definition fr (ty : string) : frame :=
  {| f_type := ty; f_pre := []; f_async := false; f_callee := None; f_mname := ""; f_after := [] |}.

(* node types of tree-sitter-rust (parser oracle) *)
Definition node_type (k : kind) : string :=
  match k with
  | KMod _ => "mod_item" | KFn _ _ _ => "function_item" | KImpl => "impl_item"
  | KLet _ => "let_declaration" | KStmt => "expression_statement"
  | KId _ => "identifier" | KLit => "integer_literal" | KField _ => "field_expression" | KUn => "reference_expression"
  | KMethod _ _ _ _ | KCall _ _ _ => "call_expression"
  | KClosure _ => "closure_expression" | KBlock => "block"
  | KLoop LFor _ => "for_expression" | KLoop LWhile _ => "while_expression" | KLoop LLoop _ => "loop_expression"
  | KIf => "if_expression" | KMatch => "match_expression" | KMacro _ => "macro_invocation"
  end.
Definition block_type : string := "block".
Definition for_value_type : string := "<value of for_expression>".

Definition own_frame (k : kind) : frame :=
  {| f_type := node_type k;
     f_pre := match k with KMod pre | KFn pre _ _ => rev pre | _ => [] end;
     f_async := match k with KFn _ a _ => a | _ => false end;
     f_callee := match k with KCall _ _ path => Some path | _ => None end;
     f_mname := match k with KMethod _ _ _ name => name | _ => "" end;
     f_after := [] |}.

Definition after_of (rest : list node) : list string := flat_map (idents false) rest.

(* parent chain of child i of a node of kind k whose own chain is anc *)
Definition push_m (q : rquirks) (anc : list frame) (k : kind) (i : nat) (rest : list node) : option (list frame) :=
  match k with
  | KMacro _ => if q_macro_opaque q then None else Some (own_frame k :: anc)
  | KBlock => Some ({| f_type := block_type; f_pre := []; f_async := false; f_callee := None; f_mname := ""; f_after := after_of rest |} :: anc)
  | _ =>
    let own := match k with
               | KLoop LFor _ => if (i <? 1) && negb (q_for_header_in_loop q) then fr for_value_type else own_frame k
               | _ => own_frame k
               end in
    if stmt_pos k i
    then Some ({| f_type := block_type; f_pre := []; f_async := false; f_callee := None; f_mname := ""; f_after := after_of rest |} :: own :: anc)
    else Some (own :: anc)
  end.

(* ------------------------------------------------------------------ rust_context.py *)
Definition attr_hit (needle : string) (semantic : string -> bool) (substring : bool) (text : string) : bool :=
  if substring then contains needle text else semantic text.

(* has_test_attribute / has_cfg_test_attribute: scan the preceding siblings while their type is in the run table,
   testing the siblings of the attribute type.  sib_type is the parser's node type (comments rendered by the
   harness are line comments).  The run table is the source's (_ATTRIBUTE_RUN_TYPES since def5e3f; before, the
   scan stopped at anything but an attribute); with the quirk off comments are passed over whatever the source says. *)
Definition sib_type (s : sib) : string := match s with SAttr _ => "attribute_item" | SComment => "line_comment" end.
Definition run_types (q : rquirks) (from_source : list string) : list string :=
  if q_attr_stop_at_comment q then from_source else "line_comment" :: "block_comment" :: from_source.

Fixpoint sib_walk (run : list string) (ty : string) (hit : string -> bool) (pre : list sib) : bool :=
  match pre with
  | [] => false
  | s :: r =>
    if smem (sib_type s) run then
      if String.eqb (sib_type s) ty && match s with SAttr t => hit t | SComment => false end then true
      else sib_walk run ty hit r
    else false
  end.

Definition is_test_context (q : rquirks) (f : frame) : bool :=
  if String.eqb (f_type f) ctx_fn_type
  then sib_walk (run_types q test_attr_run_types) test_attr_sibling_type
                (attr_hit test_attr_needle attr_marks_test_fn (q_test_attr_substring q)) (f_pre f)
  else if String.eqb (f_type f) ctx_mod_type
  then sib_walk (run_types q cfg_attr_run_types) cfg_attr_sibling_type
                (attr_hit cfg_attr_needle attr_is_cfg_test (q_cfg_test_literal q)) (f_pre f)
  else false.

(* is_inside_test: the node itself is a call_expression, so only its ancestors matter *)
Definition inside_test (q : rquirks) (anc : list frame) : bool := existsb (is_test_context q) anc.

(* ------------------------------------------------------------------ options *)
(* getattr(config, field) for a config built by from_dict from the section *)
Definition getcfg (tbl : list (string * (string * bool))) (o : options) (field : string) : bool :=
  match assoc field tbl with Some (key, d) => opt o key d | None => false end.

Definition pattern_off (keys : list (string * string)) (tbl : list (string * (string * bool))) (o : options) (pattern : string) : bool :=
  match assoc pattern keys with Some field => negb (getcfg tbl o field) | None => false end.

Definition atom_holds (tbl : list (string * (string * bool))) (o : options) (in_test : bool) (method : string) (poff : bool)
           (a : skip_atom) : bool :=
  match a with
  | SkInTest => in_test
  | SkCfg f => getcfg tbl o f
  | SkMethodIs m => String.eqb method m
  | SkPatternOff => poff
  end.
Definition skipped (rules : list (list skip_atom)) tbl o in_test method poff : bool :=
  existsb (forallb (atom_holds tbl o in_test method poff)) rules.

(* ------------------------------------------------------------------ unwrap-abuse *)
(* _get_method_name: the field_identifier of the first field_expression child *)
Definition method_name (k : kind) : string := match k with KMethod _ _ _ name => name | _ => "" end.

Definition report_row (q : rquirks) (sl ml : nat) : nat := if q_chain_start_line q then sl else ml.
Definition report_line (q : rquirks) (off sl ml : nat) : nat := report_row q sl ml + off.
(* get_line_context(code, row): the stripped source line; the message is f"<prefix>{context}" *)
Definition context_of (ls : srclines) (row : nat) : string := strip (line_at ls row).

Definition emit_unwrap (q : rquirks) (ls : srclines) (o : options) (anc : list frame) (k : kind) (cs : list node) : list rep :=
  match k with
  | KMethod sl sc ml name =>
    if String.eqb (node_type k) unwrap_call_type && smem name unwrap_methods then
      if skipped unwrap_skip_rules unwrap_cfg o (inside_test q anc) name false then []
      else [(if String.eqb name unwrap_builder_method then unwrap_rule_then else unwrap_rule_else,
             report_line q unwrap_line_offset sl ml, sc + unwrap_col_offset,
             ((if String.eqb name unwrap_builder_method then unwrap_msg_then else unwrap_msg_else) ++ context_of ls (report_row q sl ml))%string)]
    else []
  | _ => []
  end.

(* ------------------------------------------------------------------ clone-abuse *)
Definition inside_loop (anc : list frame) : bool := existsb (fun f => smem (f_type f) loop_node_types) anc.

(* _is_chained_clone: receiver (first child of the field_expression) is a call_expression named clone *)
Definition chained (cs : list node) : bool :=
  match cs with
  | N rk _ :: _ => String.eqb (node_type rk) clone_chain_receiver_type && String.eqb (method_name rk) clone_chain_method
  | [] => false
  end.

(* _find_parent_let_declaration: Some (frames above the let) *)
Fixpoint find_let (anc : list frame) : option (list frame) :=
  match anc with
  | [] => None
  | f :: r => if String.eqb (f_type f) let_node_type then Some r
              else if smem (f_type f) let_walk_stops then None else find_let r
  end.
(* _find_parent_block *)
Fixpoint find_block (anc : list frame) : option frame :=
  match anc with
  | [] => None
  | f :: r => if String.eqb (f_type f) let_block_type then Some f else find_block r
  end.
(* the identifiers after the enclosing let in its block, when both exist *)
Definition let_after (anc : list frame) : option (list string) :=
  match find_let anc with
  | None => None
  | Some above => match find_block above with None => None | Some b => Some (f_after b) end
  end.
Definition receiver_ident (cs : list node) : option string :=
  match cs with
  | N (KId x) _ :: _ => if String.eqb (node_type (KId x)) clone_receiver_ident_type then Some x else None
  | _ => None
  end.
Definition unnecessary (anc : list frame) (cs : list node) : bool :=
  match let_after anc, receiver_ident cs with
  | Some after, Some y => negb (smem y after)
  | _, _ => false
  end.

Definition clone_pred (anc : list frame) (cs : list node) (pred : string) : bool :=
  if String.eqb pred "_is_chained_clone" then chained cs
  else if String.eqb pred "_is_inside_loop" then inside_loop anc
  else if String.eqb pred "_is_unnecessary_clone" then unnecessary anc cs
  else false.

(* _classify_clone; with the quirk off only patterns whose switch is on compete *)
Fixpoint classify_clone (q : rquirks) (o : options) (anc : list frame) (cs : list node) (order : list (string * string)) : option string :=
  match order with
  | [] => None
  | (pred, pattern) :: r =>
    if clone_pred anc cs pred && (q_clone_first_pattern q || negb (pattern_off clone_pattern_keys clone_cfg o pattern))
    then Some pattern else classify_clone q o anc cs r
  end.

Definition rule_of (rules : list (string * string)) (default : string) (pattern : string) : string :=
  match assoc pattern rules with Some r => r | None => default end.

Definition emit_clone (q : rquirks) (ls : srclines) (o : options) (anc : list frame) (k : kind) (cs : list node) : list rep :=
  match k with
  | KMethod sl sc ml name =>
    if String.eqb (node_type k) clone_call_type && String.eqb name clone_method then
      match classify_clone q o anc cs clone_classify_order with
      | None => []
      | Some pattern =>
        if skipped clone_skip_rules clone_cfg o (inside_test q anc) name (pattern_off clone_pattern_keys clone_cfg o pattern) then []
        else [(rule_of clone_pattern_rules clone_default_rule pattern, report_line q clone_line_offset sl ml, sc + clone_col_offset,
               (rule_of clone_pattern_msgs clone_default_msg pattern ++ context_of ls (report_row q sl ml))%string)]
      end
    else []
  | _ => []
  end.

(* ------------------------------------------------------------------ blocking-async *)
Definition in_async_context (anc : list frame) : bool :=
  existsb (fun f => String.eqb (f_type f) async_fn_type && f_async f) anc.

(* _is_wrapper_call: an identifier child in the table, or a scoped_identifier child whose last segment is; the
   children of a method call are a field_expression and the arguments, so the code never takes it for a wrapper *)
Definition is_wrapper_call (q : rquirks) (f : frame) : bool :=
  String.eqb (f_type f) wrapper_call_type &&
  match f_callee f with
  | Some [x] => smem x async_wrapper_functions
  | Some path => smem (last path "") async_wrapper_functions
  | None => negb (q_wrapper_method_form q) && smem (f_mname f) async_wrapper_functions
  end.
Definition inside_wrapper (q : rquirks) (anc : list frame) : bool := existsb (is_wrapper_call q) anc.

(* the documentation's example flags TcpStream::connect(..): the corrected table has the bare-type pattern *)
Definition blocking_classes_of (q : rquirks) : list (string * list path_pat) :=
  if q_net_bare_type q then blocking_classes
  else map (fun c => if String.eqb (fst c) "net-in-async"
                     then (fst c, snd c ++ [{| pp_min := 2; pp_tests := [(0, PIn blocking_net_types)] |}]) else c)
           blocking_classes.

Definition path_text (path : list string) : string := String.concat "::" path.

Definition emit_blocking (q : rquirks) (ls : srclines) (o : options) (anc : list frame) (k : kind) (cs : list node) : list rep :=
  match k with
  | KCall sl sc path =>
    if String.eqb (node_type k) blocking_call_type && in_async_context anc then
      (* _extract_call_path: only a scoped_identifier child (two or more segments) yields a path *)
      if List.length path <? 2 then [] else
      match classify_path (blocking_classes_of q) path with
      | None => []
      | Some pattern =>
        if inside_wrapper q anc then []
        else if skipped blocking_skip_rules blocking_cfg o (inside_test q anc) "" (pattern_off blocking_pattern_keys blocking_cfg o pattern) then []
        else [(rule_of blocking_pattern_rules blocking_default_rule pattern, sl + blocking_line_offset, sc + blocking_col_offset,
               (rule_of blocking_pattern_msgs blocking_default_msg pattern
                ++ (if q_blocking_msg_line q then context_of ls sl else path_text path))%string)]
      end
    else []
  | _ => []
  end.

(* ------------------------------------------------------------------ the three commands *)
(* check(): nothing is analysed unless config.<enabled> (_should_analyze; language and content are the harness's: Rust files
   with content; ignore patterns are C05's) *)
Definition enabled_of (tbl : list (string * (string * bool))) (o : options) : bool := getcfg tbl o analyze_enabled_field.

Definition unwrap_scan (q : rquirks) (ls : srclines) (c : config) (file : list node) : list rep :=
  walk_file (push_m q) (emit_unwrap q ls (c_unwrap c)) [] file.
Definition clone_scan (q : rquirks) (ls : srclines) (c : config) (file : list node) : list rep :=
  walk_file (push_m q) (emit_clone q ls (c_clone c)) [] file.
Definition blocking_scan (q : rquirks) (ls : srclines) (c : config) (file : list node) : list rep :=
  walk_file (push_m q) (emit_blocking q ls (c_blocking c)) [] file.

Definition unwrap_report (q : rquirks) (ls : srclines) (c : config) (file : list node) : list rep :=
  if enabled_of unwrap_cfg (c_unwrap c) then unwrap_scan q ls c file else [].
Definition clone_report (q : rquirks) (ls : srclines) (c : config) (file : list node) : list rep :=
  if enabled_of clone_cfg (c_clone c) then clone_scan q ls c file else [].
Definition blocking_report (q : rquirks) (ls : srclines) (c : config) (file : list node) : list rep :=
  if enabled_of blocking_cfg (c_blocking c) then blocking_scan q ls c file else [].

Definition report (q : rquirks) (ls : srclines) (c : config) (file : list node) : list rep :=
  unwrap_report q ls c file ++ clone_report q ls c file ++ blocking_report q ls c file.
