(* Model/PlacementTypes.v — the small types the generated layer Gen/PlacementGen.v is expressed in
   (file-placement linter, C18).  Definitions only. *)
From Coq Require Import ZArith.
From TL Require Import Lib.Base Lib.GenTypes.

(* parts of the f-string messages of violation_factory.py / pattern_validator.py *)
Inductive fpart :=
| FLit (s : string)
| FRel          (* {rel_path}     *)
| FMatched      (* {matched_path} *)
| FReason       (* {reason}       *)
| FPattern      (* {pattern}      *)
| FErr.         (* {e}: text of re.error, not modelled *)

Definition cmp_Z (c : cmp) (a b : Z) : bool :=
  match c with
  | CLe => (a <=? b)%Z | CLt => (a <? b)%Z | CGe => (b <=? a)%Z | CGt => (b <? a)%Z
  | CEq => (a =? b)%Z | CNe => negb (a =? b)%Z
  end.

(* the shape of the prefix test in DirectoryMatcher._check_path_match:
   path_str.startswith(dir_path)  or  path_str.startswith(dir_path.rstrip(c) + sep) *)
Inductive prefix_form := PfBare | PfRstripSep (strip : ascii) (sep : string).

(* PathResolver.normalize_path_string: `str(path)` followed by string methods with constant arguments, in
   application order (the translator accepts exactly these methods and fails closed on anything else) *)
Inductive norm_op :=
| NReplace (a b : string)        (* .replace(a, b), a non-empty *)
| NLstrip (chars : string)       (* .lstrip(chars) *)
| NRstrip (chars : string)       (* .rstrip(chars) *)
| NStrip (chars : string)        (* .strip(chars)  *)
| NLower                         (* .lower(), ASCII letters *)
| NRemovePrefix (s : string).    (* .removeprefix(s) *)
