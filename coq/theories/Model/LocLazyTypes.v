(* Model/LocLazyTypes.v — the type the generated layer of the lazy-ignores scanner model (Gen/LocLazyGen.v) is expressed in.
   Definitions only. *)
From TL Require Import Lib.Base.

(* how a text scanner cuts the file content into lines:
   SpLF         : at LF only (`code.split("\n")`) - the lines of the file as the property counts them
   SpSplitlines : `code.splitlines()` - also at CR, CR LF, VT, FF, FS, GS, RS, NEL (U+0085), U+2028, U+2029 *)
Inductive splitter := SpLF | SpSplitlines.
