(* Model/RustSafetySpec.v — the specification of C17, written from the property statement and
   docs/{unwrap-abuse,clone-abuse,blocking-async}-linter.md.  It does not look at the Python code
   and does not import the generated layer: option names, defaults, rule ids, tables and the
   reported position are the documented ones.

   Context of a call (lexical, computed top-down):
     in_test   inside a `#[test]` function or a `#[cfg(test)]` module
     in_loop   inside the body of a for / while / loop (a `while` condition is evaluated on every
               iteration and counts; the iterator expression of `for` is evaluated once and does not)
     in_async  inside an `async fn`
     in_wrap   inside a spawn_blocking / block_in_place / asyncify call, written as a function or path call or as a
               method call (tokio's Handle::spawn_blocking / Runtime::spawn_blocking)
     later     the identifiers appearing in the statements that follow the current statement in the
               enclosing block (None outside any block)
     in_let    Some l inside the initializer of a `let` (not across a nested block), l = later of the let *)
From TL Require Import Lib.Base Model.RustSafetyTypes.

(* ------------------------------------------------------------------ attributes *)
(* Attribute semantics on a finite catalogue (text, (marks a test function, makes the item test-only
   configuration)).  `#[tokio::test]` expands to `#[test]`; `cfg(all(test, ..))` implies `test`;
   `cfg(not(test))`, `cfg(any(test, ..))`, a feature called "testing", a lint name or a doc string
   mentioning tests do not make the item test code. *)
Definition attr_catalogue : list (string * (bool * bool)) :=
  [ ("#[test]", (true, false));
    ("#[tokio::test]", (true, false));
    ("#[tokio::test(flavor = ""multi_thread"")]", (true, false));
    ("#[cfg(test)]", (false, true));
    ("#[cfg(all(test, feature = ""slow""))]", (false, true));
    ("#[cfg(not(test))]", (false, false));
    ("#[cfg(any(test, debug_assertions))]", (false, false));
    ("#[cfg(feature = ""testing"")]", (false, false));
    ("#[allow(clippy::tests_outside_test_module)]", (false, false));
    ("#[doc = ""helpers for cfg(test) builds""]", (false, false));
    ("#[inline]", (false, false));
    ("#[allow(dead_code)]", (false, false));
    ("#[should_panic]", (false, false));
    ("#[ignore]", (false, false));
    ("#[must_use]", (false, false)) ].

Definition attr_is_test_fn (text : string) : bool :=
  match assoc text attr_catalogue with Some (b, _) => b | None => false end.
Definition attr_is_cfg_test (text : string) : bool :=
  match assoc text attr_catalogue with Some (_, b) => b | None => false end.

(* an item carries every attribute written before it; comments in between do not matter *)
Definition has_attr (p : string -> bool) (pre : list sib) : bool :=
  existsb (fun s => match s with SAttr t => p t | SComment => false end) pre.
(* a function is test code when an attribute marks it as a test (#[test], #[tokio::test]) or compiles it only
   under cfg(test) (#[cfg(test)] fn helper()); a module when a cfg attribute implies `test` *)
Definition attr_marks_test_fn (text : string) : bool := attr_is_test_fn text || attr_is_cfg_test text.
Definition fn_is_test (pre : list sib) : bool := has_attr attr_marks_test_fn pre.
Definition mod_is_test (pre : list sib) : bool := has_attr attr_is_cfg_test pre.

(* ------------------------------------------------------------------ context *)
Record ctx := {
  in_test : bool; in_loop : bool; in_async : bool; in_wrap : bool;
  later : option (list string); in_let : option (list string) }.
Definition ctx0 : ctx :=
  {| in_test := false; in_loop := false; in_async := false; in_wrap := false; later := None; in_let := None |}.

Definition wrapper_names : list string := ["asyncify"; "spawn_blocking"; "block_in_place"].

Definition spec_push (c : ctx) (k : kind) (i : nat) (rest : list node) : option ctx :=
  Some {|
    in_test := in_test c || match k with KMod pre => mod_is_test pre | KFn pre _ _ => fn_is_test pre | _ => false end;
    in_loop := in_loop c || match k with KLoop LFor _ => 1 <=? i | KLoop _ _ => true | _ => false end;
    in_async := in_async c || match k with KFn _ a _ => a | _ => false end;
    in_wrap := in_wrap c || match k with
                            | KCall _ _ path => smem (last path "") wrapper_names     (* spawn_blocking(..), tokio::task::spawn_blocking(..) *)
                            | KMethod _ _ _ name => smem name wrapper_names          (* handle.spawn_blocking(..), rt.spawn_blocking(..) *)
                            | _ => false
                            end;
    later := if stmt_pos k i then Some (flat_map (idents false) rest) else later c;
    in_let := if stmt_pos k i then None else match k with KLet _ => later c | _ => in_let c end |}.

(* ------------------------------------------------------------------ unwrap-abuse *)
(* the quoted source line of a message: the text of the row, without surrounding whitespace *)
Definition quoted (ls : srclines) (row : nat) : string := strip (line_at ls row).

(* every .unwrap(), and every .expect() unless allow_expect, once, at the line of the method name
   (docs, Example 3) and the column where the call expression starts, quoting that line; not in test
   code while allow_in_tests *)
Definition spec_unwrap (ls : srclines) (o : options) (c : ctx) (k : kind) (cs : list node) : list rep :=
  match k with
  | KMethod sl sc ml name =>
    if in_test c && opt o "allow_in_tests" true then []
    else if String.eqb name "unwrap"
         then [("unwrap-abuse.unwrap-call", S ml, sc, (".unwrap() call may panic at runtime: " ++ quoted ls ml)%string)]
    else if String.eqb name "expect" && negb (opt o "allow_expect" true)
         then [("unwrap-abuse.expect-call", S ml, sc, (".expect() call may panic at runtime: " ++ quoted ls ml)%string)]
    else []
  | _ => []
  end.

(* ------------------------------------------------------------------ clone-abuse *)
Definition is_clone_call (n : node) : bool :=
  match n with N (KMethod _ _ _ name) _ => String.eqb name "clone" | _ => false end.

(* a .clone() call is reported once, under the first of the documented patterns (chain, loop,
   unnecessary) that applies and whose detect_* option is on *)
Definition spec_clone (ls : srclines) (o : options) (c : ctx) (k : kind) (cs : list node) : list rep :=
  match k with
  | KMethod sl sc ml name =>
    if String.eqb name "clone" then
      if in_test c && opt o "allow_in_tests" true then [] else
      let chain := match cs with r :: _ => is_clone_call r | [] => false end in
      let unnecessary := match in_let c, cs with
                         | Some l, N (KId y) _ :: _ => negb (smem y l)
                         | _, _ => false
                         end in
      if chain && opt o "detect_clone_chain" true
      then [("clone-abuse.clone-chain", S ml, sc, ("Chained .clone().clone() is redundant: " ++ quoted ls ml)%string)]
      else if in_loop c && opt o "detect_clone_in_loop" true
      then [("clone-abuse.clone-in-loop", S ml, sc,
             (".clone() called inside a loop body may cause performance issues: " ++ quoted ls ml)%string)]
      else if unnecessary && opt o "detect_unnecessary_clone" true
      then [("clone-abuse.unnecessary-clone", S ml, sc,
             (".clone() may be unnecessary when the original is not used afterward: " ++ quoted ls ml)%string)]
      else []
    else []
  | _ => []
  end.

(* ------------------------------------------------------------------ blocking-async *)
Definition fs_functions : list string :=
  ["read_to_string"; "read"; "write"; "create_dir"; "create_dir_all"; "remove_file"; "remove_dir"; "remove_dir_all";
   "rename"; "copy"; "metadata"; "read_dir"; "canonicalize"; "read_link"].
Definition net_types : list string := ["TcpStream"; "TcpListener"; "UdpSocket"].

Definition pat (min : nat) (tests : list (nat * ptest)) : path_pat := {| pp_min := min; pp_tests := tests |}.

(* documented call paths: std::fs::F / fs::F; std::thread::sleep / thread::sleep;
   std::net::T.. / net::T.. / T::.. (the documentation's own example is TcpStream::connect) *)
Definition spec_blocking_classes : list (string * list path_pat) :=
  [ ("fs-in-async", [pat 3 [(0, PEq "std"); (1, PEq "fs"); (2, PIn fs_functions)]; pat 2 [(0, PEq "fs"); (1, PIn fs_functions)]]);
    ("sleep-in-async", [pat 3 [(0, PEq "std"); (1, PEq "thread"); (2, PEq "sleep")]; pat 2 [(0, PEq "thread"); (1, PEq "sleep")]]);
    ("net-in-async", [pat 3 [(0, PEq "std"); (1, PEq "net"); (2, PIn net_types)]; pat 2 [(0, PEq "net"); (1, PIn net_types)];
                      pat 2 [(0, PIn net_types)]]) ].

Definition blocking_rule (class : string) : string := ("blocking-async." ++ class)%string.
Definition blocking_switch (class : string) : string :=
  if String.eqb class "fs-in-async" then "detect_fs_in_async"
  else if String.eqb class "sleep-in-async" then "detect_sleep_in_async" else "detect_net_in_async".

(* "Blocking std::fs operation inside async function: fs::read_to_string" (docs, every example) *)
Definition blocking_message (class : string) (path : list string) : string :=
  ((if String.eqb class "fs-in-async" then "Blocking std::fs operation inside async function: "
    else if String.eqb class "sleep-in-async" then "Blocking std::thread::sleep inside async function: "
    else "Blocking std::net operation inside async function: ") ++ String.concat "::" path)%string.

Definition spec_blocking (ls : srclines) (o : options) (c : ctx) (k : kind) (cs : list node) : list rep :=
  match k with
  | KCall sl sc path =>
    if in_async c && negb (in_wrap c) && negb (in_test c && opt o "allow_in_tests" true) then
      match classify_path spec_blocking_classes path with
      | Some class => if opt o (blocking_switch class) true then [(blocking_rule class, S sl, sc, blocking_message class path)] else []
      | None => []
      end
    else []
  | _ => []
  end.

(* ------------------------------------------------------------------ the three commands *)
Definition spec_unwrap_report (ls : srclines) (c : config) (file : list node) : list rep :=
  walk_file spec_push (spec_unwrap ls (c_unwrap c)) ctx0 file.
Definition spec_clone_report (ls : srclines) (c : config) (file : list node) : list rep :=
  walk_file spec_push (spec_clone ls (c_clone c)) ctx0 file.
Definition spec_blocking_report (ls : srclines) (c : config) (file : list node) : list rep :=
  walk_file spec_push (spec_blocking ls (c_blocking c)) ctx0 file.

Definition spec_report (ls : srclines) (c : config) (file : list node) : list rep :=
  spec_unwrap_report ls c file ++ spec_clone_report ls c file ++ spec_blocking_report ls c file.

(* ------------------------------------------------------------------ domain of the generated inputs *)
(* where the finite attribute catalogue is meaningful: attribute texts are catalogued, and attributes that mark a
   test function (#[test] ...) sit on functions only *)
Definition sib_ok (on_fn : bool) (s : sib) : bool :=
  match s with
  | SComment => true
  | SAttr t => match assoc t attr_catalogue with
               | Some (tf, ct) => on_fn || negb tf
               | None => false
               end
  end.
Fixpoint node_domain (n : node) : bool :=
  match n with
  | N k cs =>
    match k with
    | KMod pre => forallb (sib_ok false) pre
    | KFn pre _ _ => forallb (sib_ok true) pre
    | _ => true
    end && forallb node_domain cs
  end.
Definition file_domain (file : list node) : bool := forallb node_domain file.
