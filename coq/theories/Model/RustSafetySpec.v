(* Model/RustSafetySpec.v — the specification of C17, written from the property statement and
   docs/{unwrap-abuse,clone-abuse,blocking-async}-linter.md.  It does not look at the Python code
   and does not import the generated layer: option names, defaults, rule ids, tables and the
   reported position are the documented ones.

   Context of a call (lexical, computed top-down):
     in_test   inside a `#[test]` function or a `#[cfg(test)]` module
     in_loop   inside the body of a for / while / loop (a `while` condition is evaluated on every
               iteration and counts; the iterator expression of `for` is evaluated once and does not)
     in_async  inside an `async fn`
     in_wrap   inside a spawn_blocking / block_in_place / asyncify call, written as a function or path call or as a
               method call (tokio's Handle::spawn_blocking / Runtime::spawn_blocking)
     later     the identifiers appearing in the statements that follow the current statement in the
               enclosing block (None outside any block)
     in_let    Some l inside the initializer of a `let` (not across a nested block), l = later of the let *)
From TL Require Import Lib.Base Model.RustSafetyTypes.

(* ------------------------------------------------------------------ attributes *)
(* Attribute semantics, computed from the attribute text (no catalogue): the text is tokenised (identifiers, parentheses,
   commas, string literals with escapes, other punctuation) and read as `#[` path [ `(` .. `)` | `=` literal ] `]`.
   - an attribute marks a test function when the last segment of its path is `test`: #[test], #[tokio::test],
     #[async_std::test], #[tokio::test(flavor = "multi_thread")]  (they expand to #[test]);
   - an attribute makes its item test-only configuration when it is #[cfg(P)] and P can only hold in a test build:
     P is evaluated in Kleene's three-valued logic with every other option unknown, once with `test` false (v0) and
     once with `test` true (v1); the item is test-only when v0 is definitely false and v1 is not definitely false.
     So cfg(test), cfg(all(test, feature = "slow")), cfg(any(test)), cfg(not(not(test))) are test-only;
     cfg(not(test)), cfg(any(test, debug_assertions)), cfg(feature = "testing"), cfg(all(test, not(test))), cfg(any()),
     cfg_attr(test, ..), a lint name or a doc string mentioning tests are not. *)
(* Kleene's three-valued logic: Some b = definitely b, None = unknown *)
Definition k3 := option bool.
Definition k3_all (l : list k3) : k3 :=
  if existsb (fun v => match v with Some false => true | _ => false end) l then Some false
  else if forallb (fun v => match v with Some true => true | _ => false end) l then Some true else None.
Definition k3_any (l : list k3) : k3 :=
  if existsb (fun v => match v with Some true => true | _ => false end) l then Some true
  else if forallb (fun v => match v with Some false => true | _ => false end) l then Some false else None.
Definition k3_not (v : k3) : k3 := option_map negb v.

(* a cfg predicate at the head of the token list: ((value with test false, value with test true), remaining tokens) *)
Definition cfg_combine (op : string) (vs : list (k3 * k3)) : k3 * k3 :=
  if String.eqb op "all" then (k3_all (map fst vs), k3_all (map snd vs))
  else if String.eqb op "any" then (k3_any (map fst vs), k3_any (map snd vs))
  else match vs with [(a, b)] => (k3_not a, k3_not b) | _ => (None, None) end.
Fixpoint cfg_pred (fuel : nat) (ts : list atok) : option ((k3 * k3) * list atok) :=
  match fuel with
  | 0 => None
  | S f =>
    match ts with
    | AId op :: ALP :: r =>
      if smem op ["all"; "any"; "not"] then
        match cfg_list f r with
        | Some (vs, r') => if String.eqb op "not" && negb (List.length vs =? 1) then None else Some (cfg_combine op vs, r')
        | None => None
        end
      else None
    | AId x :: AOther e :: AStr :: r => if Ascii.eqb e "="%char then Some ((None, None), r) else None
    | AId x :: r => Some (if String.eqb x "test" then (Some false, Some true) else (None, None), r)
    | _ => None
    end
  end
with cfg_list (fuel : nat) (ts : list atok) : option (list (k3 * k3) * list atok) :=
  match fuel with
  | 0 => None
  | S f =>
    match ts with
    | ARP :: r => Some ([], r)
    | _ => match cfg_pred f ts with
           | Some (v, AComma :: r) => match cfg_list f r with Some (vs, r') => Some (v :: vs, r') | None => None end
           | Some (v, ARP :: r) => Some ([v], r)
           | _ => None
           end
    end
  end.
Definition test_only (v : k3 * k3) : bool :=
  match v with (Some false, Some false) => false | (Some false, _) => true | _ => false end.

(* a::b::c at the head of the token list: (last segment, remaining tokens) *)
Fixpoint attr_path (ts : list atok) : option (string * list atok) :=
  match ts with
  | AId x :: r =>
    match r with
    | AOther c1 :: AOther c2 :: r2 =>
      if Ascii.eqb c1 ":"%char && Ascii.eqb c2 ":"%char then attr_path r2 else Some (x, r)
    | _ => Some (x, r)
    end
  | _ => None
  end.

(* `#[` meta `]`: the tokens of meta *)
Definition attr_meta (text : string) : option (list atok) :=
  match attr_lex text 0 "" with
  | AOther h :: AOther b :: r =>
    if Ascii.eqb h "#"%char && Ascii.eqb b "["%char then
      match rev r with
      | AOther e :: m => if Ascii.eqb e "]"%char then Some (rev m) else None
      | _ => None
      end
    else None
  | _ => None
  end.

Definition cfg_of (r : list atok) : option (k3 * k3) :=
  match cfg_pred (2 * List.length r + 2) r with
  | Some (v, [ARP]) => Some v
  | _ => None
  end.

Definition attr_is_test_fn (text : string) : bool :=
  match attr_meta text with
  | Some m => match attr_path m with
              | Some (name, rest) => String.eqb name "test" && match rest with [] => true | ALP :: _ => true | _ => false end
              | None => false
              end
  | None => false
  end.

Definition attr_is_cfg_test (text : string) : bool :=
  match attr_meta text with
  | Some (AId c :: ALP :: r) =>
    String.eqb c "cfg" && match cfg_of r with Some v => test_only v | None => false end
  | _ => false
  end.

(* well-formed: #[path], #[path(...)], #[path = "lit"], and a cfg attribute holds exactly one predicate *)
Definition attr_wf (text : string) : bool :=
  match attr_meta text with
  | Some m =>
    match attr_path m with
    | Some _ =>
      match m with
      | AId c :: ALP :: r => if String.eqb c "cfg" then match cfg_of r with Some _ => true | None => false end else true
      | _ => true
      end
    | None => false
    end
  | None => false
  end.

(* the documented vocabulary and look-alikes with the verdicts (marks a test function, test-only configuration) the
   semantics above gives them (Proofs/RustSafetyAttr.v::attr_catalogue_agrees) *)
Definition attr_catalogue : list (string * (bool * bool)) :=
  [ ("#[test]", (true, false));
    ("#[tokio::test]", (true, false));
    ("#[tokio::test(flavor = ""multi_thread"")]", (true, false));
    ("#[async_std::test]", (true, false));
    ("#[cfg(test)]", (false, true));
    ("#[cfg(all(test, feature = ""slow""))]", (false, true));
    ("#[cfg(any(test))]", (false, true));
    ("#[cfg(not(not(test)))]", (false, true));
    ("#[cfg( test )]", (false, true));
    ("#[cfg(all(unix, any(test, all(test, windows))))]", (false, true));
    ("#[cfg(not(test))]", (false, false));
    ("#[cfg(any(test, debug_assertions))]", (false, false));
    ("#[cfg(all(test, not(test)))]", (false, false));
    ("#[cfg(any())]", (false, false));
    ("#[cfg(feature = ""testing"")]", (false, false));
    ("#[cfg_attr(test, inline)]", (false, false));
    ("#[test_case(1)]", (false, false));
    ("#[allow(clippy::tests_outside_test_module)]", (false, false));
    ("#[doc = ""helpers for cfg(test) builds""]", (false, false));
    ("#[doc = ""a \"" test""]", (false, false));
    ("#[inline]", (false, false));
    ("#[allow(dead_code)]", (false, false));
    ("#[should_panic]", (false, false));
    ("#[ignore]", (false, false));
    ("#[must_use]", (false, false)) ].

(* an item carries every attribute written before it; comments in between do not matter *)
Definition has_attr (p : string -> bool) (pre : list sib) : bool :=
  existsb (fun s => match s with SAttr t => p t | SComment => false end) pre.
(* a function is test code when an attribute marks it as a test (#[test], #[tokio::test]) or compiles it only
   under cfg(test) (#[cfg(test)] fn helper()); a module when a cfg attribute implies `test` *)
Definition attr_marks_test_fn (text : string) : bool := attr_is_test_fn text || attr_is_cfg_test text.
Definition fn_is_test (pre : list sib) : bool := has_attr attr_marks_test_fn pre.
Definition mod_is_test (pre : list sib) : bool := has_attr attr_is_cfg_test pre.

(* ------------------------------------------------------------------ context *)
Record ctx := {
  in_test : bool; in_loop : bool; in_async : bool; in_wrap : bool;
  later : option (list string); in_let : option (list string) }.
Definition ctx0 : ctx :=
  {| in_test := false; in_loop := false; in_async := false; in_wrap := false; later := None; in_let := None |}.

Definition wrapper_names : list string := ["asyncify"; "spawn_blocking"; "block_in_place"].

Definition spec_push (c : ctx) (k : kind) (i : nat) (rest : list node) : option ctx :=
  Some {|
    in_test := in_test c || match k with KMod pre => mod_is_test pre | KFn pre _ _ => fn_is_test pre | _ => false end;
    in_loop := in_loop c || match k with KLoop LFor _ => 1 <=? i | KLoop _ _ => true | _ => false end;
    in_async := in_async c || match k with KFn _ a _ => a | _ => false end;
    in_wrap := in_wrap c || match k with
                            | KCall _ _ path => smem (last path "") wrapper_names     (* spawn_blocking(..), tokio::task::spawn_blocking(..) *)
                            | KMethod _ _ _ name => smem name wrapper_names          (* handle.spawn_blocking(..), rt.spawn_blocking(..) *)
                            | _ => false
                            end;
    later := if stmt_pos k i then Some (flat_map (idents false) rest) else later c;
    in_let := if stmt_pos k i then None else match k with KLet _ => later c | _ => in_let c end |}.

(* ------------------------------------------------------------------ unwrap-abuse *)
(* the quoted source line of a message: the text of the row, without surrounding whitespace *)
Definition quoted (ls : srclines) (row : nat) : string := strip (line_at ls row).

(* every .unwrap(), and every .expect() unless allow_expect, once, at the line of the method name
   (docs, Example 3) and the column where the call expression starts, quoting that line; not in test
   code while allow_in_tests *)
Definition spec_unwrap (ls : srclines) (o : options) (c : ctx) (k : kind) (cs : list node) : list rep :=
  match k with
  | KMethod sl sc ml name =>
    if in_test c && opt o "allow_in_tests" true then []
    else if String.eqb name "unwrap"
         then [("unwrap-abuse.unwrap-call", S ml, sc, (".unwrap() call may panic at runtime: " ++ quoted ls ml)%string)]
    else if String.eqb name "expect" && negb (opt o "allow_expect" true)
         then [("unwrap-abuse.expect-call", S ml, sc, (".expect() call may panic at runtime: " ++ quoted ls ml)%string)]
    else []
  | _ => []
  end.

(* ------------------------------------------------------------------ clone-abuse *)
Definition is_clone_call (n : node) : bool :=
  match n with N (KMethod _ _ _ name) _ => String.eqb name "clone" | _ => false end.

(* a .clone() call is reported once, under the first of the documented patterns (chain, loop,
   unnecessary) that applies and whose detect_* option is on *)
Definition spec_clone (ls : srclines) (o : options) (c : ctx) (k : kind) (cs : list node) : list rep :=
  match k with
  | KMethod sl sc ml name =>
    if String.eqb name "clone" then
      if in_test c && opt o "allow_in_tests" true then [] else
      let chain := match cs with r :: _ => is_clone_call r | [] => false end in
      let unnecessary := match in_let c, cs with
                         | Some l, N (KId y) _ :: _ => negb (smem y l)
                         | _, _ => false
                         end in
      if chain && opt o "detect_clone_chain" true
      then [("clone-abuse.clone-chain", S ml, sc, ("Chained .clone().clone() is redundant: " ++ quoted ls ml)%string)]
      else if in_loop c && opt o "detect_clone_in_loop" true
      then [("clone-abuse.clone-in-loop", S ml, sc,
             (".clone() called inside a loop body may cause performance issues: " ++ quoted ls ml)%string)]
      else if unnecessary && opt o "detect_unnecessary_clone" true
      then [("clone-abuse.unnecessary-clone", S ml, sc,
             (".clone() may be unnecessary when the original is not used afterward: " ++ quoted ls ml)%string)]
      else []
    else []
  | _ => []
  end.

(* ------------------------------------------------------------------ blocking-async *)
Definition fs_functions : list string :=
  ["read_to_string"; "read"; "write"; "create_dir"; "create_dir_all"; "remove_file"; "remove_dir"; "remove_dir_all";
   "rename"; "copy"; "metadata"; "read_dir"; "canonicalize"; "read_link"].
Definition net_types : list string := ["TcpStream"; "TcpListener"; "UdpSocket"].

Definition pat (min : nat) (tests : list (nat * ptest)) : path_pat := {| pp_min := min; pp_tests := tests |}.

(* documented call paths: std::fs::F / fs::F; std::thread::sleep / thread::sleep;
   std::net::T.. / net::T.. / T::.. (the documentation's own example is TcpStream::connect) *)
Definition spec_blocking_classes : list (string * list path_pat) :=
  [ ("fs-in-async", [pat 3 [(0, PEq "std"); (1, PEq "fs"); (2, PIn fs_functions)]; pat 2 [(0, PEq "fs"); (1, PIn fs_functions)]]);
    ("sleep-in-async", [pat 3 [(0, PEq "std"); (1, PEq "thread"); (2, PEq "sleep")]; pat 2 [(0, PEq "thread"); (1, PEq "sleep")]]);
    ("net-in-async", [pat 3 [(0, PEq "std"); (1, PEq "net"); (2, PIn net_types)]; pat 2 [(0, PEq "net"); (1, PIn net_types)];
                      pat 2 [(0, PIn net_types)]]) ].

Definition blocking_rule (class : string) : string := ("blocking-async." ++ class)%string.
Definition blocking_switch (class : string) : string :=
  if String.eqb class "fs-in-async" then "detect_fs_in_async"
  else if String.eqb class "sleep-in-async" then "detect_sleep_in_async" else "detect_net_in_async".

(* "Blocking std::fs operation inside async function: fs::read_to_string" (docs, every example) *)
Definition blocking_message (class : string) (path : list string) : string :=
  ((if String.eqb class "fs-in-async" then "Blocking std::fs operation inside async function: "
    else if String.eqb class "sleep-in-async" then "Blocking std::thread::sleep inside async function: "
    else "Blocking std::net operation inside async function: ") ++ String.concat "::" path)%string.

Definition spec_blocking (ls : srclines) (o : options) (c : ctx) (k : kind) (cs : list node) : list rep :=
  match k with
  | KCall sl sc path =>
    if in_async c && negb (in_wrap c) && negb (in_test c && opt o "allow_in_tests" true) then
      match classify_path spec_blocking_classes path with
      | Some class => if opt o (blocking_switch class) true then [(blocking_rule class, S sl, sc, blocking_message class path)] else []
      | None => []
      end
    else []
  | _ => []
  end.

(* ------------------------------------------------------------------ the three commands *)
(* each linter has the documented `enabled` option (default true): switched off it reports nothing *)
Definition spec_unwrap_scan (ls : srclines) (c : config) (file : list node) : list rep :=
  walk_file spec_push (spec_unwrap ls (c_unwrap c)) ctx0 file.
Definition spec_clone_scan (ls : srclines) (c : config) (file : list node) : list rep :=
  walk_file spec_push (spec_clone ls (c_clone c)) ctx0 file.
Definition spec_blocking_scan (ls : srclines) (c : config) (file : list node) : list rep :=
  walk_file spec_push (spec_blocking ls (c_blocking c)) ctx0 file.

Definition spec_unwrap_report (ls : srclines) (c : config) (file : list node) : list rep :=
  if opt (c_unwrap c) "enabled" true then spec_unwrap_scan ls c file else [].
Definition spec_clone_report (ls : srclines) (c : config) (file : list node) : list rep :=
  if opt (c_clone c) "enabled" true then spec_clone_scan ls c file else [].
Definition spec_blocking_report (ls : srclines) (c : config) (file : list node) : list rep :=
  if opt (c_blocking c) "enabled" true then spec_blocking_scan ls c file else [].

Definition spec_report (ls : srclines) (c : config) (file : list node) : list rep :=
  spec_unwrap_report ls c file ++ spec_clone_report ls c file ++ spec_blocking_report ls c file.

(* ------------------------------------------------------------------ domain of the generated inputs *)
(* attribute texts are well-formed (attr_wf), and attributes that mark a test function (#[test] ...) sit on
   functions only *)
Definition sib_ok (on_fn : bool) (s : sib) : bool :=
  match s with
  | SComment => true
  | SAttr t => attr_wf t && (on_fn || negb (attr_is_test_fn t))
  end.
Fixpoint node_domain (n : node) : bool :=
  match n with
  | N k cs =>
    match k with
    | KMod pre => forallb (sib_ok false) pre
    | KFn pre _ _ => forallb (sib_ok true) pre
    | _ => true
    end && forallb node_domain cs
  end.
Definition file_domain (file : list node) : bool := forallb node_domain file.
