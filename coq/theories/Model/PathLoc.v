(* Model/PathLoc.v — executable, quirk-parametric model of every path-dependent decision between the CLI
   target arguments and the list of reported violations (property C09).  NO proofs here.

   A path is a list of components plus an absolute flag, exactly as `pathlib.Path(p)` keeps it (no resolve).
   What the analysers find in a file's TEXT is an input (`f_raw`, an oracle validated by the correspondence
   check); the model decides which of those findings survive the path filters:
     1. Orchestrator.lint_file : _is_hardcoded_excluded over ALL parts of the path as given;
     2. IgnoreDirectiveParser.is_ignored : relative_to(project_root), falling back to the path as given;
     3. the linter's own ignore list (substring / Path.match / fnmatch on the path as given; file-placement
        directory rules on the cwd-relative spelling);
     4. test-file exemptions (substring tests on str(path), name tests);
     5. rule objects built with get_ignore_parser() and no root: an ignore parser rooted at the WORKING DIRECTORY.
   Flags: true = what the code does, false = what the property demands (decide on the path inside the project). *)
From TL Require Import Lib.Base Lib.GenTypes Model.PathLocTypes Gen.PathLocGen.

(* ---------- strings ---------- *)
Fixpoint prefixb (m s : string) : bool :=
  match m with
  | EmptyString => true
  | String c m' => match s with EmptyString => false | String d s' => Ascii.eqb c d && prefixb m' s' end
  end.

Fixpoint substrb (m s : string) : bool :=
  prefixb m s || match s with EmptyString => false | String _ s' => substrb m s' end.

Fixpoint suffixb (m s : string) : bool :=
  String.eqb m s || match s with EmptyString => false | String _ s' => suffixb m s' end.

Definition any_sub (ms : list string) (s : string) : bool := existsb (fun m => substrb m s) ms.

Definition slash : ascii := "/"%char.

(* fnmatch.fnmatch restricted to literals, `*` and `?` (no bracket classes: domain predicate pat_ok).
   Simulation of the pattern's position automaton: a state is a suffix of the pattern still to be matched; time O(|p|^2 * |s|)
   however many stars the pattern has (the default lists of the source contain patterns such as **/*.stories.tsx). *)
Fixpoint glob_close (q : string) : list (nat * string) :=      (* a leading star may also match nothing; states carry their length *)
  (String.length q, q) :: match q with
                          | String c q' => if Ascii.eqb c "*"%char then glob_close q' else []
                          | EmptyString => []
                          end.

Definition glob_step (c : ascii) (st : nat * string) : list (nat * string) :=
  match snd st with
  | EmptyString => []
  | String d q' =>
      if Ascii.eqb d "*"%char then glob_close (snd st)
      else if Ascii.eqb d "?"%char then glob_close q'
      else if Ascii.eqb c d then glob_close q' else []
  end.

(* all states are suffixes of one pattern: the remaining length identifies a state *)
Fixpoint dedupe (l : list (nat * string)) : list (nat * string) :=
  match l with
  | [] => []
  | x :: xs => if existsb (fun y => Nat.eqb (fst x) (fst y)) xs then dedupe xs else x :: dedupe xs
  end.

Fixpoint glob_run (states : list (nat * string)) (s : string) : bool :=
  match s with
  | EmptyString => existsb (fun st => Nat.eqb (fst st) 0) states
  | String c s' => match states with
                   | [] => false
                   | _ => glob_run (dedupe (flat_map (glob_step c) states)) s'
                   end
  end.

Definition glob (p s : string) : bool := glob_run (glob_close p) s.

Fixpoint has_char (c : ascii) (s : string) : bool :=
  match s with EmptyString => false | String d s' => Ascii.eqb c d || has_char c s' end.

Definition pat_ok (p : string) : bool :=
  negb (has_char "["%char p) && negb (String.eqb p "") && negb (prefixb "/" p).

(* ---------- paths ---------- *)
Record gpath := GP { g_abs : bool; g_parts : list string }.   (* g_parts: the components without the root "/" *)

Fixpoint rooted (l : list string) : string :=      (* "/a/b/c" *)
  match l with [] => EmptyString | c :: cs => String slash (c ++ rooted cs) end.

Definition drop1 (s : string) : string := match s with EmptyString => EmptyString | String _ t => t end.

Definition unrooted (l : list string) : string := drop1 (rooted l).     (* "a/b/c" *)

(* str(Path) *)
Definition pstr (g : gpath) : string := if g_abs g then rooted (g_parts g) else unrooted (g_parts g).

(* Path.parts *)
Definition all_parts (g : gpath) : list string := (if g_abs g then ["/"] else []) ++ g_parts g.

Definition name_of (l : list string) : string := last l "".

(* Path.suffix : from the last dot of the name, unless that dot is first or last *)
Fixpoint last_dot (s : string) : option string :=
  match s with
  | EmptyString => None
  | String c s' => match last_dot s' with
                   | Some x => Some x
                   | None => if Ascii.eqb c "."%char then Some s else None
                   end
  end.

Definition py_suffix (name : string) : string :=
  match name with
  | EmptyString => ""
  | String _ rest => match last_dot rest with
                     | Some x => if String.eqb x "." then "" else x
                     | None => ""
                     end
  end.

(* split a pattern at "/" the way Path(pattern) does: empty and "." components vanish *)
Fixpoint split_slash_aux (cur : string) (s : string) : list string :=   (* cur is reversed *)
  match s with
  | EmptyString => [cur]
  | String c s' => if Ascii.eqb c slash then cur :: split_slash_aux EmptyString s'
                   else split_slash_aux (String c cur) s'
  end.

Fixpoint srev_aux (acc s : string) : string :=
  match s with EmptyString => acc | String c s' => srev_aux (String c acc) s' end.
Definition srev (s : string) : string := srev_aux EmptyString s.

Definition pattern_parts (p : string) : list string :=
  filter (fun c => negb (String.eqb c "") && negb (String.eqb c "."))
         (map srev (split_slash_aux EmptyString p)).

(* pathlib.PurePath.match for a relative pattern: component-wise glob, anchored at the right end *)
Fixpoint match_rev (pats comps : list string) : bool :=
  match pats with
  | [] => true
  | p :: ps => match comps with [] => false | c :: cs => glob p c && match_rev ps cs end
  end.

Definition path_match (pat : string) (parts : list string) : bool :=
  match pattern_parts pat with
  | [] => false
  | pp => match_rev (rev pp) (rev parts)
  end.

(* cwd-relative / absolute spelling to absolute components (what Path.resolve() does lexically) *)
Fixpoint norm_aux (acc : list string) (l : list string) : list string :=   (* acc reversed *)
  match l with
  | [] => rev acc
  | c :: t => if String.eqb c ".." then norm_aux (tl acc) t
              else if String.eqb c "." then norm_aux acc t
              else norm_aux (c :: acc) t
  end.

Definition resolve (cwd : list string) (g : gpath) : list string :=
  norm_aux [] (if g_abs g then g_parts g else cwd ++ g_parts g).

Fixpoint strip_prefix (p l : list string) : option (list string) :=
  match p with
  | [] => Some l
  | x :: p' => match l with [] => None | y :: l' => if String.eqb x y then strip_prefix p' l' else None end
  end.

Fixpoint list_eqb (a b : list string) : bool :=
  match a, b with
  | [], [] => true
  | x :: a', y :: b' => String.eqb x y && list_eqb a' b'
  | _, _ => false
  end.

(* ---------- project-root detection (utils/project_root.py via pyprojroot) ---------- *)
(* a level = a directory on the chain from "/" (exclusive) down to the search start: its name and which
   marker names exist in it with the right kind (directory / regular file) *)
Record level := LV { lv_name : string; lv_has : list string }.

(* number of leading levels that make up the deepest directory containing marker m *)
Fixpoint deepest (m : string) (chain : list level) : option nat :=
  match chain with
  | [] => None
  | lv :: rest => match deepest m rest with
                  | Some n => Some (S n)
                  | None => if smem m (lv_has lv) then Some 1 else None
                  end
  end.

Fixpoint find_root_len (markers : list marker) (chain : list level) : nat :=
  match markers with
  | [] => List.length chain
  | (m, _) :: ms => match deepest m chain with Some n => n | None => find_root_len ms chain end
  end.

Definition find_root (chain : list level) : list string :=
  firstn (find_root_len root_markers chain) (map lv_name chain).

(* ---------- quirks ---------- *)
Record quirks := {
  q_excl_all_parts : bool;          (* built-in exclusion looks at every part of the path as given *)
  q_ignore_no_reroot : bool;        (* repo ignore patterns see the spelling as given when relative_to(root) fails *)
  q_linter_ignore_full_path : bool; (* per-linter ignore lists see the path as given *)
  q_fp_relative_unchanged : bool;   (* file-placement: relative paths are matched against directory rules without re-rooting *)
  q_test_marker_full_path : bool;   (* test-file marker substrings searched in str(path as given) *)
  q_rule_parser_cwd : bool          (* rule-level ignore parser rooted at the working directory *)
}.
Definition ideal : quirks := Build_quirks false false false false false false.

(* does the built-in exclusion (as found in the source) look at the path as given?  When the source is fixed the generated
   constant changes and the faithful model follows it *)
Definition scope_given (s : pscope) : bool := match s with ScProjectRelParts => false | _ => true end.

(* ---------- the predicates ---------- *)
Definition excl_comp (c : string) : bool := smem c excluded_dirs || suffixb excluded_suffix_of_part c.

(* the parts the built-in exclusion loops over: all of them, or (source fix 27377de) the directory parts only *)
Definition dir_parts (parts : list string) : list string :=
  if hard_exclusion_skips_file_name then removelast parts else parts.

Definition hard_excluded (parts : list string) (name : string) : bool :=
  smem (py_suffix name) excluded_exts || existsb excl_comp (dir_parts parts).

Fixpoint rstrip_slash_rev (s : string) : string :=   (* on the reversed string *)
  match s with
  | String c s' => if Ascii.eqb c slash then rstrip_slash_rev s' else s
  | EmptyString => EmptyString
  end.
Definition rstrip_slash (s : string) : string := srev (rstrip_slash_rev (srev s)).
Definition ends_with_slash (s : string) : bool := match srev s with String c _ => Ascii.eqb c slash | EmptyString => false end.

(* pattern_utils.matches_pattern(check_path, pattern); parts = Path(check_path).parts  (source after fix 9c8f928):
   `**/x` also matches what x matches; a directory pattern `d/` matches a DIRECTORY component d or the glob d/* *)
Definition drop3 (s : string) : string := drop1 (drop1 (drop1 s)).

Fixpoint matches_pattern_f (fuel : nat) (s : string) (parts : list string) (pat : string) : bool :=
  (match fuel with
   | 0 => false
   | S n => prefixb "**/" pat && matches_pattern_f n s parts (drop3 pat)
   end)
  || (if ends_with_slash pat then
        let d := rstrip_slash pat in smem d (removelast parts) || glob (d ++ "/*") s
      else glob pat s).

Definition matches_pattern (s : string) (parts : list string) (pat : string) : bool :=
  matches_pattern_f (String.length pat) s parts pat.

Definition repo_ignored (pats : list string) (s : string) (parts : list string) : bool :=
  existsb (matches_pattern s parts) pats.

(* DirectoryMatcher._check_path_match: startswith(dir) or (source fix a23cd20) startswith(dir.rstrip("/") + "/") *)
Definition fp_dir_match (dir path : string) : bool :=
  if fp_dir_rule_needs_separator then prefixb (rstrip_slash dir ++ "/") path else prefixb dir path.

Definition linter_ignored (k : ikind) (pats : list string) (sub_s glob_s : string) (parts : list string) : bool :=
  match k with
  | INone => false
  | ISubstr => existsb (fun p => substrb p sub_s) pats
  | IMatchOrSubstr => existsb (fun p => path_match p parts || substrb p sub_s) pats
  | IFnmatchOrSubstr => existsb (fun p => glob p glob_s || glob p sub_s || substrb p sub_s) pats
  | IFileHeader =>
      existsb (fun p => path_match p parts
                        || (prefixb "**/" p && suffixb "/**" p && smem (srev (drop3 (srev (drop3 p)))) parts)
                        || (prefixb "**/" p && (String.eqb (name_of parts) (drop3 p) || suffixb (drop3 p) sub_s))
                        || substrb p sub_s) pats
  | IFpDirPrefix => existsb (fun p => fp_dir_match p glob_s) pats
  end.

Definition test_exempt (t : tspec) (s : string) (name : string) : bool :=
  any_sub (t_str_contains t) s
  || existsb (fun m => prefixb m s) (t_str_starts t)
  || existsb (fun m => prefixb m name) (t_name_starts t)
  || any_sub (t_name_contains t) name
  || existsb (fun m => suffixb m name) (t_name_ends t)
  || existsb (fun ab => prefixb (fst ab) name && suffixb (snd ab) name) (t_name_starts_ends t).

Definition tspec_of (sg : cmdsig) (l : lang) : tspec :=
  match l with LPy => cs_test_py sg | LTs => cs_test_ts sg | LRs => cs_test_rs sg | LOther => t_none end.

(* ---------- one run ---------- *)
Record env := {
  e_root : list string;        (* absolute components of the detected project root *)
  e_cwd : list string;         (* absolute components of the working directory *)
  e_root_pats : list string;   (* repo-level ignore patterns found at the project root *)
  e_cwd_pats : list string     (* repo-level ignore patterns an ignore parser rooted at the cwd finds *)
}.

Record file := { f_given : gpath; f_lang : lang; f_raw : list nat }.

(* the path inside the project, computed the way a location-independent implementation would *)
Definition true_rel (e : env) (g : gpath) : list string :=
  match strip_prefix (e_root e) (resolve (e_cwd e) g) with Some r => r | None => g_parts g end.

(* (check string, its parts) for IgnoreDirectiveParser.is_ignored with parser root `root` *)
Definition parser_view (root : list string) (g : gpath) : string * list string :=
  if g_abs g then
    match strip_prefix root (g_parts g) with
    | Some r => (unrooted r, r)
    | None => (pstr g, all_parts g)
    end
  else (pstr g, all_parts g).

(* the same for the parser as found in the source: the current is_ignored re-roots only paths that are literally under the root
   (parser_view); under the shape of proposed_fixes/C09-ignore-reroot-relative.diff (Gen.repo_ignore_resolves_before_reroot) the path is
   resolved against the working directory first, so every spelling of a file under the root is seen by its path inside the root *)
Definition parser_view_at (cwd root : list string) (g : gpath) : string * list string :=
  if repo_ignore_resolves_before_reroot then
    match strip_prefix root (resolve cwd g) with
    | Some r => (unrooted r, r)
    | None => (pstr g, all_parts g)
    end
  else parser_view root g.

Definition orch_ignored (q : quirks) (e : env) (g : gpath) (rel : list string) : bool :=
  if q_ignore_no_reroot q then
    let v := parser_view_at (e_cwd e) (e_root e) g in repo_ignored (e_root_pats e) (fst v) (snd v)
  else repo_ignored (e_root_pats e) (unrooted rel) rel.

(* rule-level ignore parser.  In the current source a rule built with get_ignore_parser() and no root gets a parser rooted at the
   cwd (ignore_parser_default_root_is_cwd); under the shape of proposed_fixes/C09-rule-ignore-parser-root.diff it shares the
   orchestrator's parser and the generated constant turns the quirk off *)
Definition rule_ignored (q : quirks) (e : env) (g : gpath) (rel : list string) : bool :=
  if q_rule_parser_cwd q && ignore_parser_default_root_is_cwd then
    if list_eqb (e_cwd e) (e_root e) then
      let v := parser_view_at (e_cwd e) (e_root e) g in repo_ignored (e_root_pats e) (fst v) (snd v)
    else
      let v := parser_view_at (e_cwd e) (e_cwd e) g in repo_ignored (e_cwd_pats e) (fst v) (snd v)
  else orch_ignored q e g rel.

(* file-placement: PathResolver.get_relative_path *)
Definition fp_path (q : quirks) (e : env) (g : gpath) (rel : list string) : string :=
  if q_fp_relative_unchanged q && negb fp_relative_paths_rerooted then fst (parser_view (e_root e) g) else unrooted rel.

Definition ignore_pats (sg : cmdsig) (configured : option (list string)) : list string :=
  if cs_ignore_from_config sg then
    match configured with
    | Some l => if smem (cs_name sg) merged_default_commands then cs_default_ignore sg ++ l else l
    | None => cs_default_ignore sg
    end
  else cs_default_ignore sg.

Definition file_result (q : quirks) (e : env) (sg : cmdsig) (configured : option (list string)) (f : file) : list nat :=
  let g := f_given f in
  let rel := true_rel e g in
  let name := name_of (g_parts g) in
  let pats := ignore_pats sg configured in
  if hard_excluded (if q_excl_all_parts q && scope_given hard_exclusion_scope then all_parts g else rel) name then []
  else if orch_ignored q e g rel then []
  else
    match cs_ikind sg with
    | IFpDirPrefix =>
        if linter_ignored IFpDirPrefix pats "" (fp_path q e g rel) [] then f_raw f else []
    | k =>
        if (if q_linter_ignore_full_path q then linter_ignored k pats (pstr g) (pstr g) (g_parts g)
            else linter_ignored k pats (rooted rel) (unrooted rel) rel) then []
        else if test_exempt (tspec_of sg (f_lang f)) (if q_test_marker_full_path q then pstr g else rooted rel) name then []
        else if cs_cwd_parser sg && rule_ignored q e g rel then []
        else f_raw f
    end.

Definition run_result (q : quirks) (e : env) (sg : cmdsig) (configured : option (list string)) (files : list file) : list (list nat) :=
  map (file_result q e sg configured) files.

(* ---------- the specification: every decision is taken on the path inside the project ---------- *)
Record sfile := { s_rel : list string; s_lang : lang; s_raw : list nat }.

Definition spec_file (root_pats : list string) (sg : cmdsig) (configured : option (list string)) (f : sfile) : list nat :=
  let rel := s_rel f in
  let name := name_of rel in
  let pats := ignore_pats sg configured in
  if hard_excluded rel name then []
  else if repo_ignored root_pats (unrooted rel) rel then []
  else
    match cs_ikind sg with
    | IFpDirPrefix => if linter_ignored IFpDirPrefix pats "" (unrooted rel) [] then s_raw f else []
    | k =>
        if linter_ignored k pats (rooted rel) (unrooted rel) rel then []
        else if test_exempt (tspec_of sg (s_lang f)) (rooted rel) name then []
        else s_raw f
    end.

Definition spec_result (root_pats : list string) (sg : cmdsig) (configured : option (list string)) (files : list sfile) : list (list nat) :=
  map (spec_file root_pats sg configured) files.

(* ---------- cross-file rules: duplicate code (dry), repeated string validation (stringly-typed) ----------
   A file takes part when it passes the two orchestrator filters; a file of template group (= language here: the harness renders one
   text per language) is reported when at least two participating files share its text; the linter's own ignore list then filters
   the VIOLATIONS by substring of str(path) (ViolationGenerator._is_ignored).  The same holds for the --parallel evidence pass. *)
Definition lang_eqb (a b : lang) : bool :=
  match a, b with LPy, LPy | LTs, LTs | LRs, LRs | LOther, LOther => true | _, _ => false end.

Definition orch_pass (q : quirks) (e : env) (f : file) : bool :=
  let g := f_given f in
  let rel := true_rel e g in
  negb (hard_excluded (if q_excl_all_parts q && scope_given hard_exclusion_scope then all_parts g else rel) (name_of (g_parts g)))
  && negb (orch_ignored q e g rel).

(* the linter's own ignore list applied to a file (path as given when the quirk is on) *)
Definition xf_ignored (q : quirks) (e : env) (k : ikind) (pats : list string) (f : file) : bool :=
  let g := f_given f in
  let rel := true_rel e g in
  if q_linter_ignore_full_path q then linter_ignored k pats (pstr g) (pstr g) (g_parts g)
  else linter_ignored k pats (rooted rel) (unrooted rel) rel.

(* gate = true (stringly-typed): an ignored file is not even analysed, so it is nobody's partner;
   gate = false (dry): the list only filters the violations, an ignored file still counts as a partner *)
Definition participates (gate : bool) (q : quirks) (e : env) (k : ikind) (pats : list string) (f : file) : bool :=
  orch_pass q e f && negb (gate && xf_ignored q e k pats f).

Definition partners (gate : bool) (q : quirks) (e : env) (k : ikind) (pats : list string) (files : list file) (l : lang) : nat :=
  List.length (filter (fun f' => participates gate q e k pats f' && lang_eqb (f_lang f') l) files).

Definition xfile_result (gate : bool) (q : quirks) (e : env) (sg : cmdsig) (configured : option (list string)) (files : list file)
  : list (list nat) :=
  let k := cs_ikind sg in
  let pats := ignore_pats sg configured in
  map (fun f => if participates gate q e k pats f && (2 <=? partners gate q e k pats files (f_lang f))
                   && negb (xf_ignored q e k pats f)
                   && negb (cs_cwd_parser sg && rule_ignored q e (f_given f) (true_rel e (f_given f)))
                then f_raw f else []) files.

Definition s_ignored (k : ikind) (pats : list string) (f : sfile) : bool :=
  linter_ignored k pats (rooted (s_rel f)) (unrooted (s_rel f)) (s_rel f).

Definition s_participates (gate : bool) (root_pats : list string) (k : ikind) (pats : list string) (f : sfile) : bool :=
  negb (hard_excluded (s_rel f) (name_of (s_rel f))) && negb (repo_ignored root_pats (unrooted (s_rel f)) (s_rel f))
  && negb (gate && s_ignored k pats f).

Definition s_partners (gate : bool) (root_pats : list string) (k : ikind) (pats : list string) (files : list sfile) (l : lang) : nat :=
  List.length (filter (fun f' => s_participates gate root_pats k pats f' && lang_eqb (s_lang f') l) files).

Definition xfile_spec (gate : bool) (root_pats : list string) (sg : cmdsig) (configured : option (list string)) (files : list sfile)
  : list (list nat) :=
  let k := cs_ikind sg in
  let pats := ignore_pats sg configured in
  map (fun f => if s_participates gate root_pats k pats f && (2 <=? s_partners gate root_pats k pats files (s_lang f))
                   && negb (s_ignored k pats f)
                then s_raw f else []) files.

(* the same function with the per-file decisions computed once (what the judge evaluates; equal by xfile_result_fast_eq) *)
Definition xfile_result_fast (gate : bool) (q : quirks) (e : env) (sg : cmdsig) (configured : option (list string)) (files : list file)
  : list (list nat) :=
  let k := cs_ikind sg in
  let pats := ignore_pats sg configured in
  let pre := map (fun f => (f, (orch_pass q e f, xf_ignored q e k pats f))) files in
  let part := fun t : file * (bool * bool) => fst (snd t) && negb (gate && snd (snd t)) in
  let cnt := fun l => List.length (filter (fun t => part t && lang_eqb (f_lang (fst t)) l) pre) in
  map (fun t => if part t && (2 <=? cnt (f_lang (fst t))) && negb (snd (snd t))
                   && negb (cs_cwd_parser sg && rule_ignored q e (f_given (fst t)) (true_rel e (f_given (fst t))))
                then f_raw (fst t) else []) pre.

Definition dry_result := xfile_result false.
Definition dry_spec := xfile_spec false.

(* ---------- stores keyed by a path string: DRY inline-ignore ranges, DRY file contents kept for the directive filter ----------
   The rule stores what it found in a file under one spelling of the file's path (key scope read from the source) and, when the
   violations are filtered, looks it up under the path string of the violation (the path as it reached lint_file).  A suppression
   directive of the file is honoured exactly when the lookup key finds the stored entry. *)
Definition key_of (s : pscope) (cwd : list string) (g : gpath) : string :=
  match s with ScResolvedStr => rooted (resolve cwd g) | _ => pstr g end.

Definition store_hit (store look : pscope) (cwd : list string) (g : gpath) : bool :=
  String.eqb (key_of store cwd g) (key_of look cwd g).

Definition dry_directives_honoured (cwd : list string) (g : gpath) : bool :=
  store_hit dry_inline_store_key dry_inline_lookup_key cwd g && store_hit dry_content_store_key dry_content_lookup_key cwd g.

Definition find_sig (name : string) : option cmdsig := find (fun s => String.eqb (cs_name s) name) command_sigs.
