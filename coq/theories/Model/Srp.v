(* Model/Srp.v — executable model of the SRP linter (src/linters/srp).
   The abstract input is what the parsers yield (classes / structs / impl blocks with their node
   positions and direct members) plus the source lines; that shape is a parser oracle validated by
   the correspondence check.  Everything that is a literal of the source -- node type names, name
   prefixes, the `property` decorator, slice offsets, comment prefixes, the keyword test, the
   dictionary keys of analyze_class, the clauses / operators / message texts of evaluate_metrics,
   the message format, configuration keys and defaults, the language dispatch -- is read from
   Gen/SrpGen.v.  Quirk flags: true = what the code does, false = what the property demands.
   No proofs in this file. *)
From TL Require Import Lib.Base Lib.GenTypes Model.SrpTypes Gen.SrpGen Model.SrpSpec.

Record squirks := {
  q_py_hash_in_string : bool;        (* count_loc drops every stripped line starting with #, also inside multi-line strings *)
  q_ts_nonpublic_counted : bool;     (* private / protected / #private methods are counted *)
  q_ts_accessor_counted : bool;      (* get accessors are counted *)
  q_ts_block_comment_counted : bool; (* TS/JS count_loc only drops // lines: block comment lines count as code *)
  q_rs_name_collision : bool;        (* impl blocks matched to structs by bare name across modules *)
  q_rs_block_comment_counted : bool; (* _node_loc only drops // lines: block comment lines count as code *)
  q_py_setter_counted : bool;        (* @x.setter / @x.deleter functions are counted (only the plain name `property` is recognised) *)
  q_py_cached_property_counted : bool; (* @cached_property functions are counted *)
  q_ts_class_expr_skipped : bool;    (* TS/JS class expressions (tree-sitter node type `class`) are never looked at: find_all_classes only walks declarations *)
}.
(* Repaired in /repo (fix: commits 447c6e4, 24b8b61, c90fc92) and therefore no longer quirks: abstract classes skipped,
   impl target = trait name, generic impls lost, TS line count = raw span.  The model now reads the class node types,
   the impl-target rule and the line-count rule from the generated layer (ts_class_node_types, rs_target_mode,
   ts_loc_mode), so reverting a fix makes the model follow the source again and the theorems fail. *)
Definition ideal : squirks := Build_squirks false false false false false false false false false.
Definition all_on : squirks := Build_squirks true true true true true true true true true.

(* ------------------------------------------------------------------ configuration (config.py, linter_utils.py) *)
Record conf := { cf_mm : nat; cf_ml : nat; cf_enabled : bool; cf_check : bool; cf_keywords : list string }.

Definition section_of (c : config) : section := match lookup srp_config_section c with Some s => s | None => [] end.

Definition or_default {A : Type} (o : option A) (d : A) : A := match o with Some x => x | None => d end.

(* SRPConfig.from_dict(config, language) *)
Definition from_dict (s : section) (language : string) : conf :=
  let '(lk_mm, tk_mm, d_mm) := srp_fd_lang_mm in
  let '(lk_ml, tk_ml, d_ml) := srp_fd_lang_ml in
  let (v_mm, v_ml) :=
    match sec_sub language s with
    | Some ls => (or_default (lookup lk_mm ls) (or_default (sec_nat tk_mm s) d_mm),
                  or_default (lookup lk_ml ls) (or_default (sec_nat tk_ml s) d_ml))
    | None => (or_default (sec_nat (fst srp_fd_top_mm) s) (snd srp_fd_top_mm),
               or_default (sec_nat (fst srp_fd_top_ml) s) (snd srp_fd_top_ml))
    end in
  let var := fun name : string => if String.eqb name "max_methods" then v_mm else v_ml in
  {| cf_mm := var srp_fd_wire_mm; cf_ml := var srp_fd_wire_ml;
     cf_enabled := or_default (sec_bool (fst srp_fd_enabled) s) (snd srp_fd_enabled);
     cf_check := or_default (sec_bool (fst srp_fd_check_keywords) s) (snd srp_fd_check_keywords);
     cf_keywords := or_default (sec_strs (fst srp_fd_keywords) s) (snd srp_fd_keywords) |}.

(* ------------------------------------------------------------------ metrics dictionary, evaluate_metrics, message *)
Inductive mval := MN (n : nat) | MS (s : string) | MB (b : bool).

(* line0 / col: start of the node; hline0 / hcol: start of its keyword (header) *)
Definition metrics_of (d : list (string * mtag)) (name : string) (mc loc : nat) (kw : bool) (line0 col hline0 hcol : nat) : list (string * mval) :=
  map (fun e => (fst e, match snd e with
                        | TName => MS name | TMethodCount => MN mc | TLoc => MN loc | THasKeyword => MB kw
                        | TLine p => MN (line0 + p) | TColumn => MN col
                        | THLine p => MN (hline0 + p) | THColumn => MN hcol
                        end)) d.

Definition get_nat (env : list (string * mval)) (k : string) : option nat :=
  match lookup k env with Some (MN n) => Some n | _ => None end.
Definition truthy (v : mval) : bool :=
  match v with MN n => negb (n =? 0) | MS s => negb (String.eqb s "") | MB b => b end.
Definition show_mval (v : mval) : string :=
  match v with MN n => show_nat n | MS s => s | MB true => "True" | MB false => "False" end.

Definition conf_attr (c : conf) (attr : string) : option mval :=
  if String.eqb attr "max_methods" then Some (MN (cf_mm c))
  else if String.eqb attr "max_loc" then Some (MN (cf_ml c))
  else if String.eqb attr "check_keywords" then Some (MB (cf_check c))
  else if String.eqb attr "enabled" then Some (MB (cf_enabled c))
  else None.

Definition render_f (env : list (string * mval)) (c : conf) (parts : list fpart) : string :=
  sconcat (map (fun p => match p with
                         | FLit s => s
                         | FMetric k => match lookup k env with Some v => show_mval v | None => "<KeyError>" end
                         | FConfig a => match conf_attr c a with Some v => show_mval v | None => "<AttributeError>" end
                         end) parts).

Definition eval_clause (env : list (string * mval)) (c : conf) (cl : clause) : list string :=
  match cl with
  | CThreshold m op a text =>
    match get_nat env m, conf_attr c a with
    | Some v, Some (MN t) => if cmp_nat op v t then [render_f env c text] else []
    | _, _ => []
    end
  | CFlag a m text =>
    match conf_attr c a, lookup m env with
    | Some x, Some y => if truthy x && truthy y then [render_f env c text] else []
    | _, _ => []
    end
  end.

(* the statements of evaluate_metrics in source order; links: true = the clause is an `elif` of the clause before it, evaluated
   only when no earlier test of its if / elif chain held (a test holds iff its clause yields its issue text) *)
Definition is_nil {A : Type} (l : list A) : bool := match l with [] => true | _ => false end.
Fixpoint eval_chain (env : list (string * mval)) (c : conf) (fired : bool) (cls : list clause) (links : list bool) : list string :=
  match cls with
  | [] => []
  | cl :: r =>
    let chained := match links with b :: _ => b | [] => false end in
    let o := if chained && fired then [] else eval_clause env c cl in
    o ++ eval_chain env c ((chained && fired) || negb (is_nil o)) r (tl links)
  end.

Definition evaluate (env : list (string * mval)) (c : conf) : list string := eval_chain env c false srp_clauses srp_clause_links.

Definition render_message (env : list (string * mval)) (issues : list string) : string :=
  sconcat (map (fun p => match p with
                         | SLit s => s
                         | SMetric k => match lookup k env with Some v => show_mval v | None => "<KeyError>" end
                         | SJoin sep => join sep issues
                         end) srp_message).

(* _create_violation_if_needed + build_violation *)
Definition class_rep (d : list (string * mtag)) (name : string) (mc loc : nat) (kw : bool) (line0 col hline0 hcol : nat) (c : conf) : list rep :=
  let env := metrics_of d name mc loc kw line0 col hline0 hcol in
  match evaluate env c with
  | [] => []
  | issues =>
    match get_nat env (fst srp_position_keys), get_nat env (snd srp_position_keys) with
    | Some l, Some cl => [(l, cl, render_message env issues)]
    | _, _ => []
    end
  end.

Definition kw_test (mode : kwmode) (kw name : string) : bool :=
  match mode with KwIn => contains kw name | KwRev => contains name kw | KwEq => String.eqb kw name end.
Definition has_kw (mode : kwmode) (kws : list string) (name : string) : bool := existsb (fun kw => kw_test mode kw name) kws.

(* a stripped line is counted when it is non-empty and does not start with the comment prefix *)
Definition text_counts (pfx : string) (x : line) : bool :=
  negb (String.eqb (l_text x) "") && negb (starts_with pfx (l_text x)).

(* ------------------------------------------------------------------ Python (heuristics.py, python_analyzer.py) *)
Definition py_node (k : mkind) : string :=
  match k with MAsync => "AsyncFunctionDef" | MField => "Assign" | _ => "FunctionDef" end.
Definition py_decorators (k : mkind) : list string :=
  match k with
  | MStatic => ["staticmethod"] | MClassM => ["classmethod"] | MProperty => ["property"]
  | MCachedProp => ["cached_property"]
  | _ => []      (* @x.setter is an ast.Attribute, not an ast.Name *)
  end.

(* one exclusion test of _is_countable_method; true = "return False" *)
Definition py_test (m : member) (t : mtest) : bool :=
  match t with
  | TPyProperty id => existsb (String.eqb id) (py_decorators (m_kind m))
  | TPyPrivate p | TNamePrefix p => starts_with p (m_name m)
  | TNameEq s => String.eqb (m_name m) s
  | TNotNodeType ty => negb (String.eqb (py_node (m_kind m)) ty)
  end.
Definition py_countable (q : squirks) (m : member) : bool :=
  smem (py_node (m_kind m)) py_method_node_types && negb (existsb (py_test m) py_countable_tests)
  && (q_py_setter_counted q || negb (is_setter (m_kind m)))
  && (q_py_cached_property_counted q || negb (is_cached (m_kind m))).
Definition py_count_methods (q : squirks) (c : cls) : nat := List.length (filter (py_countable q) (c_members c)).

Definition py_line_counts (q : squirks) (x : line) : bool :=
  text_counts py_comment_prefix x || (negb (q_py_hash_in_string q) && lkind_eqb (l_kind x) LStrHash).

(* lineno = c_line, end_lineno = c_line + c_len - 1 *)
Definition py_count_loc (q : squirks) (lines : list line) (c : cls) : nat :=
  List.length (filter (py_line_counts q) (slice (c_line c - py_loc_lo_sub) (c_line c + c_len c - 1 + py_loc_hi_add) lines)).

Definition py_class_rep (q : squirks) (cfg : conf) (lines : list line) (c : cls) : list rep :=
  class_rep py_metrics_dict (c_name c) (py_count_methods q c) (py_count_loc q lines c)
            (has_kw py_kw_mode (cf_keywords cfg) (c_name c)) (c_line c) (c_col c) (c_line c) (c_col c) cfg.

Definition py_report (q : squirks) (cfg : conf) (f : sfile) : list rep :=
  flat_map (py_class_rep q cfg (f_lines f)) (filter (fun _ => smem "ClassDef" py_class_node_types) (f_classes f)).

(* ------------------------------------------------------------------ TypeScript / JavaScript *)
Definition ts_class_node (k : ckind) : string :=
  match k with
  | CPlain | CExport | CExportDefault => "class_declaration" | CAbstract | CExportAbstract => "abstract_class_declaration"
  | CExprNamed => "class"
  end.
Definition ts_member_node (k : mkind) : string :=
  match k with MField => "public_field_definition" | _ => "method_definition" end.
Definition ts_name_node (k : mkind) : string :=
  match k with MHashPrivate => "private_property_identifier" | _ => "property_identifier" end.
(* _get_method_name *)
Definition ts_method_name (m : member) : option string :=
  if String.eqb (ts_name_node (m_kind m)) ts_name_node_type then Some (m_name m) else None.

Definition ts_test (m : member) (t : mtest) : bool :=
  match t with
  | TNotNodeType ty => negb (String.eqb (ts_member_node (m_kind m)) ty)
  | TNameEq s => match ts_method_name m with Some n => String.eqb n s | None => false end
  | TNamePrefix p | TPyPrivate p => match ts_method_name m with Some n => starts_with p n | None => false end
  | TPyProperty _ => false
  end.
Definition ts_countable (q : squirks) (m : member) : bool :=
  negb (existsb (ts_test m) ts_countable_tests)
  && (q_ts_nonpublic_counted q || negb (nonpublic (m_kind m)))
  && (q_ts_accessor_counted q || negb (accessor (m_kind m))).
Definition ts_count_methods (q : squirks) (c : cls) : nat := List.length (filter (ts_countable q) (c_members c)).

Definition ts_line_counts (q : squirks) (pfx : string) (x : line) : bool :=
  text_counts pfx x && (q_ts_block_comment_counted q || negb (lkind_eqb (l_kind x) LBlockComment)).

(* the class node starts c_deco lines above its keyword: start_point row = c_line - c_deco - 1,
   end_point row = start row + c_len - 1 *)
Definition ts_count_loc (q : squirks) (lines : list line) (c : cls) : nat :=
  let r0 := c_line c - c_deco c - 1 in
  let r1 := c_line c - c_deco c + c_len c - 2 in
  match ts_loc_mode with
  | LocSpan plus => r1 - r0 + plus
  | LocFilter lo hi pfx => List.length (filter (ts_line_counts q pfx) (slice (r0 - lo) (r1 + hi) lines))
  end.

Definition ts_class_name (c : cls) : string :=
  if smem "type_identifier" ts_class_name_node_types then c_name c else "UnnamedClass".

Definition ts_class_rep (q : squirks) (cfg : conf) (lines : list line) (c : cls) : list rep :=
  class_rep ts_metrics_dict (ts_class_name c) (ts_count_methods q c) (ts_count_loc q lines c)
            (has_kw ts_kw_mode (cf_keywords cfg) (ts_class_name c)) (c_line c - c_deco c - 1) (c_col c) (c_line c - 1) (c_col c) cfg.

(* find_all_classes: the nodes whose type is one of the types walked (patched table: the property also demands class expressions) *)
Definition ts_walked_types (q : squirks) : list string :=
  if q_ts_class_expr_skipped q then ts_class_node_types else ts_class_node_types ++ ["class"].
Definition ts_found (q : squirks) (c : cls) : bool := smem (ts_class_node (c_kind c)) (ts_walked_types q).

Definition ts_report (q : squirks) (cfg : conf) (f : sfile) : list rep :=
  flat_map (ts_class_rep q cfg (f_lines f)) (filter (ts_found q) (f_classes f)).

(* ------------------------------------------------------------------ Rust *)
Definition rs_member_node (k : mkind) : string := match k with MField => "const_item" | _ => "function_item" end.
Definition rs_fn_name (m : member) : string :=
  if String.eqb "identifier" rs_name_node_type then m_name m else "anonymous".
Definition rs_countable (m : member) : bool :=
  String.eqb (rs_member_node (m_kind m)) rs_fn_node_type && negb (starts_with rs_private_prefix (rs_fn_name m)).

(* children of an impl_item before its declaration_list, as (node type, text) *)
Definition self_nodes (i : rimpl) : list (string * string) :=
  if i_generic i then [("generic_type", (i_self i ++ "<T>")%string)] else [("type_identifier", i_self i)].
Definition trait_nodes (i : rimpl) : list (string * string) :=
  match i_trait i with
  | TNone => []
  | TSimple t => [("type_identifier", t); ("for", "for")]
  | TScoped p t => [("scoped_type_identifier", (p ++ "::" ++ t)%string); ("for", "for")]
  end.
Definition impl_nodes (i : rimpl) : list (string * string) :=
  (if i_generic i then [("type_parameters", "<T>")] else []) ++ trait_nodes i ++ self_nodes i.
Definition first_of_type (ty : string) (nodes : list (string * string)) : string :=
  match find (fun n => String.eqb (fst n) ty) nodes with Some n => snd n | None => "" end.

(* get_impl_target_name on an impl_item.  The `type` field of an impl_item is its self type: a type_identifier, or
   a generic_type whose own `type` field is the type_identifier *)
Definition rs_target (i : rimpl) : string :=
  match rs_target_mode with
  | TargetFirst ty => first_of_type ty (impl_nodes i)
  | TargetField gty ty loop_ty =>
    let field_ty := if i_generic i then (if String.eqb "generic_type" gty then "type_identifier" else "generic_type") else "type_identifier" in
    if String.eqb field_ty ty then i_self i else first_of_type loop_ty (impl_nodes i)
  end.

(* get_impl_target_name on a struct_item (no `type` field): the first child of the loop's node type *)
Definition rs_struct_key (s : rstruct) : string :=
  let ty := match rs_target_mode with TargetFirst ty => ty | TargetField _ _ loop_ty => loop_ty end in
  if String.eqb "type_identifier" ty then s_name s else "".

(* _extract_type_name: the reported name *)
Definition rs_struct_name (s : rstruct) : string :=
  if String.eqb "type_identifier" rs_struct_name_node_type then s_name s else "anonymous".

(* impl_map.get(name of the struct) *)
Definition rs_assoc (q : squirks) (s : rstruct) (i : rimpl) : bool :=
  String.eqb (rs_struct_key s) (rs_target i) && negb (String.eqb (rs_target i) "")
  && (q_rs_name_collision q || path_eqb (s_path s) (i_path i)).

Definition rs_line_counts (q : squirks) (x : line) : bool :=
  text_counts rs_comment_prefix x && (q_rs_block_comment_counted q || negb (lkind_eqb (l_kind x) LBlockComment)).

(* _node_loc: start_point row = line - 1, end_point row = line + len - 2 *)
Definition rs_node_loc (q : squirks) (lines : list line) (start len : nat) : nat :=
  List.length (filter (rs_line_counts q) (slice (start - 1 - rs_loc_lo_sub) (start + len - 2 + rs_loc_hi_add) lines)).

Definition rs_struct_rep (q : squirks) (cfg : conf) (f : sfile) (s : rstruct) : list rep :=
  let impls := filter (rs_assoc q s) (filter (fun _ => String.eqb "impl_item" rs_impl_node_type) (f_impls f)) in
  class_rep rs_metrics_dict (rs_struct_name s)
            (list_sum (map (fun i => List.length (filter rs_countable (i_members i))) impls))
            (rs_node_loc q (f_lines f) (s_line s) (s_len s) + list_sum (map (fun i => rs_node_loc q (f_lines f) (i_line i) (i_len i)) impls))
            (has_kw rs_kw_mode (cf_keywords cfg) (rs_struct_name s)) (s_line s - 1) (s_col s) (s_line s - 1) (s_col s) cfg.

Definition rs_report (q : squirks) (cfg : conf) (f : sfile) : list rep :=
  flat_map (rs_struct_rep q cfg f) (filter (fun _ => String.eqb "struct_item" rs_struct_node_type) (f_structs f)).

(* ------------------------------------------------------------------ SRPRule.check *)
Definition report_conf (q : squirks) (handler : string) (cfg : conf) (f : sfile) : list rep :=
  if negb (cf_enabled cfg) then []
  else if String.eqb handler "python" then py_report q cfg f
  else if String.eqb handler "typescript" then ts_report q cfg f
  else if String.eqb handler "rust" then rs_report q cfg f
  else [].

Definition report_sec (q : squirks) (s : section) (f : sfile) : list rep :=
  match lookup (f_ext f) srp_ext_lang with
  | None => []
  | Some lname =>
    match lookup lname srp_dispatch with
    | None => []
    | Some h => report_conf q h (from_dict s lname) f
    end
  end.

Definition report (q : squirks) (c : config) (f : sfile) : list rep := report_sec q (section_of c) f.
