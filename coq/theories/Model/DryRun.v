(* Model/DryRun.v — judging one C03 correspondence case inside the kernel's VM.
   Input: the abstract project (files in file_path order), W, k, the file paths, the implementation's
   violations (parsed fields + the raw message), optionally the rows the implementation stored
   (code_blocks table read before finalize), and whether the project is from the ordinary stream
   (`exact`: model rows = stored rows) or the filter-provoking stream (stored rows are a subset).

   judge1 (every case):
     0 parse_ok   every raw message is the rendering of its parsed fields, and _extract_line_count reads the count back
     1 lit_ok     norm under the claimed flags = the literal pipeline normalize_line(render) on every line, no stray
                  directive keyword, the models of the four block filters and of the registry answer like the real ones
                  on the probed line ranges and no stored row is one the model's registry drops (kw_ok)
     2 sound_b impl   3 mutual_sb impl (covered or excused by a suppression)   4 complete_sb impl (exact only)
     5 count_b impl and silent_b impl (nothing suppressed is reported) and, filter stream, rows_okb of the stored rows
     6 impl = model under the claimed vector
     10 the real block filters / registry answer as DOCUMENTED on the probed line ranges (kw_doc_ok)
     7..9 the project lies in the defect class of the flag (strip: a code part contains `#` or `//`;
          block: a /* */ comment occurs; asym: some stored window spans more source lines than W)
   judge2 (cases on which a clause failed or bit 6 is false; all cases once bit 6 failed anywhere):
     0 the clauses hold of the model's output under the ideal vector (filter stream: mutuality and count on the stored rows)
     1..5 impl = model c  for c = claimed vector, claimed minus one flag (strip, block, asym), ideal
   The VM is call-by-value: laziness is expressed with `if`. *)
From TL Require Import Lib.Base Lib.GenTypes Model.DryBase Model.DryPipe Model.DryFilter Gen.DryGen Model.Dry Model.DrySpec.

Definition dwith_flag (i : nat) (q : dquirks) : dquirks :=
  match i with
  | 0 => Build_dquirks false (q_block_comment_kept q) (q_overlap_asym q)
  | 1 => Build_dquirks (q_strip_in_code q) false (q_overlap_asym q)
  | _ => Build_dquirks (q_strip_in_code q) (q_block_comment_kept q) false
  end.

Definition viols_same (a b : list viol) : bool := ms_eqb viol_eqb a b.
Definition rows_subset (a b : list row) : bool := forallb (fun r => existsb (row_eqb r) b) a.
Definition rows_same (a b : list row) : bool := list_eqb row_eqb a b.

Definition opt_nat_eqb (a : option nat) (b : nat) : bool := match a with Some x => x =? b | None => false end.

Definition parse_ok (paths : list string) (impl : list (viol * string)) : bool :=
  forallb (fun p => if String.eqb (v_message paths (fst p)) (snd p)
                    then opt_nat_eqb (extract_line_count (snd p)) (v_count (fst p)) else false) impl.

(* a line that carries none of the tabled directive spellings must not mention a directive keyword at all
   (otherwise the real parsers might see a directive the model does not) *)
Definition stray_free (l : dlang) (a : aline) : bool :=
  match a_cmt a with
  | CLine t => match lookup_spelling t spellings with Some _ => true | None => false end
  | _ => false
  end
  || (let r := render_line l a in
      if str_contains "thailint" r then false else if str_contains "design-lint" r then false else negb (str_contains "dry:" r)).

Definition lit_ok (q : dquirks) (files : list afile) : bool :=
  forallb (fun f => forallb (fun a => if a_doc a then stray_free (f_lang f) a
                                      else if String.eqb (norm q (f_lang f) a) (norm_literal (f_lang f) a) then stray_free (f_lang f) a else false)
                            (f_lines f)) files.

(* unit level: the real filters (KeywordArgumentFilter, ImportGroupFilter, LoggerCallFilter, ExceptionReraiseFilter) and
   the real registry (of the analyzer that handles the file: the configured one for Python, the default one for TS/JS)
   were called on windows and short line ranges of a file: (file index, the multi-line ast.Call spans Python's ast sees
   in the file, (start, end, answers) triples, answers = 1*kwarg + 2*import + 4*logger + 8*reraise + 16*registry);
   the model must give the same answers; and no row the implementation stored may be one the model's registry drops *)
Definition b2n (b : bool) (w : nat) : nat := if b then w else 0.
Definition filter_mask (configured : bool) (custom : list (string * bool)) (calls : list (nat * nat)) (raw : list string) (s e : nat) : nat :=
  b2n (model_kwarg_filter raw calls s e) 1 + b2n (model_import_filter raw s e) 2 + b2n (model_logger_filter raw s e) 4
  + b2n (model_reraise_filter raw s e) 8 + b2n (model_registry configured custom calls raw s e) 16.
Definition is_py (l : dlang) : bool := match l with DPy => true | DTs => false end.
Definition kw_ok (files : list afile) (custom : list (string * bool)) (irows : option (list row))
           (kw : list (nat * list (nat * nat) * list (nat * nat * nat))) : bool :=
  forallb (fun t => let '(fi, calls, tests) := t in
             let f := nth_file files fi in
             let raw := map (render_line (f_lang f)) (f_lines f) in
             let py := is_py (f_lang f) in
             if forallb (fun x => let '(s, e, m) := x in filter_mask py custom calls raw s e =? m) tests
             then match irows with
                  | Some ri => forallb (fun r => if r_file r =? fi then negb (model_registry py custom calls raw (r_start r) (r_end r)) else true) ri
                  | None => true
                  end
             else false) kw.

(* the same answers against the DOCUMENTED filters (Model/DryFilter.v *_ref, docs/dry-linter.md "Available Filters") *)
Definition filter_mask_ref (configured : bool) (custom : list (string * bool)) (calls : list (nat * nat)) (raw : list string) (s e : nat) : nat :=
  b2n (kwarg_filter_ref raw calls s e) 1 + b2n (import_filter_ref raw s e) 2 + b2n (logger_filter_ref raw s e) 4
  + b2n (reraise_filter_ref raw s e) 8 + b2n (registry_ref configured custom calls raw s e) 16.
Definition kw_doc_ok (files : list afile) (custom : list (string * bool)) (kw : list (nat * list (nat * nat) * list (nat * nat * nat))) : bool :=
  forallb (fun t => let '(fi, calls, tests) := t in
             let f := nth_file files fi in
             let raw := map (render_line (f_lang f)) (f_lines f) in
             forallb (fun x => let '(s, e, m) := x in filter_mask_ref (is_py (f_lang f)) custom calls raw s e =? m) tests) kw.

(* defect classes, decided on the abstract input with hand-written tests *)
Definition class_strip (files : list afile) : bool :=
  existsb (fun f => existsb (fun a => if a_doc a then false else if str_contains "#" (a_code a) then true else str_contains "//" (a_code a)) (f_lines f)) files.
Definition class_block (files : list afile) : bool :=
  existsb (fun f => existsb (fun a => match a_cmt a with CBlock _ => negb (a_doc a) | _ => false end) (f_lines f)) files.
Definition class_asym (W : nat) (rows : list row) : bool :=
  existsb (fun r => negb (r_end r - r_start r + 1 =? W)) rows.

Definition spec_bits (exact : bool) (pats paths : list string) (files : list afile) (W k : nat) (crows : list row) (R : list viol) : list bool :=
  [sound_b files W R; mutual_sb pats paths files crows R; if exact then complete_sb pats paths files crows k R else true;
   if count_b crows R then (if silent_b pats paths files R then (if exact then true else rows_okb crows) else false) else false].

Definition cand_ok (exact : bool) (irows : option (list row)) (k : nat) (pats paths : list string) (files : list afile)
           (impl : list viol) (q : dquirks) (mrows : list row) : bool :=
  match irows with
  | Some ri => if (if exact then rows_same ri mrows else rows_subset ri mrows)
               then viols_same impl (dry_final_of_rows q k pats paths files ri) else false
  | None => if exact then viols_same impl (dry_final_of_rows q k pats paths files mrows) else true
  end.

(* stored rows as sent by the harness: snippet lines are indices into a per-case table of distinct lines *)
Definition RI (tbl : list string) (f s e : nat) (ids : list nat) : row :=
  Build_row f s e (join nl (map (fun i => nth i tbl "") ids)).

(* R: all reported violations (parsed fields); msgs: a sample of them with the raw message text *)
Definition judge1 (q : dquirks) (exact : bool) (W k : nat) (files : list afile) (pats paths : list string)
           (R : list viol) (msgs : list (viol * string)) (irows : option (list row))
           (custom : list (string * bool)) (kw : list (nat * list (nat * nat) * list (nat * nat * nat))) : list bool :=
  let rrows := ref_rows W files in
  let mrows := dry_rows q W files in
  (* the count clause is relative to the stored rows when filters may have dropped windows *)
  let crows := if exact then rrows else match irows with Some ri => ri | None => rrows end in
  parse_ok paths msgs :: (if lit_ok q files then kw_ok files custom irows kw else false)
  :: spec_bits exact pats paths files W k crows R
  ++ [cand_ok exact irows k pats paths files R q mrows; class_strip files; class_block files; class_asym W mrows; kw_doc_ok files custom kw].

Definition judge2 (q : dquirks) (exact : bool) (W k : nat) (files : list afile) (pats paths : list string)
           (R : list viol) (irows : option (list row)) : list bool :=
  let r0 := dry_rows q W files in
  let ri := dry_rows dry_ideal W files in
  (* ordinary stream: the ideal model's report must satisfy every clause; filter stream: the ideal report on the
     stored rows must be mutual and count exactly (its text is whatever the implementation stored) *)
  let ideal_out := if exact then forallb (fun b => b) (spec_bits true pats paths files W k (ref_rows W files)
                                                                    (dry_final_of_rows dry_ideal k pats paths files ri))
                   else match irows with
                        | Some rs => let Ri := dry_final_of_rows dry_ideal k pats paths files rs in
                                     if mutual_sb pats paths files rs Ri then count_b rs Ri else false
                        | None => true
                        end in
  [ideal_out;
   cand_ok exact irows k pats paths files R q r0;
   cand_ok exact irows k pats paths files R (dwith_flag 0 q) (dry_rows (dwith_flag 0 q) W files);
   cand_ok exact irows k pats paths files R (dwith_flag 1 q) (dry_rows (dwith_flag 1 q) W files);
   cand_ok exact irows k pats paths files R (dwith_flag 2 q) r0;
   cand_ok exact irows k pats paths files R dry_ideal ri].
