(* Model/DryRun.v — judging one C03 correspondence case inside the kernel's VM.
   Input: the abstract project (files in file_path order), W, k, the file paths, the implementation's
   violations (parsed fields + the raw message), optionally the rows the implementation stored
   (code_blocks table read before finalize), and whether the project is from the ordinary stream
   (`exact`: model rows = stored rows) or the filter-provoking stream (stored rows are a subset).

   judge1 (every case):
     0 parse_ok   every raw message is the rendering of its parsed fields, and _extract_line_count reads the count back
     1 lit_ok     norm under the claimed flags = the literal pipeline normalize_line(render) on every line
     2 sound_b impl   3 mutual_b impl   4 complete_b impl (exact only)   5 count_b impl
     6 impl = model under the claimed vector
     7..9 the project lies in the defect class of the flag (strip: a code part contains `#` or `//`;
          block: a /* */ comment occurs; asym: some stored window spans more source lines than W)
   judge2 (cases on which a clause failed or bit 6 is false; all cases once bit 6 failed anywhere):
     0 the clauses hold of the model's output under the ideal vector (filter stream: mutuality and count on the stored rows)
     1..5 impl = model c  for c = claimed vector, claimed minus one flag (strip, block, asym), ideal
   The VM is call-by-value: laziness is expressed with `if`. *)
From TL Require Import Lib.Base Lib.GenTypes Model.DryBase Model.DryPipe Gen.DryGen Model.Dry Model.DrySpec.

Definition dwith_flag (i : nat) (q : dquirks) : dquirks :=
  match i with
  | 0 => Build_dquirks false (q_block_comment_kept q) (q_overlap_asym q)
  | 1 => Build_dquirks (q_strip_in_code q) false (q_overlap_asym q)
  | _ => Build_dquirks (q_strip_in_code q) (q_block_comment_kept q) false
  end.

Definition viols_same (a b : list viol) : bool := ms_eqb viol_eqb a b.
Definition rows_subset (a b : list row) : bool := forallb (fun r => existsb (row_eqb r) b) a.
Definition rows_same (a b : list row) : bool := list_eqb row_eqb a b.

Definition opt_nat_eqb (a : option nat) (b : nat) : bool := match a with Some x => x =? b | None => false end.

Definition parse_ok (paths : list string) (impl : list (viol * string)) : bool :=
  forallb (fun p => if String.eqb (v_message paths (fst p)) (snd p)
                    then opt_nat_eqb (extract_line_count (snd p)) (v_count (fst p)) else false) impl.

Definition lit_ok (q : dquirks) (files : list afile) : bool :=
  forallb (fun f => forallb (fun a => if a_doc a then true else String.eqb (norm q (f_lang f) a) (norm_literal (f_lang f) a)) (f_lines f)) files.

(* defect classes, decided on the abstract input with hand-written tests *)
Definition class_strip (files : list afile) : bool :=
  existsb (fun f => existsb (fun a => if a_doc a then false else if str_contains "#" (a_code a) then true else str_contains "//" (a_code a)) (f_lines f)) files.
Definition class_block (files : list afile) : bool :=
  existsb (fun f => existsb (fun a => match a_cmt a with CBlock _ => negb (a_doc a) | _ => false end) (f_lines f)) files.
Definition class_asym (W : nat) (rows : list row) : bool :=
  existsb (fun r => negb (r_end r - r_start r + 1 =? W)) rows.

Definition spec_bits (exact : bool) (files : list afile) (W k : nat) (crows : list row) (R : list viol) : list bool :=
  [sound_b files W R; mutual_b R; if exact then complete_b crows k R else true; count_b crows R].

Definition cand_ok (exact : bool) (irows : option (list row)) (k : nat) (impl : list viol) (q : dquirks) (mrows : list row) : bool :=
  match irows with
  | Some ri => if (if exact then rows_same ri mrows else rows_subset ri mrows) then viols_same impl (dry_report q k ri) else false
  | None => if exact then viols_same impl (dry_report q k mrows) else true
  end.

(* stored rows as sent by the harness: snippet lines are indices into a per-case table of distinct lines *)
Definition RI (tbl : list string) (f s e : nat) (ids : list nat) : row :=
  Build_row f s e (join nl (map (fun i => nth i tbl "") ids)).

(* R: all reported violations (parsed fields); msgs: a sample of them with the raw message text *)
Definition judge1 (q : dquirks) (exact : bool) (W k : nat) (files : list afile) (paths : list string)
           (R : list viol) (msgs : list (viol * string)) (irows : option (list row)) : list bool :=
  let rrows := ref_rows W files in
  let mrows := dry_rows q W files in
  (* the count clause is relative to the stored rows when filters may have dropped windows *)
  let crows := if exact then rrows else match irows with Some ri => ri | None => rrows end in
  parse_ok paths msgs :: lit_ok q files
  :: spec_bits exact files W k crows R
  ++ [cand_ok exact irows k R q mrows; class_strip files; class_block files; class_asym W mrows].

Definition judge2 (q : dquirks) (exact : bool) (W k : nat) (files : list afile)
           (R : list viol) (irows : option (list row)) : list bool :=
  let r0 := dry_rows q W files in
  let ri := dry_rows dry_ideal W files in
  (* ordinary stream: the ideal model's report must satisfy every clause; filter stream: the ideal report on the
     stored rows must be mutual and count exactly (its text is whatever the implementation stored) *)
  let ideal_out := if exact then forallb (fun b => b) (spec_bits true files W k (ref_rows W files) (dry_report dry_ideal k ri))
                   else match irows with
                        | Some rs => let Ri := dry_report dry_ideal k rs in if mutual_b Ri then count_b rs Ri else false
                        | None => true
                        end in
  [ideal_out;
   cand_ok exact irows k R q r0;
   cand_ok exact irows k R (dwith_flag 0 q) (dry_rows (dwith_flag 0 q) W files);
   cand_ok exact irows k R (dwith_flag 1 q) (dry_rows (dwith_flag 1 q) W files);
   cand_ok exact irows k R (dwith_flag 2 q) r0;
   cand_ok exact irows k R dry_ideal ri].
