(* Model/DrySpec.v — what property C03 demands, written by hand from the property statement and
   docs/dry-linter.md ("stripping comments and normalizing whitespace", docstring / JSDoc / import
   filtering, windows of min_duplicate_lines lines, min_occurrences).  Nothing here depends on Gen/.

   Two layers:
   (1) the reference pipeline `ref_report`: Model/DryPipe.v with hand-written leaf parameters
       (comment = exactly the comment part of a line; symmetric overlap; counts as documented);
   (2) the relational clauses of the property over an arbitrary reported list (Prop and bool versions);
       the implementation's output is judged by (2), never by equality with (1).

   Code lines: a line counts as code when, after removing its comment and normalising whitespace, it is
   non-empty, is not part of a docstring/JSDoc block, and is not an import/export line or a lone brace
   (`{`, `}`, `} from`) - the documented import filtering; two places are "identical" when their code
   lines are equal one by one. *)
From TL Require Import Lib.Base Lib.GenTypes Model.DryBase Model.DryPipe.

Definition nl : string := String (ascii_of_nat 10) EmptyString.

Definition ref_norm (a : aline) : string := join " " (words (a_code a)).

Definition ref_import_prefixes : list string := ["import "; "from "; "export "].
Definition ref_brace_tokens : list string := ["{"; "}"; "} from"].
Definition ref_is_import (line : string) : bool := str_starts_any line ref_import_prefixes || smem line ref_brace_tokens.
(* multi-line `from x import (` ... `)` regions are import lines up to the line holding the `)` *)
Definition ref_skip (line : string) (st : bool) : bool * bool :=
  if ref_is_import line && str_contains "(" line && negb (str_contains ")" line) then (true, true)
  else if st then (negb (str_contains ")" line), true)
  else if ref_is_import line then (false, true) else (false, false).

Definition ref_aparams : aparams :=
  {| p_norm := ref_norm; p_skip := ref_skip; p_first_line := 1; p_guard := CLt; p_off := 1;
     p_sep := nl; p_wstart := WIdx 0; p_wend := WFromEnd 0 |}.

Definition ref_bparams : bparams :=
  {| p_dup_cmp := CGe; p_dup_min := 2;
     p_blocks_overlap := fun s1 e1 s2 e2 => (s1 <=? e2) && (s2 <=? e1);
     p_meets := fun n k => negb (n =? 0) && (k <=? n);
     p_line_count := fun s e => e - s + 1; p_column := 1;
     p_is_other := fun same ds _ bs _ => negb same || negb (ds =? bs);
     p_viol_overlap := fun l1 l2 _ c2 => l1 <? l2 + c2 |}.

Definition ref_rows (W : nat) (files : list afile) : list row := all_rows (fun _ => ref_aparams) W files.
Definition ref_report (W k : nat) (files : list afile) : list viol := pipeline (fun _ => ref_aparams) ref_bparams W k files.

(* suppression as documented (docs/dry-linter.md "Ignoring Violations", how-to-ignore-violations.md): a violation is
   dropped when its file path contains a dry.ignore pattern, when an ignore-file directive stands in the first 10
   lines, when its first line carries `thailint: ignore dry`, follows an ignore-next-line line or lies inside an
   ignore-start .. ignore-end block; undocumented but present: `# dry: ignore-block` covers the 10 lines after it,
   `# dry: ignore-next` the next line, and a violation is dropped when its block meets such a range. *)
Definition ref_sparams : sparams :=
  {| s_block_off := 1; s_block_len := 10; s_next_off := 1;
     s_range_overlap := fun line end_line ign_start ign_end => (line <=? ign_end) && (ign_start <=? end_line);
     s_viol_end := fun start count => start + count - 1; s_header_lines := 10 |}.
Definition ref_suppressed := suppressed ref_sparams.
Definition ref_final (W k : nat) (patterns paths : list string) (files : list afile) : list viol :=
  unsuppressed ref_sparams patterns paths files (ref_report W k files).

(* ------------------------------------------------------------------ the text at a location *)
Definition ref_stream (f : afile) : list (nat * string) := tokenize ref_aparams (f_lines f).
Definition in_range (s e : nat) (p : nat * string) : bool := (s <=? fst p) && (fst p <=? e).
Definition canon_range (f : afile) (s e : nat) : list string := map snd (filter (in_range s e) (ref_stream f)).
Definition no_file : afile := {| f_lang := DPy; f_lines := [] |}.
Definition nth_file (files : list afile) (i : nat) : afile := nth i files no_file.

Definition v_end (v : viol) : nat := v_line v + v_count v - 1.
Definition v_text (files : list afile) (v : viol) : list string := canon_range (nth_file files (v_file v)) (v_line v) (v_end v).

(* a reported violation whose block intersects lines s..e of file f *)
Definition touches (f s e : nat) (v : viol) : bool := (v_file v =? f) && (v_line v <=? e) && (s <=? v_end v).
Definition covered (R : list viol) (f s e : nat) : Prop := exists v, In v R /\ touches f s e v = true.
Definition covered_b (R : list viol) (f s e : nat) : bool := existsb (touches f s e) R.

(* ------------------------------------------------------------------ clauses (Prop) *)
(* S1+S2: at least one other location; every named location is another place whose code lines equal the
   reported block's, and the block has at least W code lines (so a shared run of >= W exists) *)
Definition sound_v (files : list afile) (W : nat) (v : viol) : Prop :=
  v_refs v <> [] /\ W <= List.length (v_text files v) /\
  forall f s e, In (f, s, e) (v_refs v) ->
    (f, s) <> (v_file v, v_line v) /\ canon_range (nth_file files f) s e = v_text files v.
Definition sound (files : list afile) (W : nat) (R : list viol) : Prop := forall v, In v R -> sound_v files W v.

(* S3: every named location is covered by a reported violation *)
Definition mutual (R : list viol) : Prop :=
  forall v, In v R -> forall f s e, In (f, s, e) (v_refs v) -> covered R f s e.

(* places: occurrences (stored windows) of one snippet, pairwise non-overlapping *)
Definition row_disjoint (a b : row) : Prop := r_file a <> r_file b \/ r_end a < r_start b \/ r_end b < r_start a.
Definition disjoint_occurrences (rows : list row) (s : string) (ps : list row) : Prop :=
  NoDup ps /\ (forall p, In p ps -> In p rows /\ r_snip p = s) /\
  (forall a b, In a ps -> In b ps -> a <> b -> row_disjoint a b).

(* C2: the count in the message is the largest number of pairwise non-overlapping places of the block *)
Definition count_ok (rows : list row) (v : viol) : Prop :=
  exists b, In b rows /\ r_file b = v_file v /\ r_start b = v_line v /\ r_end b = v_end v /\
    (exists ps, disjoint_occurrences rows (r_snip b) ps /\ List.length ps = v_occ v) /\
    (forall ps, disjoint_occurrences rows (r_snip b) ps -> List.length ps <= v_occ v).

(* C1: a block with at least k pairwise non-overlapping places: every one of a maximal left-to-right
   choice of places is covered, and every occurrence overlaps (or is) one of those places *)
Definition complete (rows : list row) (k : nat) (R : list viol) : Prop :=
  forall s ps, disjoint_occurrences rows s ps -> k <= List.length ps ->
    forall r, In r rows -> r_snip r = s ->
      exists p, In p rows /\ r_snip p = s /\ r_file p = r_file r /\ r_start p <= r_end r /\ r_start r <= r_end p /\
                covered R (r_file p) (r_start p) (r_end p).

(* ------------------------------------------------------------------ clauses in the presence of suppression *)
(* a location is excused when a stored window of its file that meets it would, reported as a violation, be suppressed *)
Definition row_meets (f s e : nat) (r : row) : bool := (r_file r =? f) && (r_start r <=? e) && (s <=? r_end r).
Definition row_suppressed (patterns paths : list string) (files : list afile) (r : row) : bool :=
  ref_suppressed patterns paths files (r_file r) (r_start r) (r_end r - r_start r + 1).
Definition excused (patterns paths : list string) (files : list afile) (rows : list row) (f s e : nat) : Prop :=
  exists r, In r rows /\ row_meets f s e r = true /\ row_suppressed patterns paths files r = true.
Definition excused_b (patterns paths : list string) (files : list afile) (rows : list row) (f s e : nat) : bool :=
  existsb (fun r => if row_meets f s e r then row_suppressed patterns paths files r else false) rows.

(* S3 with its exception: every named location is covered by a reported violation unless it is suppressed *)
Definition mutual_s (patterns paths : list string) (files : list afile) (rows : list row) (R : list viol) : Prop :=
  forall v, In v R -> forall f s e, In (f, s, e) (v_refs v) -> covered R f s e \/ excused patterns paths files rows f s e.
Definition complete_s (patterns paths : list string) (files : list afile) (rows : list row) (k : nat) (R : list viol) : Prop :=
  forall s ps, disjoint_occurrences rows s ps -> k <= List.length ps ->
    forall r, In r rows -> r_snip r = s ->
      exists p, In p rows /\ r_snip p = s /\ r_file p = r_file r /\ r_start p <= r_end r /\ r_start r <= r_end p /\
                (covered R (r_file p) (r_start p) (r_end p) \/ excused patterns paths files rows (r_file p) (r_start p) (r_end p)).
(* nothing suppressed is reported *)
Definition silent (patterns paths : list string) (files : list afile) (R : list viol) : Prop :=
  forall v, In v R -> v_suppressed ref_sparams patterns paths files v = false.

(* ------------------------------------------------------------------ clauses (bool, evaluated by the judge) *)
(* written with explicit `if` (the VM is call-by-value: `a && b` would always evaluate b) and with the
   per-file streams computed once *)
Definition is_nil {A} (l : list A) : bool := match l with [] => true | _ => false end.
Definition range_of (streams : list (list (nat * string))) (f s e : nat) : list string :=
  map snd (filter (in_range s e) (nth f streams [])).

Definition sound_b (files : list afile) (W : nat) (R : list viol) : bool :=
  let streams := map ref_stream files in
  forallb (fun v =>
    let txt := range_of streams (v_file v) (v_line v) (v_end v) in
    if is_nil (v_refs v) then false else
    if W <=? List.length txt then
      forallb (fun r => let '(f, s, e) := r in
                 if (f =? v_file v) && (s =? v_line v) then false
                 else list_eqb String.eqb (range_of streams f s e) txt) (v_refs v)
    else false) R.

Definition mutual_b (R : list viol) : bool :=
  forallb (fun v => forallb (fun r => let '(f, s, e) := r in covered_b R f s e) (v_refs v)) R.

Definition mutual_sb (patterns paths : list string) (files : list afile) (rows : list row) (R : list viol) : bool :=
  forallb (fun v => forallb (fun r => let '(f, s, e) := r in
                                      if covered_b R f s e then true else excused_b patterns paths files rows f s e) (v_refs v)) R.
Definition silent_b (patterns paths : list string) (files : list afile) (R : list viol) : bool :=
  forallb (fun v => negb (v_suppressed ref_sparams patterns paths files v)) R.

(* the left-to-right maximal choice is a largest one (Proofs/DryGreedy.v), so the executable count is
   the length of `places` *)
Definition count_b (rows : list row) (R : list viol) : bool :=
  forallb (fun v => existsb (fun b =>
             if (r_file b =? v_file v) && (r_start b =? v_line v) && (r_end b =? v_end v)
             then v_occ v =? List.length (places ref_bparams (r_snip b) rows) else false) rows) R.

Definition complete_sb (patterns paths : list string) (files : list afile) (rows : list row) (k : nat) (R : list viol) : bool :=
  forallb (fun s => let ps := places ref_bparams s rows in
             if k <=? List.length ps
             then forallb (fun p => if covered_b R (r_file p) (r_start p) (r_end p) then true
                                    else excused_b patterns paths files rows (r_file p) (r_start p) (r_end p)) ps
             else true)
          (dup_snips ref_bparams rows).

Definition complete_b (rows : list row) (k : nat) (R : list viol) : bool :=
  forallb (fun s => let ps := places ref_bparams s rows in
             if k <=? List.length ps then forallb (fun p => covered_b R (r_file p) (r_start p) (r_end p)) ps else true)
          (dup_snips ref_bparams rows).

(* ------------------------------------------------------------------ well-formedness of stored rows, executable *)
(* consecutive rows are ordered by (file, start) and, inside one file, their ends increase; every row has start <= end.
   Proofs/DryOracle.v: rows_okb rows = true -> rows_ok rows (the hypothesis of the stage-B theorems). *)
Definition row_stepb (a b : row) : bool :=
  ((r_file a <? r_file b) || ((r_file a =? r_file b) && (r_start a <? r_start b) && (r_end a <? r_end b))).
Fixpoint chainb (l : list row) : bool :=
  match l with
  | a :: ((b :: _) as t) => if row_stepb a b then chainb t else false
  | _ => true
  end.
Definition rows_okb (rows : list row) : bool :=
  if forallb (fun r => r_start r <=? r_end r) rows then chainb rows else false.
