(* Model/SrpCli.v — executable model of the command-line threshold override of `thailint srp`
   (src/cli/linters/structure_quality.py: srp -> _execute_srp_lint -> _apply_srp_config_override;
   src/cli/linters/shared.py: ensure_config_section, set_config_value), and the judge of the CLI stream of the
   correspondence check.  The section name, the guard of the early return and the (key, option) pairs that are
   written come from Gen/SrpCliGen.v.  No proofs. *)
From TL Require Import Lib.Base Lib.GenTypes Model.SrpTypes Gen.SrpGen Gen.SrpCliGen Model.SrpSpec Model.Srp Model.SrpRun Model.SrpCliSpec.

(* the value click hands over for an option: None when the option is not given *)
Definition cli_value (omm oml : option nat) (flag : string) : option nat :=
  if String.eqb flag "--max-methods" then omm else if String.eqb flag "--max-loc" then oml else None.

Definition is_none {A : Type} (o : option A) : bool := match o with None => true | Some _ => false end.

(* set_config_value(section, key, value, verbose) for every generated (key, option) pair, in source order *)
Definition cli_sets (omm oml : option nat) (s : section) : section :=
  fold_left (fun s kf => match cli_value omm oml (snd kf) with Some n => set_key (fst kf) (VNat n) s | None => s end) srp_cli_sets s.

(* _apply_srp_config_override on orchestrator.config: early return when every guarded option is None; else
   ensure_config_section (the section object itself is updated, a missing one is created) and the assignments *)
Definition cli_override (omm oml : option nat) (c : config) : config :=
  if forallb (fun fl => is_none (cli_value omm oml fl)) srp_cli_guard then c
  else set_key srp_cli_section (cli_sets omm oml (match lookup srp_cli_section c with Some s => s | None => [] end)) c.

(* one CLI run: the configuration file as written, the two options, the implementation's output.
   [input in the domain ; impl = spec ; model ideal = spec ; impl = model q for each candidate q] *)
Definition judge_cli (q : squirks) (f : sfile) (runs : list (config * option nat * option nat * list rep)) : list (list bool) :=
  map (fun r => let '(c, omm, oml, impl) := r in
         let want := spec_report (spec_cli omm oml c) f in
         (file_good f && config_good c && cli_good omm oml && srp_cli_helpers_ok)
         :: same impl want
         :: same (report ideal (cli_override omm oml c) f) want
         :: map (fun cq => same impl (report cq (cli_override omm oml c) f)) (candidates q))
      runs.
