(* Model/IgnoreRun.v — judging correspondence cases inside the kernel's VM.
   A structured case is an abstract file (Model/IgnoreSpec.v), the text the harness rendered from it, a list of
   queries (line, rule id, suppression pipeline of the reporting linter) and the implementation's answers.
   Result: [[rendered text = render a; file_ok a; every query on a code line];
            per query [impl = spec; model ideal = spec; impl = model c for each candidate c; input in the defect class of flag i (7)]].
   A raw case has no abstract file and no spec: per query [impl = model c for each candidate c]. *)
From Coq Require Import NArith.
From TL Require Import Lib.Base Lib.GenTypes Gen.IgnoreGen Model.PyStr Model.Ignore Model.IgnoreSpec.

Definition with_flag (i : nat) (q : iquirks) : iquirks :=
  match i with
  | 0 => Build_iquirks false (q_next_line_hash_only q) (q_file_hash_only q) (q_block_end_before q) (q_bare_line_unsupported q) (q_bare_file_unsupported q) (q_start_rules_from_code q)
  | 1 => Build_iquirks (q_splitlines_unicode q) false (q_file_hash_only q) (q_block_end_before q) (q_bare_line_unsupported q) (q_bare_file_unsupported q) (q_start_rules_from_code q)
  | 2 => Build_iquirks (q_splitlines_unicode q) (q_next_line_hash_only q) false (q_block_end_before q) (q_bare_line_unsupported q) (q_bare_file_unsupported q) (q_start_rules_from_code q)
  | 3 => Build_iquirks (q_splitlines_unicode q) (q_next_line_hash_only q) (q_file_hash_only q) false (q_bare_line_unsupported q) (q_bare_file_unsupported q) (q_start_rules_from_code q)
  | 4 => Build_iquirks (q_splitlines_unicode q) (q_next_line_hash_only q) (q_file_hash_only q) (q_block_end_before q) false (q_bare_file_unsupported q) (q_start_rules_from_code q)
  | 5 => Build_iquirks (q_splitlines_unicode q) (q_next_line_hash_only q) (q_file_hash_only q) (q_block_end_before q) (q_bare_line_unsupported q) false (q_start_rules_from_code q)
  | _ => Build_iquirks (q_splitlines_unicode q) (q_next_line_hash_only q) (q_file_hash_only q) (q_block_end_before q) (q_bare_line_unsupported q) (q_bare_file_unsupported q) false
  end.

Definition with_on (i : nat) (q : iquirks) : iquirks :=
  match i with
  | 0 => Build_iquirks true (q_next_line_hash_only q) (q_file_hash_only q) (q_block_end_before q) (q_bare_line_unsupported q) (q_bare_file_unsupported q) (q_start_rules_from_code q)
  | 1 => Build_iquirks (q_splitlines_unicode q) true (q_file_hash_only q) (q_block_end_before q) (q_bare_line_unsupported q) (q_bare_file_unsupported q) (q_start_rules_from_code q)
  | 2 => Build_iquirks (q_splitlines_unicode q) (q_next_line_hash_only q) true (q_block_end_before q) (q_bare_line_unsupported q) (q_bare_file_unsupported q) (q_start_rules_from_code q)
  | 3 => Build_iquirks (q_splitlines_unicode q) (q_next_line_hash_only q) (q_file_hash_only q) true (q_bare_line_unsupported q) (q_bare_file_unsupported q) (q_start_rules_from_code q)
  | 4 => Build_iquirks (q_splitlines_unicode q) (q_next_line_hash_only q) (q_file_hash_only q) (q_block_end_before q) true (q_bare_file_unsupported q) (q_start_rules_from_code q)
  | 5 => Build_iquirks (q_splitlines_unicode q) (q_next_line_hash_only q) (q_file_hash_only q) (q_block_end_before q) (q_bare_line_unsupported q) true (q_start_rules_from_code q)
  | _ => Build_iquirks (q_splitlines_unicode q) (q_next_line_hash_only q) (q_file_hash_only q) (q_block_end_before q) (q_bare_line_unsupported q) (q_bare_file_unsupported q) true
  end.

(* a candidate explanation of the implementation: a quirk vector, and whether each linter uses the pipeline claimed
   for it (true) or the shared parser alone, as the property demands (false) *)
Definition cand := (iquirks * bool)%type.
Definition flag_ids : list nat := [0;1;2;3;4;5;6].

(* 0: the claimed vector and pipelines; 1-7: one flag switched off; 8: claimed flags, every linter on the shared parser;
   9: the ideal *)
Definition candidates (q : iquirks) : list cand :=
  (q, true) :: map (fun i => (with_flag i q, true)) flag_ids ++ [(q, false); (ideal, false)].
Definition claimed_only (q : iquirks) : list cand := [(q, true)].

Definition query := (nat * string * pipeline)%type.

(* fast path of the evaluation: a line that does not contain the key word (in any letter case) carries no marker, provided every
   needle / keyword of the generated layer contains it (checked by computation: `keyed`); proved equal to Ignore.prepare and
   Ignore.header_candidates in Proofs/IgnoreCor.v *)
Definition kf (needles : list string) : bool := forallb (fun n => containsb K n && containsb K (lower n)) needles.
Definition keyed : bool :=
  kf file_marker_needles && kf (both_styles file_marker_needles) && kf line_marker_needles
  && kf next_marker_needles && kf (both_styles next_marker_needles) && kf [start_marker_keyword; end_marker_keyword].
Definition maybe_directive (l : string) : bool := negb keyed || containsb K (lower l).
Definition prepare_fast (q : iquirks) (l : string) : pline :=
  if maybe_directive l then prepare q l else {| pl_text := l; pl_block := BOther; pl_next := false; pl_line := false |}.
Definition header_candidates_fast (q : iquirks) (lines : list string) : list string :=
  filter (fun l => maybe_directive l && has_ignore_directive_marker q l) (firstn header_scan_lines lines).

Definition results (c : cand) (content : string) (qs : list query) : list bool :=
  let q := fst c in
  let lines := lines_of q content in
  let hdr := header_candidates_fast q lines in
  let pls := map (prepare_fast q) lines in
  map (fun x : query => let '(v, r, p) := x in suppressed_pre q (if snd c then p else PShared) hdr pls v r) qs.

Definition nthb (k : nat) (l : list bool) : bool := nth k l false.

(* for each flag: does the input lie in the defect class of that flag (Model/IgnoreSpec.v: avoids)?  By the confinement
   theorem an input outside every class of the flags that are on cannot differ from the specification. *)
Definition class_lines (a : list aline) : list bool :=
  map (fun i => negb (forallb (line_avoids (with_on i ideal)) a)) flag_ids.
Definition in_classes (cl : list bool) (a : list aline) (v : nat) : list bool :=
  map (fun i => nth i cl false) flag_ids.

(* all (line, rule) pairs, every query through the shared parser *)
Definition cross (ls : list nat) (rs : list string) : list query :=
  flat_map (fun v => map (fun r => (v, r, PShared)) rs) ls.

Definition judge (cands : list cand) (a : list aline) (content : string) (qs : list query) (impl : list bool) : list (list bool) :=
  let sp := map (fun x : query => let '(v, r, _) := x in spec false a v r) qs in
  let idl := results (ideal, false) content qs in
  let cs := map (fun c => results c content qs) cands in
  let cl := class_lines a in
  [String.eqb content (render a); file_ok a; forallb (fun x : query => let '(v, _, _) := x in target_ok a v) qs] ::
  map (fun k => Bool.eqb (nthb k impl) (nthb k sp) :: Bool.eqb (nthb k idl) (nthb k sp)
                :: map (fun cr => Bool.eqb (nthb k impl) (nthb k cr)) cs
                ++ in_classes cl a (fst (fst (nth k qs (0, EmptyString, PShared)))))
      (seq 0 (List.length qs)).

Definition judge_raw (cands : list cand) (content : string) (qs : list query) (impl : list bool) : list (list bool) :=
  let cs := map (fun c => results c content qs) cands in
  map (fun k => map (fun cr => Bool.eqb (nthb k impl) (nthb k cr)) cs) (seq 0 (List.length qs)).

(* bytes given as binary numbers (fast to parse) *)
Fixpoint bytesN (l : list N) : string :=
  match l with [] => EmptyString | c :: cs => String (ascii_of_N c) (bytesN cs) end.
(* text given line by line: the pieces joined by "\n" (no terminator added) *)
Fixpoint join_nl (l : list string) : string :=
  match l with [] => EmptyString | [x] => x | x :: r => x ++ String c10 (join_nl r) end.

(* leaf level: the string runtime against CPython on the same bytes *)
Definition leaf (s : string) : list (list string) :=
  [splitlines s; [lower s]; [strip s]; tokens s; split_on "," s;
   match re_bracket true "ignore" s with Some g => [g] | None => [] end;
   match re_space true "ignore" s with Some g => [g] | None => [] end;
   match re_space false "ignore-start" s with Some g => [g] | None => [] end].

Fixpoint strs_eqb (a b : list string) : bool :=
  match a, b with
  | [], [] => true
  | x :: a', y :: b' => String.eqb x y && strs_eqb a' b'
  | _, _ => false
  end.
Fixpoint leaf_check (got expected : list (list string)) : list bool :=
  match got, expected with
  | g :: gs, e :: es => strs_eqb g e :: leaf_check gs es
  | _, _ => []
  end.
