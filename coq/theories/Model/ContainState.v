(* Model/ContainState.v — property C11: per-file analyzers WITH MEMORY.
   Model/Contain.v takes a rule as a function of the file (r_res, r_contrib).  The objects behind a rule (analyzers, trackers,
   extractors) live for the whole run, so what they do for a file may depend on the files seen before it.  Here an analyzer is a
   step function over its own state; `collect` is the store of a cross-file rule after the first loop of lint_files.
   Executable, no proofs. *)
From TL Require Import Lib.Base Lib.GenTypes Model.ContainTypes Gen.ContainGen Model.Contain.

Record analyzer (S : Type) := {
  a_init : S;                                   (* state of a fresh rule object *)
  a_step : S -> string -> list evid * S         (* evidence stored for this file, state afterwards *)
}.
Arguments a_init {S} a.
Arguments a_step {S} a s p.

Fixpoint collect {S} (a : analyzer S) (s : S) (files : list string) : list evid :=
  match files with
  | [] => []
  | p :: ps => let r := a_step a s p in fst r ++ collect a (snd r) ps
  end.

(* what the analyzer stores for a file does not depend on what it has seen before *)
Definition history_free {S} (a : analyzer S) : Prop := forall s s' p, fst (a_step a s p) = fst (a_step a s' p).

(* the functional view used by Model/Contain.v *)
Definition contrib_of {S} (a : analyzer S) (p : string) : list evid := fst (a_step a (a_init a) p).

(* the shape of a stale parse memo: `parse` yields the evidence of a file or fails (None); the analyzer remembers the last
   successful result and, when the current file does not parse, stores the remembered evidence again under the current path *)
Definition memo_analyzer (parse : string -> option (list nat)) : analyzer (list nat) :=
  {| a_init := [];
     a_step := fun last p => match parse p with
                             | Some ds => (map (fun d => (p, d)) ds, ds)
                             | None => (map (fun d => (p, d)) last, last)
                             end |}.

(* the same analyzer without the memo: a file that does not parse stores nothing *)
Definition plain_analyzer (parse : string -> option (list nat)) : analyzer unit :=
  {| a_init := tt;
     a_step := fun _ p => match parse p with
                          | Some ds => (map (fun d => (p, d)) ds, tt)
                          | None => ([], tt)
                          end |}.
