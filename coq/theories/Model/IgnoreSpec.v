(* Model/IgnoreSpec.v — what C04 demands, stated over an abstract file: a list of lines each of which is either
   code, code with a same-line directive, or a stand-alone directive comment (next-line, block start,
   block end, file level) in one of the two comment styles.  `render` produces the text; `spec` says which
   (line, rule) pairs are suppressed: exactly those in the scope of a directive that names the rule.
   Definitions only. *)
From TL Require Import Lib.Base Lib.GenTypes Gen.IgnoreGen Model.PyStr Model.Ignore.

Inductive style := Hash | Slashes.
Definition cm (st : style) : string := match st with Hash => "#" | Slashes => "//" end.

(* the rule list as written: nothing (bare directive = all rules) or a text such as "nesting, srp.*" *)
Inductive names := Bare | Names (txt : string).

Inductive aline :=
| LPlain (code : string)
| LSame (code : string) (st : style) (n : names)
| LNext (ind : string) (st : style) (n : names)
| LStart (ind : string) (st : style) (bracket : bool) (n : names)
| LEnd (ind : string) (st : style)
| LFile (st : style) (n : names).

Definition names_br (n : names) : string := match n with Bare => "" | Names t => "[" ++ t ++ "]" end.

Definition render_line (l : aline) : string :=
  match l with
  | LPlain c => c
  | LSame c st n => c ++ "  " ++ cm st ++ " thailint: ignore" ++ names_br n
  | LNext ind st n => ind ++ cm st ++ " thailint: ignore-next-line" ++ names_br n
  | LStart ind st br n =>
      ind ++ cm st ++ " thailint: ignore-start" ++
      match n with Bare => "" | Names t => if br then "[" ++ t ++ "]" else " " ++ t end
  | LEnd ind st => ind ++ cm st ++ " thailint: ignore-end"
  | LFile st n => cm st ++ " thailint: ignore-file" ++ names_br n
  end.

Definition nl : string := String c10 EmptyString.
Fixpoint join_lines (ls : list string) : string :=
  match ls with [] => "" | l :: r => l ++ nl ++ join_lines r end.
Definition render (a : list aline) : string := join_lines (map render_line a).

(* ---------- naming ---------- *)
(* rules named by a bracket list: comma separated, trimmed; by a space list: separated by commas / white space *)
Definition bracket_rules (n : names) : option (list string) :=
  match n with Bare => None | Names t => Some (map strip (split_on "," t)) end.
Definition start_rules (bracket : bool) (n : names) : option (list string) :=
  match n with Bare => None | Names t => Some (if bracket then map strip (split_on "," t) else tokens t) end.

(* a directive names rule r: no list at all, or some entry matches r under the documented spellings
   (Ignore.rule_matches, characterised in Proofs/IgnoreRules.v: full id, linter prefix, prefix.*, alias, any case) *)
Definition named (rules : option (list string)) (r : string) : bool :=
  match rules with None => true | Some l => existsb (rule_matches r) l end.

(* ---------- scope ---------- *)
Definition documented_header_lines : nat := 10.

Definition spec_file (a : list aline) (r : string) : bool :=
  existsb (fun l => match l with LFile _ n => named (bracket_rules n) r | _ => false end) (firstn documented_header_lines a).

Definition spec_same (a : list aline) (v : nat) (r : string) : bool :=
  match v with
  | 0 => false
  | S k => match nth_error a k with Some (LSame _ _ n) => named (bracket_rules n) r | _ => false end
  end.

Definition spec_next (a : list aline) (v : nat) (r : string) : bool :=
  match v with
  | S (S k) => match nth_error a k with Some (LNext _ _ n) => named (bracket_rules n) r | _ => false end
  | _ => false
  end.

(* the rule list of the block that is open at line v (lines are numbered from i) *)
Fixpoint open_block (a : list aline) (i v : nat) (cur : option (option (list string))) : option (option (list string)) :=
  match a with
  | [] => None
  | l :: rest =>
      match l with
      | LStart _ _ br n => open_block rest (S i) v (Some (start_rules br n))
      | LEnd _ _ => open_block rest (S i) v None
      | _ => if i =? v then cur else open_block rest (S i) v cur
      end
  end.

Definition spec_block (a : list aline) (v : nat) (r : string) : bool :=
  match open_block a 1 v None with Some rules => named rules r | None => false end.

Definition spec (repo : bool) (a : list aline) (v : nat) (r : string) : bool :=
  repo || spec_file a r || spec_block a v r || spec_next a v r || spec_same a v r.

(* ---------- the domain of the theorems ---------- *)
Definition K : string := "ignore".
Definition kfree (s : string) : bool := negb (containsb K (lower s)).
Fixpoint all_chars (p : ascii -> bool) (s : string) : bool :=
  match s with EmptyString => true | String c r => p c && all_chars p r end.
Definition no_newline (s : string) : bool := all_chars (fun c => negb (is c10 c) && negb (is c13 c)) s.

(* code: any text without line breaks that does not contain the word "ignore" in any letter case *)
Definition code_ok (c : string) : bool := kfree c && no_newline c.
(* indentation: spaces and tabs *)
Definition indent_ok (s : string) : bool := all_chars (fun c => is c32 c || is c9 c) s.
(* a bracketed rule list: non-empty, no close bracket, no line break, does not contain "ignore" *)
Definition names_ok (n : names) : bool :=
  match n with
  | Bare => true
  | Names t => nonempty t && kfree t && no_newline t && all_chars (fun c => negb (is c93 c)) t
  end.
(* a rule list after `ignore-start `: additionally a single word (commas allowed) without '#' *)
Definition wchar (c : ascii) : bool :=
  match c with Ascii _ _ _ _ _ _ _ b7 => negb b7 end && negb (ws1 c) && negb (is c35 c).
Definition word_ok (t : string) : bool := all_chars wchar t.
Definition start_names_ok (bracket : bool) (n : names) : bool :=
  names_ok n && match n with Bare => true | Names t => bracket || word_ok t end.

Definition line_ok (l : aline) : bool :=
  match l with
  | LPlain c => code_ok c
  | LSame c _ n => code_ok c && names_ok n
  | LNext ind _ n => indent_ok ind && names_ok n
  | LStart ind _ br n => indent_ok ind && start_names_ok br n
  | LEnd ind _ => indent_ok ind
  | LFile _ n => names_ok n
  end.

Definition is_code (l : aline) : bool := match l with LPlain _ | LSame _ _ _ => true | _ => false end.

(* violations are reported on code lines of the file *)
Definition target_ok (a : list aline) (v : nat) : bool :=
  match v with 0 => false | S k => match nth_error a k with Some l => is_code l | None => false end end.

Definition file_ok (a : list aline) : bool := forallb line_ok a.

(* ---------- the defect classes of the current tree (used by the confinement theorem) ---------- *)
(* the text contains none of the extra line boundaries of str.splitlines: \v \f FS GS RS, U+0085 (C2 85), U+2028/9 (E2 80 A8/A9) *)
Fixpoint no_ubreak (s : string) : bool :=
  match s with
  | EmptyString => true
  | String c r =>
      negb (brk1 c)
      && (if is c194 c then match r with String d _ => negb (is c133 d) | _ => true end else true)
      && (if is c226 c then match r with String d (String e _) => negb (is c128 d && (is c168 e || is c169 e)) | _ => true end else true)
      && no_ubreak r
  end.

(* the defect classes that remain after the fix: commits: a form feed etc. in the text (flag 0), a bracketed rule list on a block
   start (flag 6).  The classes of the repaired flags 1-5 are empty. *)
Definition line_avoids (q : iquirks) (l : aline) : bool :=
  (negb (q_splitlines_unicode q) || no_ubreak (render_line l))
  && match l with
     | LStart _ _ br n => negb (q_start_rules_from_code q) || negb br || match n with Bare => true | _ => false end
     | _ => true
     end.

(* the input avoids the defect class of every flag that is on in q (all flags off: no restriction) *)
Definition avoids (q : iquirks) (a : list aline) : bool := forallb (line_avoids q) a.
