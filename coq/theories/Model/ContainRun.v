(* Model/ContainRun.v — judging correspondence cases of C11 inside the kernel's VM.
   Rules are given as finite tables (injected stub rules); the harness gets back, per case,
   [impl = spec ; model ideal = spec ; impl = model q for each candidate q]. *)
From TL Require Import Lib.Base Lib.GenTypes Model.ContainTypes Gen.ContainGen Model.Contain.

(* ---------- stub rules as tables ---------- *)
Inductive fin_kind := FEcho | FFail (e : exc) | FFailIf (n : nat) (e : exc).

Record stub := {
  s_id : string;
  s_res : list (string * outcome (list nat));   (* file -> lines reported | failure; absent = reports nothing *)
  s_contrib : list (string * list nat);         (* file -> data remembered for finalize *)
  s_fin : fin_kind;
  s_cross : bool                                (* overrides finalize(); a plain stub stores nothing and inherits finalize() *)
}.

Fixpoint lookup {A} (k : string) (l : list (string * A)) : option A :=
  match l with [] => None | (a, b) :: t => if String.eqb k a then Some b else lookup k t end.

Definition rule_of_stub (s : stub) : rule :=
  {| r_id := s_id s;
     r_res := fun p => match lookup p (s_res s) with
                       | Some (Ok lines) => Ok (map (fun n => (s_id s, p, n)) lines)
                       | Some (Fail e) => Fail e
                       | None => Ok []
                       end;
     r_contrib := fun p => if s_cross s then match lookup p (s_contrib s) with Some ns => map (fun n => (p, n)) ns | None => [] end else [];
     r_cross := s_cross s;
     r_final := fun store =>
                  if negb (s_cross s) then Ok [] else
                  let echo := Ok (map (fun ev : evid => (s_id s, fst ev, snd ev)) store) in
                  match s_fin s with
                  | FEcho => echo
                  | FFail e => Fail e
                  | FFailIf n e => if existsb (fun ev : evid => snd ev =? n) store then Fail e else echo
                  end |}.

(* ---------- observations ---------- *)
(* crashed with (class name) | completed ; flat violations ; H1 records *)
Definition obs : Type := (option string * list viol * list logrec)%type.

Definition observe (r : run_result * list logrec) : obs :=
  match fst r with
  | Crashed e => (Some (exc_name e), [], snd r)
  | Completed cs fs => (None, flat_viols cs fs, snd r)
  end.

Definition viol_eqb (a b : viol) : bool :=
  let '(r1, p1, n1) := a in let '(r2, p2, n2) := b in String.eqb r1 r2 && String.eqb p1 p2 && (n1 =? n2).
Definition log_eqb (a b : logrec) : bool :=
  let '(w1, r1, p1, e1) := a in let '(w2, r2, p2, e2) := b in
  String.eqb w1 w2 && String.eqb r1 r2 && String.eqb p1 p2 && String.eqb e1 e2.
Definition ostr_eqb (a b : option string) : bool :=
  match a, b with None, None => true | Some x, Some y => String.eqb x y | _, _ => false end.

(* outcome and violations only (what the property speaks about) *)
Definition same_result (a b : obs) : bool :=
  ostr_eqb (fst (fst a)) (fst (fst b)) && ms_eqb viol_eqb (snd (fst a)) (snd (fst b)).
(* plus the swallowed-failure records *)
Definition same_obs (a b : obs) : bool := same_result a b && ms_eqb log_eqb (snd a) (snd b).

(* a crashed PARALLEL run: which of several escaping exceptions surfaces first, and what the other workers have
   logged by then, depends on the completion order of the pool; only "crashed" is compared *)
Definition same_obs_mode (mode : nat) (a b : obs) : bool :=
  match mode, fst (fst a), fst (fst b) with
  | S _, Some _, Some _ => true
  | _, _, _ => same_obs a b
  end.

Definition with_flag (i : nat) (q : cquirks) : cquirks :=
  match i with
  | 0 => Build_cquirks false (q_finalize_unguarded q)
  | _ => Build_cquirks (q_value_error_escapes q) false
  end.
Definition candidates (q : cquirks) : list cquirks := q :: map (fun i => with_flag i q) [0; 1] ++ [ideal].

(* mode 0 = Orchestrator.lint_files ; 1 = worker path of lint_files_parallel *)
Definition run_mode (mode : nat) (q : cquirks) (rules : list rule) (files : list string) :=
  match mode with 0 => run q rules files | _ => run_par q rules files end.

(* what the property demands: in both modes the specified cells and the cross-file findings of the whole file set
   (that the parallel run finalizes on the same evidence as the sequential one is also the subject of C07) *)
Definition spec_mode (mode : nat) (rules : list rule) (files : list string) : obs :=
  (None, flat_viols (spec_cells rules files) (spec_fins rules files), []).

(* every scenario is in the property's domain: a failing finalize() is a modelled case (flag q_finalize_unguarded) *)
Definition in_domain (mode : nat) (rules : list rule) (files : list string) : bool := true.

(* [in domain ; impl = spec ; model ideal = spec ; impl = model c for each candidate c] *)
Definition judge_run (q : cquirks) (mode : nat) (stubs : list stub) (files : list string) (impl : obs) : list bool :=
  let rules := map rule_of_stub stubs in
  let spec := spec_mode mode rules files in
  in_domain mode rules files
  :: same_result impl spec
  :: same_result (observe (run_mode mode ideal rules files)) spec
  :: map (fun c => same_obs_mode mode impl (observe (run_mode mode c rules files))) (candidates q).

(* ---------- language detection ---------- *)
Definition judge_detect (name : string) (present decodes : bool) (content impl : string) : list bool :=
  [String.eqb impl (detect name present decodes content); smem impl detect_range].

(* ---------- exception classes: the MRO table against CPython ---------- *)
Definition mro_table : list (string * list string) := map (fun e => (exc_name e, mro e)) all_exc.
Fixpoint strs_eqb (a b : list string) : bool :=
  match a, b with
  | [], [] => true
  | x :: a', y :: b' => String.eqb x y && strs_eqb a' b'
  | _, _ => false
  end.
Definition judge_mro (given : list (string * list string)) : list bool :=
  map (fun e => match lookup (exc_name e) given with Some m => strs_eqb m (mro e) | None => false end) all_exc.

(* ---------- cross-file rules: which named results are in the store after check() ---------- *)
(* failing : analyses that raise (with what); every other analysis n yields the single datum (n, 1) *)
Definition judge_staged (ops : list xop) (failing : list (string * exc)) (impl_raised : option string)
           (impl_stored : list string) : list bool :=
  let an := fun n => match lookup n failing with Some e => Fail e | None => Ok [(n, 1)] end in
  let r := run_ops ops an [] [] in
  [ostr_eqb impl_raised (match fst r with Ok _ => None | Fail e => Some (exc_name e) end);
   strs_eqb impl_stored (map fst (snd r))].
