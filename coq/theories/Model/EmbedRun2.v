(* Model/EmbedRun2.v — judging C19 cases for all modelled detectors at once (print, string-concat, stateless-class ...).
   Per case a list of boolean lists, one per detector, in the order  print ; concat ; stateless ; (more) ; domains:
     print:     [impl = model ; law holds for the model]
     others:    impl = model q  for q = claimed vector, claimed minus each flag, ideal ;  law holds for model q, same order
     domains:   the embedding lies in the domain of the detector's locality / renaming theorem *)
From TL Require Import Lib.Base Lib.GenTypes Gen.EmbedGen Model.Embed Model.PrintStmt Model.PerfConcat Model.StatelessCls
     Model.MethodProp Gen.Embed2Gen Model.CondVerbose Model.RegexLoop Model.EmbedRun.

Definition sq_without (i : nat) (q : squirks) : squirks :=
  match i with
  | 0 => mkSQ false (q_sl_exempt_mixin_name q) (q_sl_lookup_by_name q)
  | 1 => mkSQ (q_sl_exempt_test_name q) false (q_sl_lookup_by_name q)
  | _ => mkSQ (q_sl_exempt_test_name q) (q_sl_exempt_mixin_name q) false
  end.
Definition sq_candidates (q : squirks) : list squirks := [q; sq_without 0 q; sq_without 1 q; sq_without 2 q; s_ideal].
Definition sl_outs (q : squirks) (file : list ast) : list (list rep) := map (fun c => stateless_reports c file) (sq_candidates q).
Definition sl_msgs (o : list rep) : list irep := map (fun r => match r with (l, c, _, _) => (l, c, stateless_message r) end) o.

Definition mq_candidates (q : mquirks) : list mquirks := [q; mkMQ false; m_ideal].
Definition mp_outs (q : mquirks) (file : list ast) : list (list rep) := map (fun c => method_reports c file) (mq_candidates q).
(* message texts of this rule are not modelled: class and method name stand for the message *)
Definition mp_msgs (o : list rep) : list irep := map (fun r => match r with (l, c, p, x) => (l, c, (p ++ "|" ++ x)%string) end) o.

(* conditional-verbose: the implementation prints the constant column cv_column *)
Definition vq_candidates (q : vquirks) : list vquirks := [q; mkVQ false; v_ideal].
Definition cv_outs (q : vquirks) (file : list ast) : list (list rep) := map (fun c => cv_reports c file) (vq_candidates q).
Definition cv_msgs (o : list rep) : list irep := map (fun r => match r with (l, _, _, _) => (l, cv_column, cv_message_of r) end) o.

(* regex-in-loop *)
Definition rq_candidates (q : rquirks) : list rquirks := [q; mkRQ false; r_ideal].
Definition rx_outs (q : rquirks) (file : list ast) : list (list rep) := map (fun c => rx_reports c file) (rq_candidates q).
Definition rx_msgs (o : list rep) : list irep := map (fun r => match r with (l, c, _, _) => (l, c, rx_message_of r) end) o.

Record allouts := mkO { o_pr : list rep; o_cc : list (list rep); o_sl : list (list rep); o_mp : list (list rep); o_cv : list (list rep);
                        o_rx : list (list rep) }.
Definition all_outs (qc : cquirks) (qs : squirks) (qm : mquirks) (qv : vquirks) (qr : rquirks) (file : list ast) : allouts :=
  mkO (print_default file) (outs qc file) (sl_outs qs file) (mp_outs qm file) (cv_outs qv file) (rx_outs qr file).

(* under a renaming, the identifiers a report carries are renamed: `ren` says which components are identifiers *)
Definition renameR2 (sg : string -> string) (r : rep) : rep := match r with (l, c, p, x) => (l, c, sg p, sg x) end.
Definition predicted2 (ren : (string -> string) -> rep -> rep) (e : emb) (iso fill : list rep) : list rep :=
  match e with
  | ERename sg => map (ren (sigma_of sg)) iso
  | _ => predicted e iso fill
  end.
Definition det_bits_r (ren : (string -> string) -> rep -> rep) (e : emb) (msgs : list rep -> list irep) (impl : list irep)
           (xo io fo : list (list rep)) : list bool :=
  map (fun o => same_i impl (msgs o)) xo ++ zip3 (fun o i f => same_reps o (predicted2 ren e i f)) xo io fo.
Definition det_bits := det_bits_r renameR.

Definition sl_names : list string :=
  sl_constructor_names ++ [sl_self_name; sl_object_name] ++ sl_abc_names ++ sl_test_base_names.
(* a renaming leaves the method-property name tests alone: dunder / action-verb status of every renamed name is kept *)
Definition mp_names_kept (sg : list (string * string)) : bool :=
  forallb (fun p => Bool.eqb (is_dunder (fst p)) (is_dunder (snd p)) && Bool.eqb (is_action_verb (fst p)) (is_action_verb (snd p))) sg.
(* renamings in the domain of the regex renaming theorem: one-to-one on the identifiers of the fragment, new names fresh, none of
   the fixed names (re, compile, the re functions) touched or produced *)
Definition rx_rename_dom (sg : list (string * string)) (frag : list ast) : bool :=
  avoids rx_fixed_names sg && nodupb (map snd sg) && forallb (fun p => negb (smem (snd p) (flat_map idents frag))) sg.
Definition domains (e : emb) (frag : list ast) : list bool :=
  in_domain e frag
  ++ match e with
     | EPlug c => [sl_ctx_ok c; mp_ctx_ok c; cv_ctx_ok c; rx_ctx_ok c]
     | ECopies _ _ => [true; true; true; true]
     | ERename sg => [avoids sl_names sg; avoids [mp_self_name] sg && mp_names_kept sg; cv_names_kept sg && avoids [cv_get_name] sg;
                      rx_rename_dom sg frag]
     end.

Definition judge_embed2 (qc : cquirks) (qs : squirks) (qm : mquirks) (qv : vquirks) (qr : rquirks) (e : emb) (frag : list ast) (iso : allouts)
           (impl_pr impl_cc impl_sl impl_mp impl_cv impl_rx : list irep) : list (list bool) :=
  let X := embed e frag in
  let xo := all_outs qc qs qm qv qr X in
  let fo := all_outs qc qs qm qv qr (filler_of e) in
  [ [same_i impl_pr (pr_msgs (o_pr xo)); same_reps (o_pr xo) (predicted e (o_pr iso) (o_pr fo))];
    det_bits e cc_msgs impl_cc (o_cc xo) (o_cc iso) (o_cc fo);
    det_bits e sl_msgs impl_sl (o_sl xo) (o_sl iso) (o_sl fo);
    det_bits_r renameR2 e mp_msgs impl_mp (o_mp xo) (o_mp iso) (o_mp fo);
    det_bits e cv_msgs impl_cv (o_cv xo) (o_cv iso) (o_cv fo);
    det_bits e rx_msgs impl_rx (o_rx xo) (o_rx iso) (o_rx fo);
    domains e frag ].

Definition judge_iso2 (qc : cquirks) (qs : squirks) (qm : mquirks) (qv : vquirks) (qr : rquirks) (iso : allouts)
           (impl_pr impl_cc impl_sl impl_mp impl_cv impl_rx : list irep)
  : list (list bool) :=
  [ [same_i impl_pr (pr_msgs (o_pr iso))];
    map (fun o => same_i impl_cc (cc_msgs o)) (o_cc iso);
    map (fun o => same_i impl_sl (sl_msgs o)) (o_sl iso);
    map (fun o => same_i impl_mp (mp_msgs o)) (o_mp iso);
    map (fun o => same_i impl_cv (cv_msgs o)) (o_cv iso);
    map (fun o => same_i impl_rx (rx_msgs o)) (o_rx iso) ].
