(* Model/CfgMerge.v — executable model of `thailint init-config` on an existing file
   (src/cli/config_merge.py: extract_linter_sections, identify_missing_sections,
   merge_config_sections, perform_merge; src/cli/config.py: _generate_config_content), at the level
   of the *list of lines* of the files (content.split("\n")), plus the line-structured YAML subset
   ("block documents": top-level `key:` lines with indented / dash-led bodies, comments, blank lines,
   an optional `---`; and single-line flow-style roots) in which validity and "the settings in
   effect" are stated.  All literals come from Gen/CfgToolGen.v.  No proofs in this file. *)
From TL Require Import Lib.Base Lib.GenTypes Model.CfgTypes Gen.CfgToolGen.
From Coq Require Import NArith.

(* ------------------------------------------------------------------ quirks *)
(* true = "do what the code does", false = "do what the property demands". *)
Record cquirks := {
  q_missing_by_raw_key  : bool;  (* the "is this section missing" test is the one found in the source: originally the hyphenated
                                    name had to be literally a top-level key (the loaders treat `magic_numbers` and
                                    `magic-numbers` as the same key); Gen.missing_by_normalised_key records the repair *)
  q_append_to_flow_root : bool;  (* block-style text is spliced into a file whose root mapping is in flow style *)
  q_insert_mid_entry    : bool;  (* sections are inserted at the GLOBAL SETTINGS marker even when the marker comment
                                    stands inside an entry (or before the `---` line) *)
  q_cli_raw_key         : bool;  (* `config set/get` treat the key as the source does: originally as typed although loading normalises
                                    file keys; Gen.set_normalises_key / get_normalises_key record the repair *)
}.
Definition ideal : cquirks := Build_cquirks false false false false.

(* ------------------------------------------------------------------ characters and lines *)
Definition is_ws (c : ascii) : bool :=
  let n := N_of_ascii c in (((9 <=? n) && (n <=? 13)) || ((28 <=? n) && (n <=? 32)))%N.   (* str.isspace on ASCII *)

(* str.rstrip() of one line *)
Fixpoint rstrip (s : string) : string :=
  match s with
  | EmptyString => EmptyString
  | String c r => match rstrip r with
                  | EmptyString => if is_ws c then EmptyString else String c EmptyString
                  | r' => String c r'
                  end
  end.
Fixpoint lstrip (s : string) : string :=
  match s with String c r => if is_ws c then lstrip r else s | EmptyString => EmptyString end.

Definition is_blank (l : string) : bool := match rstrip l with EmptyString => true | _ => false end.
(* a YAML comment line: spaces, then '#' *)
Fixpoint is_comment (l : string) : bool :=
  match l with String c r => if Ascii.eqb c " " then is_comment r else Ascii.eqb c "#" | EmptyString => false end.
Definition insignificant (l : string) : bool := is_blank l || is_comment l.
(* the significant lines: what a YAML parser sees of a block document in the subset *)
Definition sig_lines (ls : list string) : list string := map rstrip (filter (fun l => negb (insignificant l)) ls).

(* no control characters (tabs, CR, ...): the subset is plain printable text; bytes >= 128 are allowed *)
Definition clean_char (c : ascii) : bool := let n := N_of_ascii c in ((32 <=? n) && negb (n =? 127))%N.
Fixpoint line_clean (l : string) : bool :=
  match l with String c r => clean_char c && line_clean r | EmptyString => true end.

(* continuation of the entry above: indented, or a block-sequence item written at column 0 *)
Definition is_cont (l : string) : bool :=
  match l with
  | String " " _ => true
  | String "-" EmptyString => true
  | String "-" (String " " _) => true
  | _ => false
  end.
Definition toplevel (l : string) : bool := negb (is_cont l).

(* top-level lines with the continuation lines that follow them; second component: continuation
   lines in front of the first top-level line *)
Fixpoint group (ls : list string) : list (string * list string) * list string :=
  match ls with
  | [] => ([], [])
  | l :: r => let '(gs, orph) := group r in
              if toplevel l then ((l, orph) :: gs, []) else (gs, l :: orph)
  end.

(* ------------------------------------------------------------------ keys *)
Definition in_range (lo hi : N) (c : ascii) : bool := let n := N_of_ascii c in ((lo <=? n) && (n <=? hi))%N.
Definition is_letter (c : ascii) : bool := in_range 65 90 c || in_range 97 122 c.
Definition is_digit (c : ascii) : bool := in_range 48 57 c.
Definition is_key_char (c : ascii) : bool := is_letter c || is_digit c || Ascii.eqb c "_" || Ascii.eqb c "-".
Definition lower_char (c : ascii) : ascii := if in_range 65 90 c then ascii_of_N (N_of_ascii c + 32) else c.
Fixpoint lower (s : string) : string := match s with String c r => String (lower_char c) (lower r) | EmptyString => EmptyString end.

Fixpoint take_key (s : string) : string * string :=
  match s with
  | String c r => if is_key_char c then let '(k, rest) := take_key r in (String c k, rest) else (EmptyString, s)
  | EmptyString => (EmptyString, EmptyString)
  end.
(* plain scalars PyYAML would not load as strings are not keys of the subset *)
Definition yaml_special : list string := ["true"; "false"; "yes"; "no"; "on"; "off"; "null"].
Definition key_ok (k : string) : bool :=
  match k with String c _ => is_letter c && negb (smem (lower k) yaml_special) | EmptyString => false end.
(* the inline value is opaque.  (Block scalar openers `|` `>` are admitted since phase 3: the lines of a block scalar are part
   of the entry's body like any other; what the model does NOT see is that blank / `#` lines and trailing spaces inside a block
   scalar are content - covered at the byte level by the raw-text theorem and validated against PyYAML.) *)
Definition rest_ok (v : string) : bool := true.
(* what follows the key: `:` at the end of the line, or `: value` *)
Definition after_key (k r : string) : option (string * string) :=
  match r with
  | String c r1 =>
    if Ascii.eqb c ":" then
      match r1 with
      | EmptyString => Some (k, EmptyString)
      | String d v => if Ascii.eqb d " " then Some (k, v) else None
      end
    else None
  | EmptyString => None
  end.
Definition is_quote (c : ascii) : bool := Ascii.eqb c """" || Ascii.eqb c "'".
(* `key:`, `key: value`, `"key": value`, 'key': value  (key, inline value, was the key quoted) *)
Definition key_split (l : string) : option (string * string * bool) :=
  match l with
  | String c r =>
    if is_quote c then
      let '(k, r1) := take_key r in
      match r1 with
      | String c2 r2 => if Ascii.eqb c2 c then option_map (fun kv => (kv, true)) (after_key k r2) else None
      | EmptyString => None
      end
    else let '(k, r1) := take_key l in option_map (fun kv => (kv, false)) (after_key k r1)
  | EmptyString => None
  end.

Definition entry := (string * string * list string)%type.   (* key, inline value, significant body lines *)
Definition ekey (e : entry) : string := fst (fst e).
(* a quoted key is a string whatever it spells (`"yes":`, `"007":`); a plain one must not be a YAML keyword or number *)
Definition key_admissible (k : string) (quoted : bool) : bool :=
  if quoted then match k with EmptyString => false | _ => true end else key_ok k.
Definition parse_entry (g : string * list string) : option entry :=
  match key_split (fst g) with
  | Some (k, v, qd) => if key_admissible k qd && rest_ok v then Some (k, v, snd g) else None
  | None => None
  end.
Fixpoint parse_entries (gs : list (string * list string)) : option (list entry) :=
  match gs with
  | [] => Some []
  | g :: r => match parse_entry g, parse_entries r with Some e, Some es => Some (e :: es) | _, _ => None end
  end.

(* keys at depth 1 of a one-line flow mapping `{k: v, k2: {..}, k3: [..]}` (no quotes in the subset);
   None when the brackets do not balance or text follows the closing brace *)
Fixpoint flow_scan (s : string) (depth : nat) (collecting : bool) (acc : string) (closed : bool) : option (list string) :=
  match s with
  | EmptyString => if closed && (depth =? 0) then Some [] else None
  | String c r =>
    if closed then None else
    if Ascii.eqb c "{" || Ascii.eqb c "[" then
      (if depth =? 0 then (if Ascii.eqb c "{" then flow_scan r 1 true EmptyString false else None)
       else flow_scan r (S depth) false EmptyString false)
    else if Ascii.eqb c "}" || Ascii.eqb c "]" then
      match depth with
      | 0 => None
      | 1 => if Ascii.eqb c "}" then flow_scan r 0 false EmptyString true else None
      | S d => flow_scan r d false EmptyString false
      end
    else if (depth =? 1) && Ascii.eqb c "," then flow_scan r 1 true EmptyString false
    else if (depth =? 1) && collecting && Ascii.eqb c ":" then
      option_map (cons (rstrip acc)) (flow_scan r 1 false EmptyString false)
    else if (depth =? 1) && collecting then
      (if Ascii.eqb c " " && match acc with EmptyString => true | _ => false end then flow_scan r 1 true acc false
       else flow_scan r 1 true (acc ++ String c EmptyString)%string false)
    else if depth =? 0 then None
    else flow_scan r depth collecting acc false
  end.
Definition flow_keys (l : string) : option (list string) :=
  match flow_scan l 0 false EmptyString false with
  | Some ks => if forallb key_ok ks && forallb (fun k => match take_key k with (_, EmptyString) => true | _ => false end) ks then Some ks else None
  | None => None
  end.

(* ------------------------------------------------------------------ the YAML subset *)
Inductive root :=
| RBlock (es : list entry)     (* block mapping (possibly empty: only comments) *)
| RFlow (keys : list string)   (* one-line flow mapping, or block mapping indented as a whole *)
| ROther.                      (* not in the subset / not valid *)

Definition docstart : string := "---".
Definition strip_docstart (gs : list (string * list string)) : list (string * list string) :=
  match gs with (l, []) :: r => if String.eqb l docstart then r else gs | _ => gs end.

(* a block document on its significant lines *)
Definition analyse_sig (S : list string) : root :=
  let '(gs, orph) := group S in
  match orph with
  | _ :: _ => ROther
  | [] =>
    match strip_docstart gs with
    | [] => RBlock []
    | (l, b) :: r =>
      if prefix "{" l then
        match b, r with
        | [], [] => match flow_keys l with Some ks => RFlow ks | None => ROther end
        | _, _ => ROther
        end
      else match parse_entries ((l, b) :: r) with Some es => RBlock es | None => ROther end
    end
  end.

(* a block mapping indented as a whole (valid YAML; the root's keys stand at column n > 0): the significant lines after the
   optional `---`, with the common indentation removed - None when the first one is not indented or a line is indented less *)
Fixpoint indent_of (l : string) : nat :=
  match l with String c r => if Ascii.eqb c " " then S (indent_of r) else 0 | EmptyString => 0 end.
Fixpoint drop_spaces (n : nat) (l : string) : option string :=
  match n with
  | 0 => Some l
  | S k => match l with String c r => if Ascii.eqb c " " then drop_spaces k r else None | EmptyString => None end
  end.
Fixpoint dedent (n : nat) (ls : list string) : option (list string) :=
  match ls with
  | [] => Some []
  | l :: r => match drop_spaces n l, dedent n r with Some l', Some r' => Some (l' :: r') | _, _ => None end
  end.
Definition indented (S : list string) : option (list string) :=
  let S' := match S with l :: r => if String.eqb l docstart then r else S | [] => [] end in
  match S' with
  | l :: _ => if 0 <? indent_of l then dedent (indent_of l) S' else None
  | [] => None
  end.

(* RFlow stands for every root that is a mapping but not a column-0 block mapping - flow style, or block style indented as a
   whole: only its keys are analysed; column-0 block text cannot be appended to such a file *)
Definition analyse (E : list string) : root :=
  if negb (forallb line_clean E) then ROther else
  match indented (sig_lines E) with
  | Some D => match analyse_sig D with RBlock es => RFlow (map ekey es) | _ => ROther end
  | None => analyse_sig (sig_lines E)
  end.

Definition root_keys (r : root) : list string :=
  match r with RBlock es => map ekey es | RFlow ks => ks | ROther => [] end.

(* key normalisation of the loaders (src/core/config_parser.py::_normalize_config_keys) *)
Fixpoint norm (k : string) : string :=
  match k with String c r => String (if Ascii.eqb c norm_from then norm_to else c) (norm r) | EmptyString => EmptyString end.

(* the value in effect for a normalised key: the last top-level entry whose key normalises to it
   (PyYAML keeps the last duplicate; _normalize_config_keys lets the last spelling win) *)
Fixpoint eff (nk : string) (es : list entry) : option (string * list string) :=
  match es with
  | [] => None
  | e :: r => match eff nk r with
              | Some x => Some x
              | None => if String.eqb (norm (ekey e)) nk then Some (snd (fst e), snd e) else None
              end
  end.

(* ------------------------------------------------------------------ template -> sections *)
(* str.replace, left to right, non-overlapping (from is non-empty) *)
Fixpoint replace_go (from to s : string) (skip : nat) : string :=
  match s with
  | EmptyString => EmptyString
  | String c r =>
    match skip with
    | S k => replace_go from to r k
    | 0 => if prefix from s then (to ++ replace_go from to r (String.length from - 1))%string
           else String c (replace_go from to r 0)
    end
  end.
Definition replace_all (from to s : string) : string :=
  match from with EmptyString => s | _ => replace_go from to s 0 end.
Definition apply_reps (reps : list (string * string)) (l : string) : string :=
  fold_left (fun acc r => replace_all (fst r) (snd r) acc) reps l.
(* _generate_config_content: the placeholders contain no newline, so replacing per line is replacing in the text *)
Definition gen_content (reps : list (string * string)) : list string := map (apply_reps reps) template_lines.

Fixpoint strip_suffix (suf l : string) : option string :=
  if String.eqb l suf then Some EmptyString
  else match l with EmptyString => None | String c r => option_map (String c) (strip_suffix suf r) end.

Definition name_re_ok (n : string) : bool :=   (* [a-z][a-z0-9-]* *)
  match n with
  | String c r => in_range 97 122 c &&
                  (fix go (s : string) : bool := match s with
                     | String d t => (in_range 97 122 d || is_digit d || Ascii.eqb d "-") && go t
                     | EmptyString => true end) r
  | EmptyString => false
  end.
Definition section_name (l : string) : option string :=
  match strip_suffix section_name_suffix l with
  | Some n => if name_re_ok n && smem n linter_sections then Some n else None
  | None => None
  end.
Definition is_header_line (l : string) : bool := prefix section_header_prefix l.
Definition is_buffer_line (l : string) : bool :=
  let s := lstrip l in prefix buffer_comment_prefix s || match rstrip s with EmptyString => true | _ => false end.

Fixpoint upd {A} (k : string) (v : A) (d : list (string * A)) : list (string * A) :=
  match d with
  | [] => [(k, v)]
  | (k', v') :: r => if String.eqb k' k then (k, v) :: r else (k', v') :: upd k v r
  end.
Fixpoint lookup {A} (k : string) (d : list (string * A)) : option A :=
  match d with [] => None | (k', v) :: r => if String.eqb k' k then Some v else lookup k r end.

Record xstate := { x_secs : list (string * list string); x_cur : option string; x_content : list string; x_buf : list string }.
Definition x_save (st : xstate) : list (string * list string) :=
  match x_cur st, x_content st with
  | Some n, _ :: _ => upd n (x_content st) (x_secs st)
  | _, _ => x_secs st
  end.
Definition x_step (st : xstate) (l : string) : xstate :=
  if is_header_line l then Build_xstate (x_save st) None [] [l]
  else match section_name l with
       | Some n => Build_xstate (x_save st) (Some n) (x_buf st ++ [l]) []
       | None =>
         match x_cur st with
         | Some _ => Build_xstate (x_secs st) (x_cur st) (x_content st ++ [l]) (x_buf st)
         | None => if is_buffer_line l then Build_xstate (x_secs st) None (x_content st) (x_buf st ++ [l])
                   else Build_xstate (x_secs st) None (x_content st) []
         end
       end.
(* extract_linter_sections: name -> lines of the section text, in dict order *)
Definition extract (ls : list string) : list (string * list string) :=
  x_save (fold_left x_step ls (Build_xstate [] None [] [])).

(* ------------------------------------------------------------------ text splice *)
(* lines of a ++ "\n"*n ++ b, for line lists a b of two texts *)
Definition glue (n : nat) (a b : list string) : list string :=
  match n with
  | 0 => match b with [] => a | b0 :: br => removelast a ++ [(last a EmptyString ++ b0)%string] ++ br end
  | S k => a ++ repeat EmptyString k ++ b
  end.
Fixpoint join_texts (n : nat) (ts : list (list string)) : list string :=
  match ts with [] => [EmptyString] | [t] => t | t :: r => glue n t (join_texts n r) end.

Fixpoint rstrip_lines (ls : list string) : list string :=
  match ls with
  | [] => []
  | l :: r => match rstrip_lines r with
              | [] => if is_blank l then [] else [rstrip l]
              | r' => l :: r'
              end
  end.
(* lines of content.rstrip() *)
Definition rstrip_doc (ls : list string) : list string := match rstrip_lines ls with [] => [EmptyString] | x => x end.

(* content.find(marker): index of the line that ends with the first marker line, character position, text before it on that line *)
Fixpoint find_marker (ls : list string) (off : nat) : option (nat * nat * string) :=
  match ls with
  | l :: r =>
    let next := match find_marker r (off + String.length l + 1) with Some (i, pos, p) => Some (S i, pos, p) | None => None end in
    match strip_suffix marker_line1 l, r with
    | Some p, l2 :: _ => if prefix marker_line2_prefix l2 then Some (0, off + String.length p, p) else next
    | _, _ => next
    end
  | [] => None
  end.

(* may sections be inserted in front of the remainder of the file?  the next significant line must open a new entry *)
Definition boundary_ok (rem : list string) : bool :=
  match sig_lines rem with [] => true | l :: _ => toplevel l && negb (String.eqb l docstart) end.

Definition append_text (E T : list string) : list string :=
  glue append_tail_newlines (glue append_sep_newlines (rstrip_doc E) T) [EmptyString].
Definition insert_text (E T : list string) (i : nat) (p : string) : list string :=
  glue insert_sep_newlines (glue 0 (firstn i E ++ [p]) T) (marker_line1 :: skipn (S i) E).

(* merge_config_sections for a non-empty dict of missing sections whose joined text has lines T *)
Definition merge_lines (q : cquirks) (E T : list string) : list string :=
  match find_marker E 0 with
  | Some (i, pos, p) =>
    if cmp_nat insert_pos_cmp pos insert_pos_bound && (q_insert_mid_entry q || boundary_ok (skipn (S i) E))
    then insert_text E T i p else append_text E T
  | None => append_text E T
  end.

(* ------------------------------------------------------------------ init-config on an existing file *)
Inductive init_result :=
| Unparsable                                  (* exit 1, "Could not parse", file untouched *)
| Refused                                     (* (ideal only) exit 1, file untouched: root style cannot take block text *)
| AlreadyComplete                             (* exit 0, file untouched *)
| Merged (names : list string) (R : list string).   (* exit 0, file rewritten *)

(* the membership test of identify_missing_sections: with the flag on it is the test found in the source (literal keys in
   the original code, normalised keys since the repair), with the flag off the normalised test the property demands *)
Definition raw_missing_test (q : cquirks) : bool := q_missing_by_raw_key q && negb missing_by_normalised_key.
Definition present (q : cquirks) (keys : list string) (n : string) : bool :=
  if raw_missing_test q then smem n keys else smem (norm n) (map norm keys).

Definition init_from (q : cquirks) (secs : list (string * list string)) (E : list string) (rE : root) : init_result :=
  let go (keys : list string) (isblock : bool) :=
    let missing := filter (fun s => negb (present q keys (fst s))) secs in
    match missing with
    | [] => AlreadyComplete
    | _ => if negb isblock && negb (q_append_to_flow_root q) then Refused
           else Merged (map fst missing) (merge_lines q E (join_texts section_join_newlines (map snd missing)))
    end in
  match rE with
  | ROther => Unparsable
  | RBlock es => go (map ekey es) true
  | RFlow ks => go ks false
  end.
Definition init_with (q : cquirks) (secs : list (string * list string)) (E : list string) : init_result :=
  init_from q secs E (analyse E).

Definition preset_sections (reps : list (string * string)) : list (string * list string) := extract (gen_content reps).

Definition init_config (q : cquirks) (preset : string) (E : list string) : init_result :=
  match lookup preset presets with
  | Some reps => init_with q (preset_sections reps) E
  | None => Unparsable
  end.

(* ------------------------------------------------------------------ specification (on outputs) *)
Fixpoint list_eqb {A} (eqb : A -> A -> bool) (a b : list A) : bool :=
  match a, b with
  | [], [] => true
  | x :: a', y :: b' => eqb x y && list_eqb eqb a' b'
  | _, _ => false
  end.
Definition lines_eqb := list_eqb String.eqb.
Definition val_eqb (a b : option (string * list string)) : bool :=
  match a, b with
  | None, None => true
  | Some (r1, b1), Some (r2, b2) => String.eqb r1 r2 && lines_eqb b1 b2
  | _, _ => false
  end.
Fixpoint subseqb (a b : list string) : bool :=
  match a, b with
  | [], _ => true
  | _ :: _, [] => false
  | x :: a', y :: b' => if String.eqb x y then subseqb a' b' else subseqb a b'
  end.
Fixpoint nodupb (l : list string) : bool := match l with [] => true | x :: r => negb (smem x r) && nodupb r end.
Definition nonblank (ls : list string) : list string := filter (fun l => negb (String.eqb l EmptyString)) (map rstrip ls).

(* The specification bits take the analysed roots as arguments (so that a judge can share them);
   the plain versions analyse the files themselves. *)
(* 1. the result is valid YAML: it is in the subset and each of its entries (key line + body) is, literally, an
      entry of the old file or of the template - the files whose entries are known to be well-formed.  (Whether a
      *new* combination of key line and body is well-formed is a question for a YAML parser, not for this model.) *)
Definition struct_r (rR : root) : bool := match rR with ROther => false | _ => true end.
Definition entry_eqb (a b : entry) : bool :=
  String.eqb (ekey a) (ekey b) && String.eqb (snd (fst a)) (snd (fst b)) && lines_eqb (snd a) (snd b).
Definition block_entries (r : root) : list entry := match r with RBlock es => es | _ => [] end.
Definition known_entries_r (rE rR rT : root) : bool :=
  match rR with
  | RBlock b => forallb (fun e => existsb (entry_eqb e) (block_entries rE ++ block_entries rT)) b
  | RFlow ks => match rE with RFlow ks' => lines_eqb ks ks' | _ => false end
  | ROther => false
  end.
Definition valid_r (rE rR rT : root) : bool := struct_r rR && known_entries_r rE rR rT.
Definition valid_b (reps : list (string * string)) (E R : list string) : bool :=
  valid_r (analyse E) (analyse R) (analyse (gen_content reps)).
(* 2. every non-blank line of the old file (settings and comments) is still there, in order *)
Definition preserved_b (E R : list string) : bool := subseqb (nonblank E) (nonblank R).
(* 3. every pre-existing setting keeps its value and stays in effect: looking a key of E up the way the
      loaders do (normalised, last one wins) gives the same entry before and after *)
Definition in_effect_r (E R : list string) (rE rR : root) : bool :=
  lines_eqb R E ||
  match rE, rR with
  | RBlock a, RBlock b => forallb (fun e => val_eqb (eff (norm (ekey e)) b) (eff (norm (ekey e)) a)) a
  | _, _ => false
  end.
Definition in_effect_b (E R : list string) : bool := in_effect_r E R (analyse E) (analyse R).
(* 4. only missing linter sections are added: the new top-level keys are distinct linter sections that E did
      not have under either spelling, and no key disappeared *)
Definition added_keys_r (rE rR : root) : list string :=
  let ke := root_keys rE in filter (fun k => negb (smem k ke)) (root_keys rR).
Definition only_missing_r (rE rR : root) : bool :=
  let ke := root_keys rE in let kr := root_keys rR in
  let added := added_keys_r rE rR in
  (List.length kr =? List.length ke + List.length added) && nodupb added &&
  forallb (fun n => smem n linter_sections && negb (smem (norm n) (map norm ke))) added.
Definition only_missing_b (E R : list string) : bool := only_missing_r (analyse E) (analyse R).
(* 5. all of them are added (docstring of init-config), for block-style files *)
Definition complete_r (rR : root) : bool :=
  let kr := map norm (root_keys rR) in forallb (fun n => smem (norm n) kr) linter_sections.
Definition complete_b (R : list string) : bool := complete_r (analyse R).
(* 6. an added section carries the template's settings for the preset *)
Definition added_content_r (rE rR rT : root) : bool :=
  match rR, rT with
  | RBlock b, RBlock t => forallb (fun n => val_eqb (eff (norm n) b) (eff (norm n) t)) (added_keys_r rE rR)
  | RFlow _, _ => match added_keys_r rE rR with [] => true | _ => false end
  | _, _ => false
  end.
Definition added_content_b (reps : list (string * string)) (E R : list string) : bool :=
  added_content_r (analyse E) (analyse R) (analyse (gen_content reps)).

(* verdict on one observed run: E before, R after, R2 after running the command again *)
Definition spec_bits_r (E R R2 : list string) (rE rR rT : root) : list bool :=
  [ valid_r rE rR rT; preserved_b E R; in_effect_r E R rE rR; only_missing_r rE rR;
    (match rE with RBlock _ => complete_r rR | _ => true end);
    added_content_r rE rR rT; lines_eqb R2 R ].
Definition spec_bits (reps : list (string * string)) (E R R2 : list string) : list bool :=
  spec_bits_r E R R2 (analyse E) (analyse R) (analyse (gen_content reps)).
Definition spec_ok (reps : list (string * string)) (E R R2 : list string) : bool :=
  forallb (fun b => b) (spec_bits reps E R R2).

(* what a model result leaves on disk / exits with *)
Definition result_file (E : list string) (r : init_result) : list string := match r with Merged _ R => R | _ => E end.
Definition result_rc (r : init_result) : nat := match r with Unparsable | Refused => unparsable_exit_code | _ => 0 end.
Definition result_names (r : init_result) : list string := match r with Merged ns _ => ns | _ => [] end.
