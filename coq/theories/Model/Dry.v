(* Model/Dry.v — the faithful, quirk-parametric model of the DRY linter (C03): Model/DryPipe.v
   instantiated with what Gen/DryGen.v reads from the source.  No proofs in this file.

   Quirks (true = what the code does, false = what the property demands):
     q_strip_in_code       _strip_comments cuts the line at the first `#` and the first `//` wherever they
                           are - inside string literals, at Python's floor-division operator ... - so code
                           after them is dropped and different statements normalise to the same text.
     q_block_comment_kept  nothing removes `/* ... */` comments of TypeScript/JavaScript lines: a comment
                           inside or next to a duplicated run makes the run differ.
     q_overlap_asym        true = the overlap test of ViolationFilter._overlaps as read from the source.  Until fix
                           f9c5945 the source added the *later* violation's line count to the earlier violation's
                           start (line1 < line2 + count(v1)); the property needs the earlier block's extent
                           (count(v2)).  The repaired source says exactly that (Proofs/DryMain.v gen_viol_overlap),
                           so the flag no longer changes the model; it is kept so that a regression of the code
                           is attributed to the recorded (now "fixed") finding. *)
From TL Require Import Lib.Base Lib.GenTypes Model.DryBase Model.DryPipe Model.DryFilter Gen.DryGen.

Record dquirks := { q_strip_in_code : bool; q_block_comment_kept : bool; q_overlap_asym : bool }.
Definition dry_ideal : dquirks := Build_dquirks false false false.

(* ------------------------------------------------------------------ rendering (what the harness writes to disk) *)
Definition line_marker (l : dlang) : string := match l with DPy => "#" | DTs => "//" end.
Definition cmt_sep (code : string) : string := if str_empty code then "" else "  ".
Definition block_text (t : string) : string := ("/* " ++ t ++ " */")%string.
Definition render_cmt (l : dlang) (code : string) (c : cmt) : string :=
  match c with
  | CNone => ""
  | CLine t => (cmt_sep code ++ line_marker l ++ t)%string
  | CBlock t => (cmt_sep code ++ block_text t)%string
  end.
Definition render_line (l : dlang) (a : aline) : string :=
  (a_indent a ++ a_code a ++ (if a_doc a then "" else render_cmt l (a_code a) (a_cmt a)))%string.

(* ------------------------------------------------------------------ normalize_line *)
Definition strip_text (s : string) : string := fold_left (fun acc m => cut_at m acc) dry_comment_markers s.
Definition has_marker (s : string) : bool := existsb (fun m => str_contains m s) dry_comment_markers.
Definition norm_text (s : string) : string := join dry_norm_sep (words s).

(* the literal pipeline of the code on the rendered line *)
Definition norm_literal (l : dlang) (a : aline) : string := norm_text (strip_text (render_line l a)).

(* the same, decomposed by defect.  With both text flags on it is the literal pipeline applied to
   code ++ comment (the indent is whitespace: checked on every generated case by Model/DryRun.v, lit_ok).
   q_strip_in_code off: the code part is never cut and a line comment is removed because it is the comment.
   q_block_comment_kept off: a block comment is removed because it is a comment. *)
Definition norm (q : dquirks) (l : dlang) (a : aline) : string :=
  let code := a_code a in
  if q_strip_in_code q then
    match a_cmt a with
    | CBlock t => if q_block_comment_kept q then norm_text (strip_text (code ++ render_cmt l code (a_cmt a)))
                  else norm_text (strip_text code)
    | _ => norm_text (strip_text (code ++ render_cmt l code (a_cmt a)))
    end
  else
    match a_cmt a with
    | CBlock t => if q_block_comment_kept q then norm_text (code ++ cmt_sep code ++ strip_text (block_text t))
                  else norm_text code
    | _ => norm_text code
    end.

(* ------------------------------------------------------------------ parameters read from the source *)
Definition model_aparams (q : dquirks) (l : dlang) : aparams :=
  match l with
  | DPy => {| p_norm := norm q DPy; p_skip := dry_should_skip; p_first_line := dry_py_first_line;
              p_guard := dry_py_guard_cmp; p_off := dry_py_window_off; p_sep := dry_py_snippet_sep;
              p_wstart := dry_py_win_start; p_wend := dry_py_win_end |}
  | DTs => {| p_norm := norm q DTs; p_skip := dry_should_skip; p_first_line := dry_ts_first_line;
              p_guard := dry_ts_guard_cmp; p_off := dry_ts_window_off; p_sep := dry_ts_snippet_sep;
              p_wstart := dry_ts_win_start; p_wend := dry_ts_win_end |}
  end.

Definition model_bparams (q : dquirks) : bparams :=
  {| p_dup_cmp := dry_dup_cmp; p_dup_min := dry_dup_min;
     p_blocks_overlap := dry_blocks_overlap; p_meets := dry_meets;
     p_line_count := dry_line_count; p_column := dry_column; p_is_other := dry_is_other;
     p_viol_overlap := fun l1 l2 c1 c2 => if q_overlap_asym q then dry_viol_overlap l1 l2 c1 c2 else l1 <? l2 + c2 |}.

Definition dry_rows (q : dquirks) (W : nat) (files : list afile) : list row := all_rows (model_aparams q) W files.
Definition dry_report (q : dquirks) (k : nat) (rows : list row) : list viol := report (model_bparams q) k rows.
Definition dry_model (q : dquirks) (W k : nat) (files : list afile) : list viol :=
  pipeline (model_aparams q) (model_bparams q) W k files.

(* stage C (suppression): ranges, overlap test, end line and header length as found in the source *)
Definition model_sparams : sparams :=
  {| s_block_off := dry_ignore_block_off; s_block_len := dry_ignore_block_len; s_next_off := dry_ignore_next_off;
     s_range_overlap := dry_range_overlap; s_viol_end := dry_inline_end; s_header_lines := dry_header_scan_lines |}.

(* the reported list: the de-duplicated violations that no dry.ignore pattern and no directive suppresses *)
Definition dry_final (q : dquirks) (W k : nat) (patterns paths : list string) (files : list afile) : list viol :=
  unsuppressed model_sparams patterns paths files (dry_model q W k files).
Definition dry_final_of_rows (q : dquirks) (k : nat) (patterns paths : list string) (files : list afile) (rows : list row) : list viol :=
  unsuppressed model_sparams patterns paths files (dry_report q k rows).

(* KeywordArgumentFilter with the literals of block_filter.py (Model/DryFilter.v has the skeleton and the matcher) *)
Definition model_kwarg_filter : list string -> list (nat * nat) -> nat -> nat -> bool :=
  kwarg_filter_gen dry_kwarg_cmp dry_kwarg_num dry_kwarg_den dry_call_contains.

(* the three text-only filters and the registry with the literals of block_filter.py / file_analyzer.py / config.py *)
Definition model_import_filter := import_filter_gen dry_import_line_rejected.
Definition model_logger_line := logger_line_gen dry_logger_self dry_logger_objs dry_logger_meths.
Definition model_logger_filter := logger_filter_gen dry_logger_single model_logger_line.
Definition model_reraise_filter := reraise_filter_gen dry_reraise_len_bad dry_is_except_raise.
Definition model_registry (configured : bool) (custom : list (string * bool)) (calls : list (nat * nat)) : list string -> nat -> nat -> bool :=
  registry_gen dry_registry (if configured then filter_on dry_filter_defaults custom else fun _ => true)
               (fun raw => model_kwarg_filter raw calls) model_import_filter model_logger_filter model_reraise_filter.

(* ------------------------------------------------------------------ messages *)
Definition ref_text (paths : list string) (r : nat * nat * nat) : string :=
  let '(f, s, e) := r in render_ref dry_ref_format (nth f paths "?") s e.
Definition v_message (paths : list string) (v : viol) : string :=
  let locs := map (ref_text paths) (v_refs v) in
  (render_dmsg dry_msg_head (v_count v) (v_occ v) locs
   ++ match locs with [] => "" | _ => render_dmsg dry_msg_locs (v_count v) (v_occ v) locs end)%string.

(* _extract_line_count: int(message[message.index(open) + off : message.index(close)]) *)
Fixpoint index_of (m s : string) : option nat :=
  if str_prefix m s then Some 0
  else match s with EmptyString => None | String _ s' => option_map S (index_of m s') end.
Definition parse_nat (s : string) : option nat :=
  option_map Nat.of_uint (DecimalString.NilEmpty.uint_of_string s).
Definition extract_line_count (msg : string) : option nat :=
  match index_of dry_count_open msg, index_of dry_count_close msg with
  | Some a, Some b => parse_nat (substring (a + dry_count_open_off) (b - (a + dry_count_open_off)) msg)
  | _, _ => None
  end.
