(* Model/OrchParRun.v — judging one correspondence case of C07 inside the kernel's VM.
   The rule behaviour is measured from the implementation and handed over as tables: per file the
   result of lint_file in a fresh Orchestrator, the finalize() report after no file and after all
   files.  Violations are interned (c_vtab) and referred to by index.  The judge returns
     [ domain ok ; impl sequential = model sequential ; impl parallel ~ impl sequential (the property) ;
       model ideal parallel ~ model sequential ; impl parallel = model parallel under each candidate ;
       the case is in the class of theorem C07_errors_swallowed ; the worker-history stream agrees with the model's worker ;
       rule-instance level: impl sequential = rseq_run on the per-rule tables ; impl parallel = rpar_run on them ]. *)
From TL Require Import Lib.Base Lib.GenTypes Model.OrchParTypes Gen.OrchParGen Model.OrchPar Model.OrchParRules.

Record pcase := {
  c_vtab : list violation;
  c_perfile : list (option (list nat));   (* by file number; None = lint_file raises *)
  c_rep_nil : list nat;                   (* finalize() of fresh rule instances *)
  c_rep_full : list nat;                  (* finalize() after lint_file of every file, in order *)
  c_seen : list bool;                     (* by file number: the raw-path exclusion / ignore test lets the file through *)
  c_rep_seen : list nat;                  (* finalize() after lint_file of the files let through, in order *)
  c_groups : list (list nat);             (* several targets on one command line: the files of each call, in order; [] = one call on all files *)
  c_group_reports : list (list nat * list nat); (* finalize() after lint_file of exactly these files (further evidence lists, per group) *)
  c_mw : option nat;                      (* max_workers argument *)
  c_cpu : nat;                            (* multiprocessing.cpu_count() *)
  c_sched : list nat;                     (* the order in which as_completed yielded the futures *)
  c_ordered : bool;                       (* the order was controlled: compare lists, else multisets *)
  c_cmd : option string;                  (* CLI command: outputs are the JSON views, exit codes count *)
  c_served : list (nat * option (list nat)); (* worker-history stream: (file, what _lint_file_worker returned for it in a
                                             process that had served other files before; None = it raised) - dictionaries,
                                             interned in c_vtab like the violations *)
  (* rule-instance level (Model/OrchParRules.v): per registered rule class, in registry order *)
  c_rules_measured : bool;                (* the tables below were measured (one call on all files; not for several groups) *)
  c_rules : list bool;                    (* the class overrides finalize *)
  c_rule_out : list (list (option (list nat))); (* by file, by rule: what lint_file of a new Orchestrator whose registry holds
                                             only that rule returns for the file (None = it raises) *)
  c_vis : list bool;                      (* by file: lint_file gets as far as _execute_rules *)
  c_rule_fin_nil : list (list nat);       (* by rule: finalize() of a new instance *)
  c_rule_fin_full : list (list nat);      (* by rule: finalize() after lint_file of every file, in order *)
  c_rule_fin_seen : list (list nat);      (* by rule: finalize() after lint_file of the files c_seen lets through *)
  c_seq : option (list nat);              (* implementation, sequential (None = raised / error exit) *)
  c_par : option (list nat);              (* implementation, parallel *)
  c_seq_exit : nat;
  c_par_exit : nat
}.

Definition poison : violation := [("rule_id", VStr "<model: report asked for an unmeasured evidence list>")].
Definition bad_index : violation := [("rule_id", VStr "<harness: index outside the violation table>")].

Definition look (c : pcase) (l : list nat) : list violation := map (fun i => nth i (c_vtab c) bad_index) l.

Definition nfiles (c : pcase) : nat := List.length (c_perfile c).
Definition files_of (c : pcase) : list nat := seq 0 (nfiles c).

Definition m_perfile (c : pcase) (f : nat) : option (list violation) :=
  match nth f (c_perfile c) None with None => None | Some l => Some (look c l) end.

Definition m_sees (c : pcase) (f : nat) : bool := nth f (c_seen c) true.
Definition seen_files (c : pcase) : list nat := filter (m_sees c) (files_of c).

Fixpoint lookup_report (ev : list nat) (t : list (list nat * list nat)) : option (list nat) :=
  match t with
  | [] => None
  | (k, v) :: r => if list_eqb Nat.eqb ev k then Some v else lookup_report ev r
  end.

Definition m_report (c : pcase) (ev : list nat) : list violation :=
  match ev with
  | [] => look c (c_rep_nil c)
  | _ => if list_eqb Nat.eqb ev (files_of c) then look c (c_rep_full c)
         else if list_eqb Nat.eqb ev (seen_files c) then look c (c_rep_seen c)
         else match lookup_report ev (c_group_reports c) with Some v => look c v | None => [poison] end
  end.

Definition m_seq (c : pcase) : option (list violation) :=
  match c_groups c with
  | [] => seq_run nat nat (m_perfile c) (fun f => f) (m_report c) (files_of c)
  | gs => groups_seq_run nat nat (m_perfile c) (fun f => f) (m_report c) gs
  end.

(* several groups: every group in its submission order (such cases are compared as multisets) *)
Definition m_par (q : pquirks) (c : pcase) : option (list violation) :=
  match c_groups c with
  | [] => par_run nat nat (m_perfile c) (fun f => f) (m_report c) (m_sees c) q (c_mw c) (c_cpu c) (c_sched c) (files_of c)
  | gs => groups_par_run nat nat (m_perfile c) (fun f => f) (m_report c) (m_sees c) q (c_mw c) (c_cpu c)
            (map (fun g : list nat => seq 0 (List.length g)) gs) gs
  end.

Definition with_flag (i : nat) (q : pquirks) : pquirks :=
  match i with
  | 0 => {| q_par_crossfile_lost := false; q_parent_evidence_raw_path := q_parent_evidence_raw_path q;
            q_worker_swallows_errors := q_worker_swallows_errors q |}
  | 1 => {| q_par_crossfile_lost := q_par_crossfile_lost q; q_parent_evidence_raw_path := false;
            q_worker_swallows_errors := q_worker_swallows_errors q |}
  | _ => {| q_par_crossfile_lost := q_par_crossfile_lost q; q_parent_evidence_raw_path := q_parent_evidence_raw_path q;
            q_worker_swallows_errors := false |}
  end.

Definition candidates (q : pquirks) : list pquirks := [q; with_flag 0 q; with_flag 1 q; with_flag 2 q; ideal].

Definition cmd_of (c : pcase) : option (rfilter * nat * nat) :=
  match c_cmd c with None => None | Some n => assoc n cli_commands end.

(* what is observable of a result: the list itself (API) or its filtered JSON view and the exit status (CLI) *)
Definition view (c : pcase) (o : option (list violation)) : option (list violation) * nat :=
  match cmd_of c with
  | None => (o, 0)
  | Some cmd => (option_map (map json_view) (cli_view cmd o), exit_code cmd o)
  end.

Definition obs_eq (ordered : bool) (a b : option (list violation) * nat) : bool :=
  (if ordered then out_same (fst a) (fst b) else out_equiv_b (fst a) (fst b)) && (snd a =? snd b).

Definition is_perm_of_range (s : list nat) (n : nat) : bool := ms_eqb Nat.eqb s (seq 0 n).

Definition domain_ok (c : pcase) : bool :=
  forallb wf_violation
    (List.concat (map (fun o : option (list nat) => match o with Some l => look c l | None => [] end) (c_perfile c)))
  && forallb wf_violation (look c (c_rep_full c)) && forallb wf_violation (look c (c_rep_nil c))
  && is_perm_of_range (c_sched c) (nfiles c) && (List.length (c_seen c) =? nfiles c)
  && forallb (forallb (fun f => f <? nfiles c)) (c_groups c)
  && match c_groups c with [] => true | _ => negb (c_ordered c) end
  && match c_cmd c with None => true | Some n => match assoc n cli_commands with Some _ => true | None => false end end.

(* the class of C07_errors_swallowed: some file raises, the worker pool is used, the handlers swallow: the
   sequential run raises and the parallel run returns normally, whatever it returns *)
Definition err_explained (q : pquirks) (c : pcase) : bool :=
  swallows q
  && negb (below_threshold nat (c_mw c) (c_cpu c) (files_of c))
  && match mapM (m_perfile c) (files_of c) with None => true | Some _ => false end
  && match c_cmd c, c_seq c, c_par c with None, None, Some _ => true | _, _, _ => false end.

(* every recorded task of a pooled worker returned what the model's worker returns from the fresh-process table:
   lint_file does not depend on what the process served before, and to_dict is the modelled one *)
Definition served_ok (q : pquirks) (c : pcase) : bool :=
  forallb (fun t : nat * option (list nat) =>
             match worker nat (m_perfile c) q (fst t), snd t with
             | Some ds, Some l => list_eqb violation_eqb ds (look c l)
             | None, None => true
             | _, _ => false
             end) (c_served c).

(* ---------- the rule-instance level on measured tables ---------- *)
(* the state of an instance: the files it has checked, in order *)
Definition vis_files (c : pcase) : list nat := filter (fun f => nth f (c_vis c) true) (files_of c).

Definition jrule (c : pcase) (i : nat) (ov : bool) : rule nat (list nat) :=
  {| r_init := [];
     r_check := fun s f => (match nth i (nth f (c_rule_out c) []) (Some []) with
                            | None => CRaiseConfig
                            | Some l => COk (look c l)
                            end, s ++ [f]);
     r_finalize := if ov
                   then Some (fun s => match s with
                                       | [] => look c (nth i (c_rule_fin_nil c) [])
                                       | _ => if list_eqb Nat.eqb s (vis_files c) then look c (nth i (c_rule_fin_full c) [])
                                              else if list_eqb Nat.eqb s (seen_files c) then look c (nth i (c_rule_fin_seen c) [])
                                              else [poison]
                                       end)
                   else None |}.

Definition jrules (c : pcase) : list (rule nat (list nat)) :=
  map (fun p : nat * bool => jrule c (fst p) (snd p)) (combine (seq 0 (List.length (c_rules c))) (c_rules c)).

Definition j_excluded (c : pcase) (f : nat) : bool := negb (nth f (c_vis c) true).
Definition j_ignored (c : pcase) (f : nat) : bool := false.

Definition rules_dom_ok (c : pcase) : bool :=
  let nr := List.length (c_rules c) in
  (List.length (c_rule_out c) =? nfiles c) && forallb (fun row : list (option (list nat)) => List.length row =? nr) (c_rule_out c)
  && (List.length (c_vis c) =? nfiles c) && (List.length (c_rule_fin_nil c) =? nr) && (List.length (c_rule_fin_full c) =? nr)
  && (List.length (c_rule_fin_seen c) =? nr) && negb (nr =? 0)
  && match c_groups c with [] => true | _ => false end.

Definition r_seq (c : pcase) : option (list violation) :=
  rseq_run nat (list nat) (j_excluded c) (j_ignored c) (jrules c) (files_of c).
Definition r_par (q : pquirks) (c : pcase) : option (list violation) :=
  rpar_run nat (list nat) (j_excluded c) (j_ignored c) (jrules c) (m_sees c) q (c_mw c) (c_cpu c) (c_sched c) (files_of c).

Definition judge (q : pquirks) (c : pcase) : list bool :=
  let impl_seq := (option_map (look c) (c_seq c), c_seq_exit c) in
  let impl_par := (option_map (look c) (c_par c), c_par_exit c) in
  domain_ok c
  :: obs_eq true impl_seq (view c (m_seq c))
  :: obs_eq false impl_par impl_seq
  :: obs_eq false (view c (m_par ideal c)) (view c (m_seq c))
  :: map (fun k => obs_eq (c_ordered c) impl_par (view c (m_par k c))) (candidates q)
  ++ [err_explained q c; served_ok q c;
      negb (c_rules_measured c) || (rules_dom_ok c && obs_eq true impl_seq (view c (r_seq c)));
      negb (c_rules_measured c) || (rules_dom_ok c && obs_eq (c_ordered c) impl_par (view c (r_par q c)))].
