(* Model/OrchParPool.v — the worker POOL of lint_files_parallel (C07): a worker process serves several tasks one
   after the other and keeps its process-level state between them (module globals such as the ignore-parser singleton
   and its per-path cache); a fresh Orchestrator is built per task, so rule instances are not part of that state.
   `step s f` is lint_file for f in a worker process whose state is s: its outcome and the next state.  Tasks are
   taken from the call queue in submission order; `assign` says which worker takes which task.  No proofs here. *)
From TL Require Import Lib.Base Lib.GenTypes Model.OrchParTypes Gen.OrchParGen Model.OrchPar.

Section Pool.
  Variables file evidence wstate : Type.
  Variable step : wstate -> file -> option (list violation) * wstate.
  Variable init : wstate.                      (* the state of a worker that has served nothing yet *)
  Variable collect : file -> evidence.
  Variable report : list evidence -> list violation.
  Variable parent_sees : file -> bool.

  (* lint_file in a fresh process: what Model/OrchPar.v calls perfile *)
  Definition fresh_perfile (f : file) : option (list violation) := fst (step init f).

  Definition upd (st : nat -> wstate) (w : nat) (s : wstate) : nat -> wstate :=
    fun w' => if w' =? w then s else st w'.

  (* the futures, in submission order *)
  Fixpoint pool_results (q : pquirks) (st : nat -> wstate) (assign : list nat) (files : list file)
    : list (option (list pydict)) :=
    match files with
    | [] => []
    | f :: fs =>
      let w := hd 0 assign in
      let '(r, s') := step (st w) f in
      worker_result q r :: pool_results q (upd st w s') (tl assign) fs
    end.

  Fixpoint all_some {A} (l : list (option A)) : option (list A) :=
    match l with
    | [] => Some []
    | None :: _ => None
    | Some x :: r => match all_some r with None => None | Some xs => Some (x :: xs) end
    end.

  (* lint_files_parallel with a real pool: `assign` = which worker serves which task *)
  Definition par_run_pooled (q : pquirks) (mw : option nat) (cpu : nat) (assign sched : list nat) (files : list file)
    : option (list violation) :=
    match files with
    | [] => Some []
    | _ =>
      if below_threshold file mw cpu files then seq_run file evidence fresh_perfile collect report files
      else match all_some (pool_results q (fun _ => init) assign files) with
           | None => None
           | Some futs => Some (List.concat (apply_sched sched (map extract futs))
                                ++ parent_finalize file evidence collect report parent_sees q files)
           end
    end.
End Pool.
