(* Model/PlacementSource.v — where the file-placement rule set comes from (C18): the project's config file as
   auto-loaded by the Orchestrator (top-level keys normalised), the inline `--rules` JSON merged into it with
   dict.update, FilePlacementRule._extract_inline_config (wrapped section, else the known top-level keys),
   the fall-back to the layout file, FilePlacementLinter._unwrap_config.  Key names, their order, the layout
   file names, the merge method and the key normalisation are read from Gen/PlacementGen.v.
   Specification: inline rules, when given, REPLACE the file's rules ("Override config file with CLI flags",
   docs/configuration.md); the documented top-level form {"allow": [...], "deny": [...]} applies to every file
   (= global_patterns); otherwise the file's section; otherwise no rules.  No proofs in this file. *)
From Coq Require Import ZArith.
From TL Require Import Lib.Base Lib.GenTypes Model.PlacementTypes Gen.PlacementGen Model.Placement.

Record squirks := {
  q_rules_toplevel_ignored     : bool;  (* the documented inline form {"allow": .., "deny": ..} has no effect at all *)
  q_rules_do_not_override_file : bool;  (* --rules is merged into the loaded config: a file-placement section of the file
                                           shadows unwrapped inline rules, file keys not named inline stay in force,
                                           an empty inline section falls back to the file *)
}.
Definition sideal : squirks := Build_squirks false false.

Inductive rules_form :=
| RWrapped (k : string) (c : config)      (* {"file-placement": {...}} / {"file_placement": {...}} *)
| RUnwrapped (c : config)                 (* {"directories": .., "global_deny": .., "global_patterns": ..} *)
| RToplevel (r : drule).                  (* {"allow": [...], "deny": [...]} *)
Inductive file_form := FWrapped (k : string) (c : config) | FUnwrapped (c : config).
Record source := { s_file : option file_form; s_rules : option rules_form }.

(* values of the metadata dictionary that matter here *)
Inductive mval :=
| MSection (c : config) | MDirs (l : list (string * drule)) | MGDeny (l : list ditem) | MGPat (r : drule)
| MAllow (l : list aitem) | MDeny (l : list ditem).

Definition empty_cfg : config := {| c_dirs := None; c_gdeny := None; c_gpat := None |}.
Definition is_some {A} (o : option A) : bool := match o with Some _ => true | None => false end.
(* truthiness of the dict a config is written as *)
Definition config_present (c : config) : bool := is_some (c_dirs c) || is_some (c_gdeny c) || is_some (c_gpat c).

Definition opt_entry {A} (k : string) (f : A -> mval) (o : option A) : list (string * mval) :=
  match o with Some x => [(k, f x)] | None => [] end.

Definition cfg_entries (c : config) : list (string * mval) :=
  opt_entry "directories" MDirs (c_dirs c) ++ opt_entry "global_deny" MGDeny (c_gdeny c)
  ++ opt_entry "global_patterns" MGPat (c_gpat c).

Fixpoint map_chars (f : ascii -> ascii) (s : string) : string :=
  match s with EmptyString => EmptyString | String a r => String (f a) (map_chars f r) end.
Definition normalize_key (k : string) : string :=          (* key.replace("-", "_") *)
  map_chars (fun a => if Ascii.eqb a fp_norm_from then fp_norm_to else a) k.

Definition file_entries (f : option file_form) : list (string * mval) :=
  match f with
  | None => []
  | Some (FWrapped k c) => [(normalize_key k, MSection c)]
  | Some (FUnwrapped c) => cfg_entries c      (* these keys contain no "-" *)
  end.

Definition rules_entries (q : squirks) (r : option rules_form) : list (string * mval) :=
  match r with
  | None => []
  | Some (RWrapped k c) => [(k, MSection c)]
  | Some (RUnwrapped c) => cfg_entries c
  | Some (RToplevel r) =>
    if q_rules_toplevel_ignored q then opt_entry "allow" MAllow (r_allow r) ++ opt_entry "deny" MDeny (r_deny r)
    else [("global_patterns", MGPat r)]
  end.

Fixpoint lookup_m (k : string) (m : list (string * mval)) : option mval :=
  match m with [] => None | (k', v) :: r => if String.eqb k k' then Some v else lookup_m k r end.

(* _get_wrapped_config *)
Definition wrapped_of (m : list (string * mval)) : option config :=
  first_some (map (fun k => match lookup_m k m with Some (MSection c) => Some c | _ => None end) fp_wrapped_keys).

(* _get_unwrapped_config: the known keys among the top-level keys *)
Definition known (k : string) : bool := smem k fp_unwrapped_keys.
Definition unwrapped_of (m : list (string * mval)) : config := {|
  c_dirs := if known "directories" then match lookup_m "directories" m with Some (MDirs l) => Some l | _ => None end else None;
  c_gdeny := if known "global_deny" then match lookup_m "global_deny" m with Some (MGDeny l) => Some l | _ => None end else None;
  c_gpat := if known "global_patterns" then match lookup_m "global_patterns" m with Some (MGPat r) => Some r | _ => None end else None |}.

(* _load_layout_config + _unwrap_config on the project's config file *)
Definition layout_of (f : option file_form) : config :=
  match f with
  | None => empty_cfg
  | Some (FWrapped k c) => if smem k fp_layout_keys then c else empty_cfg
  | Some (FUnwrapped c) => c
  end.

(* the file as far as the run sees it: the property's reading drops it when inline rules are given *)
Definition eff_file (q : squirks) (s : source) : option file_form :=
  if negb (q_rules_do_not_override_file q) && is_some (s_rules s) then None else s_file s.

Definition resolve (q : squirks) (s : source) : config :=
  let f := eff_file q s in
  let m := rules_entries q (s_rules s) ++ file_entries f in      (* dict.update: inline keys first *)
  match wrapped_of m with
  | Some c => if config_present c then c else layout_of f
  | None => let u := unwrapped_of m in if config_present u then u else layout_of f
  end.

(* ---------------------------------------------------------------- specification *)
Definition file_cfg (f : file_form) : config := match f with FWrapped _ c => c | FUnwrapped c => c end.

Definition spec_resolve (s : source) : config :=
  match s_rules s with
  | Some (RWrapped _ c) => c
  | Some (RUnwrapped c) => c
  | Some (RToplevel r) => {| c_dirs := None; c_gdeny := None; c_gpat := Some r |}
  | None => match s_file s with Some f => file_cfg f | None => empty_cfg end
  end.

(* domain: a wrapped section is spelled file-placement or file_placement *)
Definition section_key_ok (k : string) : bool := String.eqb k "file-placement" || String.eqb k "file_placement".
Definition src_ok (s : source) : bool :=
  match s_file s with Some (FWrapped k _) => section_key_ok k | _ => true end
  && match s_rules s with Some (RWrapped k _) => section_key_ok k | _ => true end.

Section Engine.
  Variable valid : string -> bool.
  Variable matches : string -> string -> bool.
  Definition run_src (q : pquirks) (sq : squirks) (s : source) (f : fileq) : outcome :=
    run valid matches q (resolve sq s) f.
  Definition spec_src (s : source) (f : fileq) : soutcome := spec valid matches (spec_resolve s) f.
End Engine.
