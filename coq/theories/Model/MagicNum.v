(* Model/MagicNum.v — numbers, literal syntax and the text-level number parsers of the
   magic-numbers linter (C02).  Definitions only.

   Values are exact decimals  mantissa * 10^exponent  (a pair of Z), compared after
   normalisation (`norm`), so that 3.0 = 3 as in Python's `value in allowed_numbers`.
   Restriction (stated in the trusted base): generated float literals have a short finite
   decimal expansion, for which decimal equality and IEEE-double equality coincide.

   py_int0 / py_float transcribe what CPython's int(text, 0) / float(text) accept on the text of
   a number token (digits, base prefixes, single underscores between digits, fraction,
   exponent); ts_extract / rs_extract transcribe _extract_numeric_value of the TypeScript and
   Rust analyzers over that text. *)
From Coq Require Import ZArith.
From TL Require Import Lib.Base Lib.GenTypes Gen.MagicGen.

(* ------------------------------------------------------------------ numbers *)
Definition num := (Z * Z)%type.

Fixpoint strip10 (fuel : nat) (m e : Z) : num :=
  match fuel with
  | O => (m, e)
  | S f => if (m mod 10 =? 0)%Z then strip10 f (m / 10)%Z (e + 1)%Z else (m, e)
  end.

Definition norm (n : num) : num :=
  let '(m, e) := n in
  if (m =? 0)%Z then (0%Z, 0%Z) else strip10 (S (Z.to_nat (Z.log2 (Z.abs m)))) m e.

Definition num_eqb (a b : num) : bool := (fst a =? fst b)%Z && (snd a =? snd b)%Z.

Fixpoint nmem (v : num) (l : list num) : bool :=
  match l with [] => false | x :: r => num_eqb v x || nmem v r end.

Definition cmp_z (c : cmp) (a b : Z) : bool :=
  match c with
  | CLe => (a <=? b)%Z | CLt => (a <? b)%Z | CGe => (b <=? a)%Z | CGt => (b <? a)%Z
  | CEq => (a =? b)%Z | CNe => negb (a =? b)%Z
  end.

(* ------------------------------------------------------------------ characters *)
Definition chars (s : string) : list ascii := list_ascii_of_string s.

Definition c_us : ascii := "_"%char.
Definition c_dot : ascii := "."%char.
Definition c_0 : ascii := "0"%char.

Definition digit_char (upper : bool) (d : nat) : ascii :=
  if d <? 10 then ascii_of_nat (48 + d) else ascii_of_nat ((if upper then 55 else 87) + d).

(* value of c as a digit below base (0-9, a-f, A-F) *)
Definition digit_of (base : nat) (c : ascii) : option nat :=
  let n := nat_of_ascii c in
  let v := if (48 <=? n) && (n <=? 57) then Some (n - 48)
           else if (97 <=? n) && (n <=? 102) then Some (n - 87)
           else if (65 <=? n) && (n <=? 70) then Some (n - 55) else None in
  match v with Some d => if d <? base then Some d else None | None => None end.

Definition lower_char (c : ascii) : ascii :=
  let n := nat_of_ascii c in if (65 <=? n) && (n <=? 90) then ascii_of_nat (n + 32) else c.

Definition is_upper_char (c : ascii) : bool := let n := nat_of_ascii c in (65 <=? n) && (n <=? 90).
Definition is_lower_char (c : ascii) : bool := let n := nat_of_ascii c in (97 <=? n) && (n <=? 122).
Definition is_digit_char (c : ascii) : bool := let n := nat_of_ascii c in (48 <=? n) && (n <=? 57).

Fixpoint prefix_l (p s : list ascii) : bool :=
  match p, s with
  | [], _ => true
  | a :: p', b :: s' => Ascii.eqb a b && prefix_l p' s'
  | _ :: _, [] => false
  end.

(* needle occurs in hay (Python `needle in hay`) *)
Fixpoint contains (needle hay : list ascii) : bool :=
  prefix_l needle hay || match hay with [] => false | _ :: r => contains needle r end.

Fixpoint list_eqb (a b : list ascii) : bool :=
  match a, b with
  | [], [] => true
  | x :: a', y :: b' => Ascii.eqb x y && list_eqb a' b'
  | _, _ => false
  end.

(* s = x ++ suf for some x (Python `s.endswith(suf)`) *)
Fixpoint ends_with (suf s : list ascii) : bool :=
  list_eqb s suf || match s with [] => false | _ :: r => ends_with suf r end.

(* ------------------------------------------------------------------ literals (abstract syntax) *)
Inductive radix := RDec | RHex | ROct | RBin | RHexU | ROctU | RBinU.      (* ..U: upper-case prefix 0X 0O 0B *)
Definition base_of (r : radix) : nat :=
  match r with RDec => 10 | RHex | RHexU => 16 | ROct | ROctU => 8 | RBin | RBinU => 2 end.
Definition prefix_of (r : radix) : list ascii :=
  match r with
  | RDec => [] | RHex => chars "0x" | ROct => chars "0o" | RBin => chars "0b"
  | RHexU => chars "0X" | ROctU => chars "0O" | RBinU => chars "0B"
  end.

Inductive lit :=
| LInt (r : radix) (groups : list (list nat)) (upper : bool) (suffix : string)   (* 42  0x1F  1_000  0b1u8  10n *)
| LFloat (ip fp : list nat) (ex : option ((bool * bool) * list nat)) (suffix : string)
                      (* 3.14  1e6  2.5e-3  1E5  3.14_f64; exponent = ((negative, upper-case marker E), digits) *)
| LBool (b : bool)
| LStr (s : string)                                                              (* a string that may contain digits *)
| LIdent (s : string).

Fixpoint digits_val (base : Z) (acc : Z) (ds : list nat) : Z :=
  match ds with [] => acc | d :: r => digits_val base (acc * base + Z.of_nat d)%Z r end.

Definition exp_val (ex : option ((bool * bool) * list nat)) : Z :=
  match ex with
  | None => 0%Z
  | Some ((neg, _), ds) => let v := digits_val 10 0 ds in if neg then (- v)%Z else v
  end.

(* the (unnormalised) value of a numeric literal *)
Definition lit_raw (l : lit) : option num :=
  match l with
  | LInt r gs _ _ => Some (digits_val (Z.of_nat (base_of r)) 0 (List.concat gs), 0%Z)
  | LFloat ip fp ex _ => Some (digits_val 10 0 (ip ++ fp), (- Z.of_nat (List.length fp) + exp_val ex)%Z)
  | _ => None
  end.

Definition lit_value (l : lit) : option num := option_map norm (lit_raw l).

Definition lit_is_int (l : lit) : bool := match l with LInt _ _ _ _ => true | _ => false end.

Definition render_digits (upper : bool) (ds : list nat) : list ascii := map (digit_char upper) ds.

Fixpoint render_groups (upper : bool) (gs : list (list nat)) : list ascii :=
  match gs with
  | [] => []
  | [g] => render_digits upper g
  | g :: r => render_digits upper g ++ c_us :: render_groups upper r
  end.

Definition float_body (ip fp : list nat) (ex : option ((bool * bool) * list nat)) : list ascii :=
  render_digits false ip
  ++ (match fp with [] => [] | _ => c_dot :: render_digits false fp end)
  ++ (match ex with
      | None => []
      | Some ((neg, eup), ds) => (if eup then "E"%char else "e"%char) :: (if neg then ["-"%char] else []) ++ render_digits false ds
      end).

Definition lit_body (l : lit) : list ascii :=
  match l with
  | LInt r gs up _ => prefix_of r ++ render_groups up gs
  | LFloat ip fp ex _ => float_body ip fp ex
  | _ => []
  end.

Definition lit_suffix (l : lit) : string :=
  match l with LInt _ _ _ s => s | LFloat _ _ _ s => s | _ => "" end.

(* the source text of a numeric literal *)
Definition lit_chars (l : lit) : list ascii := lit_body l ++ chars (lit_suffix l).

(* ------------------------------------------------------------------ int(text, 0) and float(text) *)
(* longest prefix of the form  d (_? d)*  (a leading underscore is accepted when after_digit) *)
Fixpoint span_d (base : nat) (s : list ascii) (after_digit : bool) : list nat * list ascii :=
  match s with
  | [] => ([], [])
  | c :: r =>
    match digit_of base c with
    | Some d => let '(ds, rest) := span_d base r true in (d :: ds, rest)
    | None =>
      if after_digit && Ascii.eqb c c_us then
        match r with
        | c2 :: _ => match digit_of base c2 with Some _ => span_d base r false | None => ([], s) end
        | [] => ([], s)
        end
      else ([], s)
    end
  end.

Definition all_digits (base : nat) (s : list ascii) (lead_us : bool) : option (list nat) :=
  let '(ds, rest) := span_d base s lead_us in
  match ds, rest with _ :: _, [] => Some ds | _, _ => None end.

Definition is_one_of (c : ascii) (a b : ascii) : bool := Ascii.eqb c a || Ascii.eqb c b.

Definition int_decimal (s : list ascii) : option Z :=
  match all_digits 10 s false with
  | Some ds =>
    let v := digits_val 10 0 ds in
    match ds with
    | 0 :: _ => if (v =? 0)%Z then Some v else None       (* "01" is rejected, "0", "00", "0_0" are accepted *)
    | _ => Some v
    end
  | None => None
  end.

Definition int_prefixed (base : nat) (body : list ascii) : option Z :=
  option_map (digits_val (Z.of_nat base) 0) (all_digits base body true).

Definition py_int0 (s : list ascii) : option Z :=
  match s with
  | z :: x :: body =>
    if Ascii.eqb z c_0 then
      if is_one_of x "x"%char "X"%char then int_prefixed 16 body
      else if is_one_of x "o"%char "O"%char then int_prefixed 8 body
      else if is_one_of x "b"%char "B"%char then int_prefixed 2 body
      else int_decimal s
    else int_decimal s
  | _ => int_decimal s
  end.

Definition float_frac_part (r1 : list ascii) : list nat * list ascii :=
  match r1 with
  | c :: r => if Ascii.eqb c c_dot then span_d 10 r false else ([], r1)
  | [] => ([], r1)
  end.

Definition float_sign_part (r3 : list ascii) : bool * list ascii :=
  match r3 with
  | s1 :: r => if Ascii.eqb s1 "-"%char then (true, r)
               else if Ascii.eqb s1 "+"%char then (false, r) else (false, r3)
  | [] => (false, r3)
  end.

Definition float_exp_part (m e0 : Z) (r2 : list ascii) : option num :=
  match r2 with
  | [] => Some (m, e0)
  | c :: r3 =>
    if is_one_of c "e"%char "E"%char then
      let '(neg, r4) := float_sign_part r3 in
      let '(ed, r5) := span_d 10 r4 false in
      match ed, r5 with
      | _ :: _, [] => let v := digits_val 10 0 ed in Some (m, (e0 + (if neg then - v else v))%Z)
      | _, _ => None
      end
    else None
  end.

Definition py_float (s : list ascii) : option num :=
  let '(ip, r1) := span_d 10 s false in
  let '(fp, r2) := float_frac_part r1 in
  match ip ++ fp with
  | [] => None
  | _ => float_exp_part (digits_val 10 0 (ip ++ fp)) (- Z.of_nat (List.length fp))%Z r2
  end.

Definition is_prefixed (s : list ascii) : bool :=
  match s with
  | z :: x :: _ => Ascii.eqb z c_0 && (is_one_of x "x"%char "X"%char || is_one_of x "o"%char "O"%char || is_one_of x "b"%char "B"%char)
  | _ => false
  end.

Definition is_hex_prefixed (s : list ascii) : bool :=
  match s with z :: x :: _ => Ascii.eqb z c_0 && is_one_of x "x"%char "X"%char | _ => false end.

(* ------------------------------------------------------------------ TypeScript: _extract_numeric_value *)
(* `"." not in text and "e" not in text.lower()`, the needles read from the source *)
Definition ts_int_path (text : list ascii) : bool :=
  forallb (fun nl : string * bool =>
             let '(needle, low) := nl in
             negb (contains (chars needle) (if low then map lower_char text else text)))
          ts_int_path_needles.

Definition strip_bigint (text : list ascii) : list ascii :=
  if ends_with ["n"%char] text then removelast text else text.

(* `if text.endswith(S): text = text[:-len(S)]` for the suffix found in the source (none in the unrepaired code) *)
Definition strip_suffix_code (text : list ascii) : list ascii :=
  match ts_bigint_suffixes with
  | [] => text
  | s :: _ => if ends_with (chars s) text then firstn (List.length text - List.length (chars s)) text else text
  end.

(* `lowered.startswith((P...))` for the prefixes found in the source (none in the unrepaired code) *)
Definition code_int_prefixed (text : list ascii) : bool :=
  existsb (fun p => prefix_l (chars p) (map lower_char text)) ts_int_prefixes.

(* prefixes_from_code / bigint_from_code = true: the prefix test and the suffix stripping exactly as found in the source;
   false: what the property demands (a 0x literal always takes the int() path; the BigInt suffix n is stripped).
   Before the repair the source had neither: 0xFE took the float() path and 10n made int() fail, both were dropped. *)
Definition ts_extract (prefixes_from_code bigint_from_code : bool) (text : list ascii) : option num :=
  let text := if bigint_from_code then strip_suffix_code text else strip_bigint text in
  if ts_int_path text || (if prefixes_from_code then code_int_prefixed text else is_hex_prefixed text)
  then option_map (fun z => (z, 0%Z)) (py_int0 text)
  else py_float text.

(* ------------------------------------------------------------------ Rust: _extract_numeric_value *)
Fixpoint strip_suffix (sufs : list string) (text : list ascii) : list ascii :=
  match sufs with
  | [] => text
  | s :: r =>
    if ends_with (chars s) text then firstn (List.length text - List.length (chars s)) text
    else strip_suffix r text
  end.

Definition is_float_suffix (s : string) : bool := prefix_l ["f"%char] (chars s).

(* `prefixed = text[:2].lower() in (P...)`, `if prefixed and suffix.startswith(K): continue`, as found in the source
   (no marker and no skipped suffix in the unrepaired code, where 0x1f32 lost "f32") *)
Definition code_prefixed (text : list ascii) : bool :=
  existsb (fun m => list_eqb (map lower_char (firstn 2 text)) (chars m)) rs_prefixed_markers.
Definition code_skipped (s : string) : bool := existsb (fun k => prefix_l (chars k) (chars s)) rs_prefixed_skip.

(* table_from_code = true: the suffixes tried are those the source tries; false: a base-prefixed literal can only carry an
   integer suffix *)
Definition rs_suffix_table (table_from_code : bool) (text : list ascii) : list string :=
  if table_from_code
  then (if code_prefixed text then filter (fun s => negb (code_skipped s)) rs_suffixes else rs_suffixes)
  else if is_prefixed text then filter (fun s => negb (is_float_suffix s)) rs_suffixes else rs_suffixes.

Definition remove_us (text : list ascii) : list ascii := filter (fun c => negb (Ascii.eqb c c_us)) text.

Definition rs_extract (hex_suffix_clash : bool) (node_type : string) (text : list ascii) : option num :=
  let cleaned := remove_us (strip_suffix (rs_suffix_table hex_suffix_clash text) text) in
  if String.eqb node_type rs_float_type then py_float cleaned
  else option_map (fun z => (z, 0%Z)) (py_int0 cleaned).
