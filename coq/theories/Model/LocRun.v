(* Model/LocRun.v — judging one correspondence case of C12 inside the kernel's VM.
   A case = one linted file as a line list, the constructs its renderer recorded, and the
   violations the implementation reported for that file (canonicalised by the harness: builder,
   key quoted in the message, line, column, tokens that must occur on the reported line, header
   keywords of the construct kind).  Per report the harness gets back
     [ property holds for the report ; model ideal satisfies the property on the matching constructs ;
       impl position = model position under q, for q = claimed vector, claimed vector with flag i
       off (i = 0..4), ideal ]. *)
From TL Require Import Lib.Base Lib.GenTypes Model.LocTypes Gen.LocGen Model.Loc.

Record report := {
  r_builder : string;          (* "" for linters without a modelled builder *)
  r_key : string;              (* "" = any construct of that builder *)
  r_line : nat; r_col : nat;
  r_quoted : list string;      (* every one must occur on the reported line *)
  r_hdrs : list string;        (* when non-empty: one of them must occur on the reported line *)
  r_recorded : bool;           (* the renderer recorded the constructs of this builder *)
}.

Definition match_c (r : report) (c : construct) : bool :=
  String.eqb (k_builder c) (r_builder r) && (String.eqb (r_key r) "" || String.eqb (k_key c) (r_key r)).
Definition cands (r : report) (cs : list construct) : list construct := filter (match_c r) cs.

(* the part of the property that needs no recorded construct *)
Definition generic_ok (f : lfile) (r : report) : bool :=
  let t := line_text f (r_line r) in
  line_ok f (r_line r) && col_ok f (r_line r) (r_col r)
  && forallb (fun s => occurs s t) (r_quoted r)
  && match r_hdrs r with [] => true | hs => existsb (fun h => occurs h t) hs end.

Definition spec_ok (f : lfile) (cs : list construct) (r : report) : bool :=
  generic_ok f r && (negb (r_recorded r) || existsb (fun c => r_line r =? k_hrow c + 1) (cands r cs)).

Definition model_hit (q : lquirks) (f : lfile) (cs : list construct) (r : report) : bool :=
  existsb (fun c => (r_line r =? model_line q c) && (r_col r =? model_col q f c)) (cands r cs).

Definition ideal_ok (f : lfile) (cs : list construct) (r : report) : bool :=
  forallb (fun c => negb (wf_construct f c) || loc_ok f c (model_line loc_ideal c) (model_col loc_ideal f c)) (cands r cs).

Definition with_flag (i : nat) (q : lquirks) : lquirks :=
  let off (j : nat) (b : bool) := if i =? j then false else b in
  Build_lquirks (off 0 (q_rs_chain_start q)) (off 1 (q_ts_arrow_node_start q)) (off 2 (q_ts_console_chain_start q))
                (off 3 (q_fh_header_relative q)) (off 4 (q_col_const_unclamped q)).
Definition flag_ids : list nat := [0; 1; 2; 3; 4].
Definition candidates (q : lquirks) : list lquirks := q :: map (fun i => with_flag i q) flag_ids ++ [loc_ideal].

Definition judge (q : lquirks) (f : lfile) (cs : list construct) (rs : list report) : list (list bool) :=
  map (fun r => spec_ok f cs r :: ideal_ok f cs r :: map (fun c => model_hit c f cs r) (candidates q)) rs.

(* short constructors for the harness *)
Definition K := Build_construct.
Definition R := Build_report.
