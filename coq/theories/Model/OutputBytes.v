(* Model/OutputBytes.v — byte level of the JSON / SARIF renderings (C06): what `click.echo(json.dumps(doc, indent=K))` writes
   to stdout for a JSON value, and the reader of the JSON grammar that is the specification of "well-formed JSON".
   The arguments of json.dumps (indent, separators, ensure_ascii, sort_keys) come from Gen/OutputGen.v; the algorithm of the
   json library (ensure_ascii escaping: py_encode_basestring_ascii; the indented layout of _make_iterencode) is transcribed by
   hand and compared byte for byte with CPython on every run.  Python str = bytes under surrogateescape (Model/Output.v), so
   the escaper first recovers the code points: a well-formed UTF-8 sequence is one code point, any other byte b is the lone
   surrogate U+DC00+b.  Code units are kept as (high byte, low byte); all bit manipulations are on the eight booleans of `ascii`.
   No proofs here. *)
From TL Require Import Lib.Base Model.OutputTypes Gen.OutputGen Model.Output.
From Coq Require Import ZArith.
Local Open Scope string_scope.

Definition dq : ascii := """"%char.
Definition bsl : ascii := "\"%char.
Definition cr : ascii := ascii_of_nat 13.
Definition tab : ascii := ascii_of_nat 9.
Definition bs8 : ascii := ascii_of_nat 8.
Definition ff12 : ascii := ascii_of_nat 12.
Definition sp : ascii := " "%char.

(* ------------------------------------------------------------------ hexadecimal, two digits per byte (lower case: '{0:04x}') *)
Definition nibc (b0 b1 b2 b3 : bool) : ascii :=
  (match b3, b2, b1, b0 with
   | false, false, false, false => "0" | false, false, false, true => "1"
   | false, false, true, false => "2" | false, false, true, true => "3"
   | false, true, false, false => "4" | false, true, false, true => "5"
   | false, true, true, false => "6" | false, true, true, true => "7"
   | true, false, false, false => "8" | true, false, false, true => "9"
   | true, false, true, false => "a" | true, false, true, true => "b"
   | true, true, false, false => "c" | true, true, false, true => "d"
   | true, true, true, false => "e" | true, true, true, true => "f"
   end)%char.

Definition nibbles : list (bool * bool * bool * bool) :=
  [ (false,false,false,false); (true,false,false,false); (false,true,false,false); (true,true,false,false);
    (false,false,true,false); (true,false,true,false); (false,true,true,false); (true,true,true,false);
    (false,false,false,true); (true,false,false,true); (false,true,false,true); (true,true,false,true);
    (false,false,true,true); (true,false,true,true); (false,true,true,true); (true,true,true,true) ].
(* the reader accepts upper-case digits as well (RFC 8259) *)
Definition lower_hex (c : ascii) : ascii :=
  let n := nat_of_ascii c in if ((65 <=? n) && (n <=? 70))%nat then ascii_of_nat (n + 32) else c.
Definition unnib (c : ascii) : option (bool * bool * bool * bool) :=
  find (fun n => match n with (b0, b1, b2, b3) => Ascii.eqb (nibc b0 b1 b2 b3) (lower_hex c) end) nibbles.

Definition hex2 (a : ascii) : string :=
  match a with Ascii b0 b1 b2 b3 b4 b5 b6 b7 => String (nibc b4 b5 b6 b7) (String (nibc b0 b1 b2 b3) EmptyString) end.
Definition unhex2 (c1 c2 : ascii) : option ascii :=
  match unnib c1, unnib c2 with
  | Some (b4, b5, b6, b7), Some (b0, b1, b2, b3) => Some (Ascii b0 b1 b2 b3 b4 b5 b6 b7)
  | _, _ => None
  end.
(* \uXXXX for the code unit with high byte h and low byte l *)
Definition esc_u (h l : ascii) : string := String bsl (String "u"%char (hex2 h ++ hex2 l)).

(* ------------------------------------------------------------------ code points of a Python str given by its bytes *)
Inductive chunk :=
| CAscii (a : ascii)                 (* U+0000..U+007F *)
| CUnit (h l : ascii)                (* a two- or three-byte sequence: one code unit U+0080..U+FFFF outside the surrogates *)
| CPair (h1 l1 h2 l2 : ascii)        (* a four-byte sequence: U+10000..U+10FFFF as its UTF-16 surrogate pair *)
| CLone (a : ascii).                 (* a byte that is not part of a well-formed sequence: U+DC00 + a *)

Definition xDC : ascii := Ascii false false true true true false true true.
Definition zero : ascii := Ascii false false false false false false false false.

(* continuation byte 10xxxxxx *)
Definition cont (b : ascii) : option (bool * bool * bool * bool * bool * bool) :=
  match b with
  | Ascii b0 b1 b2 b3 b4 b5 false true => Some (b0, b1, b2, b3, b4, b5)
  | _ => None
  end.

(* low four bits of uuuuu - 1 (uuuuu = 1..16, given by its low four bits) and back *)
Definition dec5 (u0 u1 u2 u3 : bool) : bool * bool * bool * bool :=
  let k0 := negb u0 in let k1 := k0 && negb u1 in let k2 := k1 && negb u2 in
  (negb u0, xorb u1 k0, xorb u2 k1, xorb u3 k2).
Definition inc4 (w0 w1 w2 w3 : bool) : bool * bool * bool * bool * bool :=
  let c0 := w0 in let c1 := w1 && c0 in let c2 := w2 && c1 in
  (negb w0, xorb w1 c0, xorb w2 c1, xorb w3 c2, w3 && c2).

(* first code point of s and the remaining bytes (Unicode Table 3-7: no overlong forms, no encoded surrogates, <= U+10FFFF) *)
Definition next_chunk (s : string) : option (chunk * string) :=
  match s with
  | EmptyString => None
  | String a r =>
    let lone := Some (CLone a, r) in
    match a with
    | Ascii _ _ _ _ _ _ _ false => Some (CAscii a, r)
    | Ascii a0 a1 a2 a3 a4 false true true =>                       (* 110yyyyy 10xxxxxx, yyyyy >= 2 *)
      if a4 || a3 || a2 || a1 then
        match r with
        | String b r1 =>
          match cont b with
          | Some (b0, b1, b2, b3, b4, b5) =>
            Some (CUnit (Ascii a2 a3 a4 false false false false false) (Ascii b0 b1 b2 b3 b4 b5 a0 a1), r1)
          | None => lone
          end
        | EmptyString => lone
        end
      else lone
    | Ascii a0 a1 a2 a3 false true true true =>                     (* 1110zzzz 10yyyyyy 10xxxxxx *)
      match r with
      | String b (String c r2) =>
        match cont b, cont c with
        | Some (b0, b1, b2, b3, b4, b5), Some (c0, c1, c2, c3, c4, c5) =>
          if (a3 || a2 || a1 || a0 || b5) && negb (a3 && a2 && negb a1 && a0 && b5)     (* >= U+0800, not U+D800..U+DFFF *)
          then Some (CUnit (Ascii b2 b3 b4 b5 a0 a1 a2 a3) (Ascii c0 c1 c2 c3 c4 c5 b0 b1), r2)
          else lone
        | _, _ => lone
        end
      | _ => lone
      end
    | Ascii a0 a1 a2 false true true true true =>                   (* 11110uuu 10uuzzzz 10yyyyyy 10xxxxxx, uuuuu = 1..16 *)
      match r with
      | String b (String c (String d r3)) =>
        match cont b, cont c, cont d with
        | Some (b0, b1, b2, b3, b4, b5), Some (c0, c1, c2, c3, c4, c5), Some (d0, d1, d2, d3, d4, d5) =>
          if (if a2 then negb (a1 || a0 || b5 || b4) else (a1 || a0 || b5 || b4))
          then match dec5 b4 b5 a0 a1 with
               | (w0, w1, w2, w3) =>
                 Some (CPair (Ascii w2 w3 false true true false true true) (Ascii c4 c5 b0 b1 b2 b3 w0 w1)
                             (Ascii c2 c3 true true true false true true) (Ascii d0 d1 d2 d3 d4 d5 c0 c1), r3)
               end
          else lone
        | _, _, _ => lone
        end
      | _ => lone
      end
    | _ => lone
    end
  end.

(* ------------------------------------------------------------------ json.dumps of a str (ensure_ascii) *)
Definition short_escapes : list (ascii * ascii) :=
  [ (dq, dq); (bsl, bsl); (nl, "n"%char); (cr, "r"%char); (tab, "t"%char); (bs8, "b"%char); (ff12, "f"%char) ].
Fixpoint alookup (a : ascii) (l : list (ascii * ascii)) : option ascii :=
  match l with [] => None | (k, v) :: r => if Ascii.eqb a k then Some v else alookup a r end.
Fixpoint rlookup (a : ascii) (l : list (ascii * ascii)) : option ascii :=
  match l with [] => None | (k, v) :: r => if Ascii.eqb a v then Some k else rlookup a r end.

Definition esc_ascii (a : ascii) : string :=
  match alookup a short_escapes with
  | Some e => String bsl (String e EmptyString)
  | None => let n := nat_of_ascii a in
            if ((32 <=? n) && (n <=? 126))%nat then String a EmptyString else esc_u zero a
  end.
Definition esc_chunk (c : chunk) : string :=
  match c with
  | CAscii a => esc_ascii a
  | CUnit h l => esc_u h l
  | CPair h1 l1 h2 l2 => esc_u h1 l1 ++ esc_u h2 l2
  | CLone a => esc_u xDC a
  end.
Fixpoint esc_go (fuel : nat) (s : string) : string :=
  match fuel with
  | O => EmptyString
  | S f => match next_chunk s with Some (c, r) => esc_chunk c ++ esc_go f r | None => EmptyString end
  end.
Definition json_quote (s : string) : string := String dq (esc_go (String.length s) s ++ String dq EmptyString).

(* ------------------------------------------------------------------ json.dumps(doc, indent=K) and click.echo *)
Fixpoint spaces (n : nat) : string := match n with O => EmptyString | S k => String sp (spaces k) end.
Definition ind (lvl : nat) : string := String nl (spaces (json_dumps_indent * lvl)).

Fixpoint dumps_at (lvl : nat) (j : json) : string :=
  match j with
  | JNull => "null"
  | JBool true => "true"
  | JBool false => "false"
  | JNum z => show_Z z
  | JStr s => json_quote s
  | JArr [] => "[]"
  | JArr (x :: r) =>
    "[" ++ ind (S lvl) ++ dumps_at (S lvl) x
        ++ (fix tail (l : list json) : string :=
              match l with
              | [] => EmptyString
              | y :: r' => json_dumps_item_sep ++ ind (S lvl) ++ dumps_at (S lvl) y ++ tail r'
              end) r
        ++ ind lvl ++ "]"
  | JObj [] => "{}"
  | JObj ((k, x) :: r) =>
    "{" ++ ind (S lvl) ++ json_quote k ++ json_dumps_key_sep ++ dumps_at (S lvl) x
        ++ (fix tail (l : list (string * json)) : string :=
              match l with
              | [] => EmptyString
              | (k', y) :: r' => json_dumps_item_sep ++ ind (S lvl) ++ json_quote k' ++ json_dumps_key_sep ++ dumps_at (S lvl) y ++ tail r'
              end) r
        ++ ind lvl ++ "}"
  end.
Definition dumps (j : json) : string := dumps_at 0 j.
(* click.echo(text): the text and a newline *)
Definition stdout_of (j : json) : string := dumps j ++ nls.

(* ================================================================== specification side: a reader of the JSON grammar (RFC 8259) *)
Definition is_high (h : ascii) : bool := match h with Ascii _ _ false true true false true true => true | _ => false end.
Definition is_low (h : ascii) : bool := match h with Ascii _ _ true true true false true true => true | _ => false end.

(* the bytes (UTF-8, surrogateescape) of a code unit that is not the first half of a pair *)
Definition unit_bytes (h l : ascii) : option string :=
  match h, l with
  | Ascii h0 h1 h2 h3 h4 h5 h6 h7, Ascii l0 l1 l2 l3 l4 l5 l6 l7 =>
    if negb (h7 || h6 || h5 || h4 || h3) then
      if negb (h2 || h1 || h0 || l7) then Some (String l EmptyString)
      else Some (String (Ascii l6 l7 h0 h1 h2 false true true) (String (Ascii l0 l1 l2 l3 l4 l5 false true) EmptyString))
    else if is_high h then None
    else if is_low h then (if negb (h1 || h0) && l7 then Some (String l EmptyString) else None)
    else Some (String (Ascii h4 h5 h6 h7 false true true true)
              (String (Ascii l6 l7 h0 h1 h2 h3 false true)
              (String (Ascii l0 l1 l2 l3 l4 l5 false true) EmptyString)))
  end.
Definition pair_bytes (h1 l1 h2 l2 : ascii) : string :=
  match h1, l1, h2, l2 with
  | Ascii w2 w3 _ _ _ _ _ _, Ascii y4 y5 z0 z1 z2 z3 w0 w1, Ascii y2 y3 _ _ _ _ _ _, Ascii x0 x1 x2 x3 x4 x5 y0 y1 =>
    match inc4 w0 w1 w2 w3 with
    | (u0, u1, u2, u3, u4) =>
      String (Ascii u2 u3 u4 false true true true true)
     (String (Ascii z0 z1 z2 z3 u0 u1 false true)
     (String (Ascii y0 y1 y2 y3 y4 y5 false true)
     (String (Ascii x0 x1 x2 x3 x4 x5 false true) EmptyString)))
    end
  end.

Definition read_u (s : string) : option (ascii * ascii * string) :=
  match s with
  | String c1 (String c2 (String c3 (String c4 r))) =>
    match unhex2 c1 c2, unhex2 c3 c4 with Some h, Some l => Some (h, l, r) | _, _ => None end
  | _ => None
  end.

Definition unshort (e : ascii) : option ascii :=
  if Ascii.eqb e "/"%char then Some "/"%char else rlookup e short_escapes.

(* one character of a JSON string (s does not start with the closing quote): its bytes and the rest *)
Definition read_chunk (s : string) : option (string * string) :=
  match s with
  | EmptyString => None
  | String a r =>
    if Ascii.eqb a bsl then
      match r with
      | EmptyString => None
      | String e r1 =>
        if Ascii.eqb e "u"%char then
          match read_u r1 with
          | Some (h, l, r2) =>
            if is_high h then
              match r2 with
              | String e1 (String e2 r3) =>
                if Ascii.eqb e1 bsl && Ascii.eqb e2 "u"%char then
                  match read_u r3 with
                  | Some (h2, l2, r4) => if is_low h2 then Some (pair_bytes h l h2 l2, r4) else None
                  | None => None
                  end
                else None
              | _ => None
              end
            else match unit_bytes h l with Some b => Some (b, r2) | None => None end
          | None => None
          end
        else match unshort e with Some b => Some (String b EmptyString, r1) | None => None end
      end
    else if (nat_of_ascii a <? 32)%nat then None
    else Some (String a EmptyString, r)
  end.

(* after the opening quote: the bytes of the string and what follows the closing quote *)
Fixpoint read_str (fuel : nat) (s : string) : option (string * string) :=
  match fuel with
  | O => None
  | S f =>
    match s with
    | EmptyString => None
    | String a r =>
      if Ascii.eqb a dq then Some (EmptyString, r)
      else match read_chunk s with
           | Some (b, r') => match read_str f r' with Some (bs, r'') => Some (b ++ bs, r'') | None => None end
           | None => None
           end
    end
  end.

Definition is_ws (a : ascii) : bool := Ascii.eqb a sp || Ascii.eqb a nl || Ascii.eqb a cr || Ascii.eqb a tab.
Fixpoint skip_ws (s : string) : string :=
  match s with String a r => if is_ws a then skip_ws r else s | EmptyString => EmptyString end.

Definition num_char (a : ascii) : bool := is_digit a || Ascii.eqb a "-"%char.
Fixpoint span_num (s : string) : string * string :=
  match s with
  | String a r => if num_char a then (let (p, q) := span_num r in (String a p, q)) else (EmptyString, s)
  | EmptyString => (EmptyString, EmptyString)
  end.

(* integers only: the documents of this property contain no fractions / exponents *)
Definition read_number (s : string) : option (json * string) :=
  let (p, r) := span_num s in
  match read_int p with
  | Some z => if String.eqb (show_Z z) p || String.eqb p "-0" then Some (JNum z, r) else None      (* no leading zeros *)
  | None => None
  end.

Definition expect (c : ascii) (s : string) : option string :=
  match s with String a r => if Ascii.eqb a c then Some r else None | EmptyString => None end.

(* s starts with the first character of the value (white space already skipped) *)
Fixpoint parse_val (fuel : nat) (s : string) : option (json * string) :=
  match fuel with
  | O => None
  | S f =>
    match s with
    | EmptyString => None
    | String c r =>
      if Ascii.eqb c "n"%char then option_map (fun r' => (JNull, r')) (strip_prefix "ull" r)
      else if Ascii.eqb c "t"%char then option_map (fun r' => (JBool true, r')) (strip_prefix "rue" r)
      else if Ascii.eqb c "f"%char then option_map (fun r' => (JBool false, r')) (strip_prefix "alse" r)
      else if Ascii.eqb c dq then
        match read_str (S (String.length r)) r with Some (b, r') => Some (JStr b, r') | None => None end
      else if Ascii.eqb c "["%char then
        match skip_ws r with
        | String c' r' => if Ascii.eqb c' "]"%char then Some (JArr [], r')
                          else match parse_elems f (String c' r') with Some (l, r'') => Some (JArr l, r'') | None => None end
        | EmptyString => None
        end
      else if Ascii.eqb c "{"%char then
        match skip_ws r with
        | String c' r' => if Ascii.eqb c' "}"%char then Some (JObj [], r')
                          else match parse_members f (String c' r') with Some (l, r'') => Some (JObj l, r'') | None => None end
        | EmptyString => None
        end
      else read_number s
    end
  end
(* s starts with the first character of an element; reads up to and including the closing bracket *)
with parse_elems (fuel : nat) (s : string) : option (list json * string) :=
  match fuel with
  | O => None
  | S f =>
    match parse_val f s with
    | Some (x, r) =>
      match skip_ws r with
      | String c r' =>
        if Ascii.eqb c ","%char then
          match parse_elems f (skip_ws r') with Some (xs, r'') => Some (x :: xs, r'') | None => None end
        else if Ascii.eqb c "]"%char then Some ([x], r')
        else None
      | EmptyString => None
      end
    | None => None
    end
  end
with parse_members (fuel : nat) (s : string) : option (list (string * json) * string) :=
  match fuel with
  | O => None
  | S f =>
    match s with
    | String c r0 =>
      if Ascii.eqb c dq then
        match read_str (S (String.length r0)) r0 with
        | Some (k, r1) =>
          match expect ":"%char (skip_ws r1) with
          | Some r2 =>
            match parse_val f (skip_ws r2) with
            | Some (x, r) =>
              match skip_ws r with
              | String c' r' =>
                if Ascii.eqb c' ","%char then
                  match parse_members f (skip_ws r') with Some (xs, r'') => Some ((k, x) :: xs, r'') | None => None end
                else if Ascii.eqb c' "}"%char then Some ([(k, x)], r')
                else None
              | EmptyString => None
              end
            | None => None
            end
          | None => None
          end
        | None => None
        end
      else None
    | EmptyString => None
    end
  end.

(* a JSON text: one value surrounded by optional white space *)
Definition loads (s : string) : option json :=
  match parse_val (S (String.length s)) (skip_ws s) with
  | Some (j, r) => match skip_ws r with EmptyString => Some j | _ => None end
  | None => None
  end.

(* every byte is ASCII (hence the text is well-formed UTF-8 whatever encoding stdout has) *)
Fixpoint ascii_bytes (s : string) : bool :=
  match s with EmptyString => true | String (Ascii _ _ _ _ _ _ _ b7) r => negb b7 && ascii_bytes r end.
