(* Model/MethodProp.v — executable model of the method-property detector (src/linters/method_property/python_analyzer.py:
   PythonMethodAnalyzer._visit_node / _analyze_class / _process_class_item and the nine checks of _is_property_candidate),
   as a walker in the sense of Model/Embed.v, quirk-parametric:
     q_mp_class_body_only   inside a class only its direct methods and directly nested classes are looked at, and nothing
                            below them (a class defined inside a method, or under an `if` in a class body, is never
                            found); false: every class anywhere is analysed
   summary = (mode, name of the enclosing class): 0 = not directly in a class body, 1 = child of an analysed class,
   2 = below something the code never enters.  Class names, excluded prefixes / names, the control-flow table, the
   body-size limit and the rule id come from Gen/EmbedGen.v; message texts are not modelled (reports carry class and
   method name).  Inline / docstring ignore directives, `ignore_methods` and test FILE names are outside this model. *)
From TL Require Import Lib.Base Lib.GenTypes Gen.EmbedGen Model.Embed Model.PrintStmt Model.PerfConcat Model.StatelessCls.

Record mquirks := mkMQ { q_mp_class_body_only : bool }.
Definition m_ideal : mquirks := mkMQ false.

Definition ends_with (s suf : string) : bool :=
  let n := String.length s in let m := String.length suf in
  (m <=? n) && String.eqb (String.substring (n - m) m s) suf.
Fixpoint lstrip_us (s : string) : string :=
  match s with
  | String a r => if Ascii.eqb a "_"%char then lstrip_us r else s
  | EmptyString => s
  end.
Definition nonempty {A} (l : list A) : bool := match l with [] => false | _ :: _ => true end.

Definition is_dunder (name : string) : bool := String.prefix mp_dunder_prefix name && ends_with name mp_dunder_suffix.
Definition is_action_verb (name : string) : bool :=
  let st := lstrip_us name in
  existsb (fun p => String.prefix p st && (String.length p <? String.length st)) mp_exclude_prefixes
  || smem name mp_exclude_names || smem st mp_exclude_names.
Definition takes_only_self (m : ast) : bool :=
  match field "args" m with
  | [a] => (List.length (field "args" a) =? 1)
           && negb (nonempty (field "posonlyargs" a) || nonempty (field "vararg" a) || nonempty (field "kwonlyargs" a)
                    || nonempty (field "kwarg" a) || nonempty (field "defaults" a) || nonempty (field "kw_defaults" a))
  | _ => false
  end.
(* _get_non_docstring_body *)
Definition nd_body (m : ast) : list ast :=
  match field "body" m with
  | first :: rest =>
    if is_cls mp_expr_cls first
       && match field "value" first with [v] => is_cls mp_const_cls v && String.eqb (nckind v) "str" | _ => false end
    then rest else first :: rest
  | [] => []
  end.
Definition has_simple_body (m : ast) : bool :=
  let b := nd_body m in (List.length b <=? mp_max_body_statements) && negb (List.length b =? 0).
Definition is_value_return (n : ast) : bool :=
  is_cls mp_return_cls n
  && match field "value" n with
     | [v] => negb (is_cls mp_return_const_cls v && String.eqb (nckind v) "NoneType")
     | _ => false
     end.
Definition returns_value (m : ast) : bool := match rev (nd_body m) with last :: _ => is_value_return last | [] => false end.
Definition is_self_target (t : ast) : bool :=
  is_cls mp_self_attr_cls t && match field "value" t with [v] => named mp_self_name_cls mp_self_name v | _ => false end.
Definition is_side_effect (n : ast) : bool :=
  (is_cls mp_assign_cls n && existsb is_self_target (field "targets" n))
  || (is_cls mp_augassign_cls n && match field "target" n with [t] => is_self_target t | _ => false end)
  || (is_cls mp_annassign_cls n && nonempty (field "value" n) && match field "target" n with [t] => is_self_target t | _ => false end)
  || (is_cls mp_delete_cls n && existsb is_self_target (field "targets" n)).
Definition is_control_flow (n : ast) : bool := smem (ncls n) mp_control_flow.
Definition is_external_call (n : ast) : bool :=
  is_cls mp_call_cls n && match field "func" n with [f] => is_cls mp_call_name_cls f | _ => false end.

(* _is_property_candidate: all nine checks *)
Definition is_candidate (m : ast) : bool :=
  negb (is_dunder (nsval m)) && negb (is_action_verb (nsval m)) && negb (nonempty (field "decorator_list" m))
  && takes_only_self m && has_simple_body m && returns_value m
  && negb (walk_any is_side_effect m) && negb (walk_any is_control_flow m) && negb (walk_any is_external_call m).

Definition msum := (nat * string)%type.
Definition mp_step (q : mquirks) (s : msum) (t : ast) : msum :=
  if q_mp_class_body_only q then
    match fst s with
    | 0 => if is_cls mp_class_cls t then (1, nsval t) else (0, "")
    | 1 => if is_cls mp_class_cls t && String.eqb (nrole t) "body" then (1, nsval t) else (2, "")
    | _ => (2, "")
    end
  else if is_cls mp_class_cls t then (1, nsval t) else (0, "").
Definition mp_emit (s : msum) (t : ast) : list rep :=
  match fst s with
  | 1 => if is_cls mp_method_cls t && String.eqb (nrole t) "body" && is_candidate (erase t)
         then [(line (ninfo t), col (ninfo t), snd s, nsval t)] else []
  | _ => []
  end.

Definition method_reports (q : mquirks) (file : list ast) : list rep := detectF (mp_step q) mp_emit (0, "") file.

(* contexts the locality theorem covers: the innermost wrapper is not a class (the fragment's own top-level functions
   would become methods) and no function wrapper sits directly in a class wrapper (its candidacy depends on its body) *)
Fixpoint mp_ctx_ok_from (parent_is_class : bool) (c : ctx) : bool :=
  match c with
  | Hole => negb parent_is_class
  | Wrap i _ _ _ _ c' =>
    negb (parent_is_class && String.eqb (cls i) mp_method_cls) && mp_ctx_ok_from (String.eqb (cls i) mp_class_cls) c'
  | Seq _ _ c' _ => mp_ctx_ok_from parent_is_class c'
  end.
Definition mp_ctx_ok (c : ctx) : bool := mp_ctx_ok_from false c.
