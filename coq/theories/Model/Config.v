(* Model/Config.v - executable model of thai-lint's configuration handling (property C05).

   Pipeline modelled, in the order the code runs it:
     carrier discovery (Orchestrator.__init__, load_config, pyproject fallback)
     -> --config (setup_base_orchestrator / load_config_file; dry's own loader; the root-group option)
     -> top-level key normalisation (_normalize_config_keys)
     -> CLI threshold overrides written into the loaded dict (_apply_*_config_override)
     -> repository-level ignore list (_load_repo_ignores)
     -> the rule's section lookup (load_linter_config and the per-rule idioms)
     -> from_dict option resolution with per-language sub-sections, __post_init__ guards, `enabled`
     -> the rule's verdict on a source whose relevant measures ("metrics") are given.
   Tables, key strings, defaults, guards, override rows and the discovery order come from Gen/ConfigGen.v.
   YAML/JSON/TOML parsing, click and every linter's analysis of the source text are oracles: the abstract
   input is the parsed document per carrier and the measures of the rendered source (validated by the
   correspondence check).  No proofs in this file. *)
From TL Require Import Lib.Base Lib.GenTypes Model.ConfigTypes Gen.ConfigGen.
From Coq Require Import ZArith.

(* ------------------------------------------------------------------ quirk flags *)
(* A quirk vector is the set of defect names that are switched on: on = do what the code does,
   off = do what the property demands.  [ideal] is the empty set. *)
Definition quirks := list string.
Definition has (q : quirks) (f : string) : bool := smem f q.
Definition ideal : quirks := [].
Definition fl (kind u : string) : string := (kind ++ "[" ++ u ++ "]")%string.

(* ------------------------------------------------------------------ documented side: units *)
(* a unit = a documented configuration section (hyphen spelling) together with the rule that must honour it *)
Definition units : list string :=
  ["nesting"; "srp"; "dry"; "magic-numbers"; "print-statements"; "improper-logging"; "method-property";
   "stateless-class"; "collection-pipeline"; "stringly-typed"; "file-header"; "lazy-ignores"; "lbyl"; "cqs";
   "performance"; "unwrap-abuse"; "clone-abuse"; "blocking-async"].

(* the CLI command that reports the unit's rule ("" = none, library API only) *)
Definition cmd_of (u : string) : string :=
  if String.eqb u "collection-pipeline" then "pipeline"
  else if String.eqb u "performance" then "perf"
  else if String.eqb u "cqs" then ""
  else u.

Definition all_languages : list string := ["python"; "typescript"; "javascript"; "rust"].

Definition all_flags : list string :=
  map (fl "section_not_read") units ++ map (fl "enabled_option_missing") units
  ++ map (fl "whole_config_fallback") units ++ map (fl "language_override_ignored") units
  ++ map (fl "cli_override_skips_language_sections") (map cmd_of units)
  ++ ["repo_ignore_not_loaded[pyproject]"; "repo_ignore_not_loaded[--config]";
      "global_config_option_ignored"; "dry_config_option_merges_section_only";
      "pyproject_unparsable_swallowed"; "wrong_type_swallowed";
      "language_block_error_retried_without_language"; "invalid_top_level_value_shadowed_by_language_block";
      "thailint_json_is_not_a_root_marker"; "non_mapping_language_block_crashes"]
  ++ map (fl "language_block_value_not_validated") units ++ map (fl "non_mapping_section_crashes") units.

(* ------------------------------------------------------------------ dictionaries *)
Fixpoint get (k : string) (d : dict) : option val :=
  match d with
  | [] => None
  | (k', v) :: r => if String.eqb k k' then Some v else get k r
  end.

(* d[k] = v : replaces in place, appends when new *)
Fixpoint dict_set (k : string) (v : val) (d : dict) : dict :=
  match d with
  | [] => [(k, v)]
  | (k', v') :: r => if String.eqb k k' then (k, v) :: r else (k', v') :: dict_set k v r
  end.

Definition as_map (v : option val) : dict := match v with Some (VMap m) => m | _ => [] end.

Fixpoint strs (l : list val) : list string :=
  match l with [] => [] | VStr s :: r => s :: strs r | _ :: r => strs r end.
Definition str_list (v : option val) : list string := match v with Some (VList l) => strs l | _ => [] end.

Fixpoint ints (l : list val) : list Z :=
  match l with [] => [] | VInt z :: r => z :: ints r | _ :: r => ints r end.

(* ------------------------------------------------------------------ key normalisation *)
(* str.replace(norm_from, norm_to) for one-character arguments *)
Definition norm_char (c : ascii) : ascii :=
  match norm_from, norm_to with
  | String a EmptyString, String b EmptyString => if Ascii.eqb c a then b else c
  | _, _ => c
  end.
Fixpoint norm_key (s : string) : string :=
  match s with EmptyString => EmptyString | String c r => String (norm_char c) (norm_key r) end.

Definition norm_step (acc : dict) (kv : string * val) : dict := dict_set (norm_key (fst kv)) (snd kv) acc.
Definition normalize_top (d : dict) : dict := fold_left norm_step d [].

(* ------------------------------------------------------------------ carriers *)
Inductive cfile := Absent | Unparsable | Doc (d : dict).
Inductive dashpos := PosCmd | PosGlobal.          (* `thailint CMD --config F` / `thailint --config F CMD` *)
Record dashcfg := { d_pos : dashpos; d_suffix : string; d_file : cfile }.
Record project := {
  p_yaml : cfile; p_json : cfile; p_pyproject : cfile; p_dash : option dashcfg;
  p_ignore_file : list string;   (* patterns of .thailintignore in the project directory ([] = absent or empty) *)
  p_subdir : bool }.             (* the linted file lies in a sub-directory; the command runs from the project directory *)

Record case := {
  c_proj : project;
  c_cmd : string;                      (* CLI command, "" for a library run *)
  c_unit : string;
  c_lang : string;
  c_fname : string;                    (* the linted file, relative to the project root *)
  c_overrides : list (string * Z);     (* CLI threshold options, e.g. ("--max-depth", 3) *)
  c_metrics : list (string * Z) }.     (* measures of the source that the unit's probes look at *)

Inductive ckind := KYaml | KJson | KPy | KDash | KNone.
Definition kind_of_name (n : string) : ckind :=
  if String.eqb n ".thailint.yaml" then KYaml
  else if String.eqb n ".thailint.json" then KJson
  else if String.eqb n "pyproject.toml" then KPy else KNone.
Definition file_of (p : project) (n : string) : cfile :=
  match kind_of_name n with KYaml => p_yaml p | KJson => p_json p | KPy => p_pyproject p | _ => Absent end.

Fixpoint first_existing (p : project) (names : list string) : option string :=
  match names with
  | [] => None
  | n :: r => match file_of p n with Absent => first_existing p r | _ => Some n end
  end.

Inductive lres := LErr | LDoc (k : ckind) (raw : dict).

Definition swallow_py (q : quirks) : bool :=
  if has q "pyproject_unparsable_swallowed" then pyproject_error_swallowed else false.

(* Orchestrator.__init__ + load_config: first existing name of discovery_order, else [tool.thailint] *)
Definition discovered (q : quirks) (p : project) : lres :=
  match first_existing p discovery_order with
  | Some n => match file_of p n with Doc d => LDoc (kind_of_name n) d | _ => LErr end
  | None =>
    match file_of p pyproject_name with
    | Doc d => LDoc KPy d
    | Unparsable => if swallow_py q then LDoc KNone [] else LErr
    | Absent => LDoc KNone []
    end
  end.

(* Project-root detection (get_or_detect_project_root): with the root-group --config the root is the directory of that file;
   otherwise the nearest ancestor of the linted file holding one of root_markers, else the file's own directory.
   The project directory is an ancestor; nothing above it carries a marker.  When the root is not found, nothing
   in the project directory is read. *)
Definition has_marker (p : project) : bool :=
  existsb (fun n => match file_of p n with Absent => false | _ => true end) root_markers.
Definition root_found (q : quirks) (p : project) : bool :=
  if has q "thailint_json_is_not_a_root_marker"
  then negb (p_subdir p) || has_marker p
       || match p_dash p with Some d => match d_pos d with PosGlobal => true | PosCmd => false end | None => false end
  else true.
Definition eff_proj (q : quirks) (c : case) : project :=
  if root_found q (c_proj c) then c_proj c
  else {| p_yaml := Absent; p_json := Absent; p_pyproject := Absent; p_dash := p_dash (c_proj c);
          p_ignore_file := []; p_subdir := p_subdir (c_proj c) |}.

Definition dash_active (q : quirks) (c : case) : option dashcfg :=
  match p_dash (c_proj c) with
  | Some d =>
    match d_pos d with
    | PosCmd => Some d
    | PosGlobal => if has q "global_config_option_ignored"
                   then (if global_config_used_by_linters then Some d else None) else Some d
    end
  | None => None
  end.

(* a root-group --config that is not used as linter configuration is still checked: a missing file ends a linter
   command, an unparsable one or one with an unsupported suffix fails in the group callback *)
Definition ignored_dash_error (q : quirks) (c : case) : bool :=
  match p_dash (c_proj c), dash_active q c with
  | Some d, None =>
    match d_file d with
    | Absent => global_config_missing_exits
    | Unparsable => global_config_invalid_exits
    | Doc _ => global_config_invalid_exits && negb (smem (d_suffix d) valid_suffixes)
    end
  | _, _ => false
  end.

(* setup_base_orchestrator: discovery first, then --config replaces the configuration *)
Definition selected (q : quirks) (c : case) : lres :=
  if ignored_dash_error q c then LErr else
  match discovered q (eff_proj q c) with
  | LErr => LErr
  | LDoc k raw =>
    match dash_active q c with
    | None => LDoc k raw
    | Some d =>
      match d_file d with
      | Absent => LErr
      | f => if smem (d_suffix d) valid_suffixes
             then match f with Doc r => LDoc KDash r | _ => LErr end
             else LErr
      end
    end
  end.

(* parse_config_file / parse_pyproject_toml hand their result through _normalize_config_keys *)
Definition norm_for (k : ckind) (raw : dict) : dict :=
  match k with
  | KPy => if pyproject_parser_normalises then normalize_top raw else raw
  | KNone => normalize_top raw
  | _ => if file_parser_normalises then normalize_top raw else raw
  end.

(* `dry --config F`: the file is read with yaml.safe_load and only its "dry" entry is merged *)
Definition dry_merge (q : quirks) (c : case) : bool :=
  has q "dry_config_option_merges_section_only" && dry_dash_config_special && String.eqb (c_cmd c) "dry"
  && match p_dash (c_proj c) with Some d => match d_pos d with PosCmd => true | _ => false end | None => false end.

Definition loaded (q : quirks) (c : case) : option dict :=
  if dry_merge q c then
    match discovered q (eff_proj q c), p_dash (c_proj c) with
    | LDoc k raw, Some d =>
      match d_file d with
      | Doc r => Some match get dry_dash_config_key r with
                      | Some v => dict_set dry_dash_config_key v (norm_for k raw)
                      | None => norm_for k raw
                      end
      | _ => None
      end
    | _, _ => None
    end
  else match selected q c with LErr => None | LDoc k raw => Some (norm_for k raw) end.

(* ------------------------------------------------------------------ repository-level ignore list *)
Definition pats (raw : dict) : list string := str_list (get repo_ignore_key raw).

(* _load_repo_ignores (no .thailintignore in the modelled projects): first existing file of the list *)
Fixpoint code_patterns_from (p : project) (names : list string) : list string :=
  match names with
  | [] => []
  | n :: r => match file_of p n with Doc d => pats d | Unparsable => [] | Absent => code_patterns_from p r end
  end.
(* .thailintignore is read first and the first existing configuration file of the remaining names adds its list *)
Definition code_patterns (p : project) : list string :=
  match repo_ignore_files with
  | [] => []
  | _ :: rest => p_ignore_file p ++ code_patterns_from p rest
  end.

Definition repo_patterns (q : quirks) (c : case) : list string :=
  let code := code_patterns (eff_proj q c) in
  let ig := p_ignore_file (eff_proj q c) in
  match selected q c with
  | LDoc KJson raw => code     (* repaired: the list of files read from the source covers .thailint.json *)
  | LDoc KPy raw => if has q "repo_ignore_not_loaded[pyproject]" then code else ig ++ pats raw
  | LDoc KDash raw => if has q "repo_ignore_not_loaded[--config]" then code else ig ++ pats raw
  | _ => code
  end.

(* ------------------------------------------------------------------ CLI threshold overrides *)
Definition orow := (string * string * string * string * list string)%type.  (* cmd, cli option, section key, option, languages *)
Definition rows_for (tbl : list orow) (cmd cli : string) : list orow :=
  filter (fun r => match r with (c, o, _, _, _) => String.eqb c cmd && String.eqb o cli end) tbl.

Fixpoint slist_eqb (a b : list string) : bool :=
  match a, b with
  | [], [] => true
  | x :: xs, y :: ys => String.eqb x y && slist_eqb xs ys
  | _, _ => false
  end.
(* the languages found in the source when they are all the languages (nesting, repaired), else the complete list *)
Definition override_langs (q : quirks) (cmd : string) (langs : list string) : list string :=
  if has q (fl "cli_override_skips_language_sections" cmd) then langs
  else if slist_eqb langs all_languages then langs else all_languages.

(* nesting_config[lang]["opt"] = z, skipped when the sub-section is absent (suppress(KeyError)) *)
Definition set_lang (opt : string) (z : Z) (s : dict) (lang : string) : dict :=
  match get lang s with
  | Some (VMap ls) => dict_set lang (VMap (dict_set opt (VInt z) ls)) s
  | _ => s
  end.

Definition apply_row (q : quirks) (z : Z) (cfg : dict) (r : orow) : dict :=
  match r with
  | (cmd, _, skey, opt, langs) =>
    let sect := dict_set opt (VInt z) (as_map (get skey cfg)) in
    dict_set skey (VMap (fold_left (set_lang opt z) (override_langs q cmd langs) sect)) cfg
  end.

Definition apply_override (q : quirks) (tbl : list orow) (cmd : string) (cfg : dict) (ov : string * Z) : dict :=
  fold_left (apply_row q (snd ov)) (rows_for tbl cmd (fst ov)) cfg.

Definition apply_overrides (q : quirks) (tbl : list orow) (cmd : string) (ovs : list (string * Z)) (cfg : dict) : dict :=
  fold_left (apply_override q tbl cmd) ovs cfg.

(* ------------------------------------------------------------------ the rule's section lookup *)
Definition lrow := (lookup_src * list string * bool)%type.

Fixpoint gen_lookup_in (tbl : list (string * lookup_src * list string * bool)) (u : string) : lrow :=
  match tbl with
  | [] => (SrcNone, [], false)
  | (u', s, ks, w) :: r => if String.eqb u u' then (s, ks, w) else gen_lookup_in r u
  end.
Definition gen_lookup (u : string) : lrow := gen_lookup_in lookup_table u.

(* a row finds exactly the section stored under the normalised name: it reads the loaded configuration, its
   first key is the normalised name, and no later key can be present in a normalised dict *)
Definition meta_src (s : lookup_src) : bool :=
  match s with SrcMeta => true | SrcCtxThenMeta => negb context_has_config_attr | _ => false end.
Definition row_good (nk : string) (r : lrow) : bool :=
  match r with
  | (s, k :: rest, _) => meta_src s && String.eqb k nk
                         && forallb (fun k' => String.eqb k' nk || negb (String.eqb (norm_key k') k')) rest
  | _ => false
  end.

Definition lookup_row (q : quirks) (u : string) : lrow :=
  let g := gen_lookup u in
  let r := if has q (fl "section_not_read" u) then g
           else if row_good (norm_key u) g then g else (SrcMeta, [norm_key u], false) in
  match r with (s, ks, w) => (s, ks, if has q (fl "whole_config_fallback" u) then w else false) end.

Fixpoint first_present (keys : list string) (whole : bool) (cfg : dict) : option dict :=
  match keys with
  | [] => if whole then Some cfg else None
  | k :: r => match get k cfg with Some v => Some (as_map (Some v)) | None => first_present r whole cfg end
  end.

(* None = the rule runs with its class defaults *)
Definition find_section (r : lrow) (cfg : dict) : option dict :=
  match r with
  | (SrcNone, _, _) => None
  | (SrcCtx, ks, w) => if context_has_config_attr then first_present ks w cfg else None
  | (_, ks, w) => first_present ks w cfg
  end.

Fixpoint assoc_s {A} (k : string) (l : list (string * A)) : option A :=
  match l with [] => None | (k', v) :: r => if String.eqb k k' then Some v else assoc_s k r end.

(* a value that is not a mapping where a mapping is expected (`nesting: 5`, `nesting: {python: [1]}`) *)
Definition nonmap (v : option val) : bool := match v with Some (VMap _) => false | Some _ => true | None => false end.

Fixpoint first_nonmap (keys : list string) (cfg : dict) : bool :=
  match keys with
  | [] => false
  | k :: r => match get k cfg with Some v => nonmap (Some v) | None => first_nonmap r cfg end
  end.

(* the entry the rule finds as its section is not a mapping *)
Definition section_nonmap (r : lrow) (cfg : dict) : bool :=
  match r with
  | (SrcNone, _, _) => false
  | (SrcCtx, ks, _) => if context_has_config_attr then first_nonmap ks cfg else false
  | (_, ks, _) => first_nonmap ks cfg
  end.

(* rules that hand the entry to from_dict without testing its type call `.get` on it: AttributeError *)
Definition section_crash (q : quirks) (u : string) (r : lrow) (cfg : dict) : bool :=
  has q (fl "non_mapping_section_crashes" u) && smem u section_type_unchecked && section_nonmap r cfg.

(* from_dict dereferences the block of the file's language (`config[language].get`) resp. fixed language
   blocks (dry: config.get("python", {}).get) without testing the type *)
Definition lang_block_crash (q : quirks) (u : string) (sect : dict) (lang : string) : bool :=
  has q "non_mapping_language_block_crashes"
  && ((smem u lang_block_unchecked_own && nonmap (get lang sect))
      || existsb (fun l => nonmap (get l sect)) (match assoc_s u lang_block_unchecked_fixed with Some l => l | None => [] end)).

(* ------------------------------------------------------------------ option resolution (from_dict) *)
Fixpoint assoc {A} (k : string) (l : list (string * A)) : option A :=
  match l with [] => None | (k', v) :: r => if String.eqb k k' then Some v else assoc k r end.

Definition has_opt (opts : list (string * dval)) (o : string) : bool :=
  match assoc o opts with Some _ => true | None => false end.
Definition default_of (opts : list (string * dval)) (o : string) : dval :=
  match assoc o opts with Some d => d | None => DOther end.

Definition gen_opts (u : string) : list (string * dval) := match assoc u opt_defaults with Some l => l | None => [] end.
Definition unit_opts (q : quirks) (u : string) : list (string * dval) :=
  let g := gen_opts u in
  if has q (fl "enabled_option_missing" u) then g
  else if has_opt g "enabled" then g else ("enabled", DBool true) :: g.

(* options a per-language sub-section may override; the documentation promises this for dry's thresholds too *)
Definition doc_extra_lang_opts (u : string) : list string :=
  if String.eqb u "dry" then ["min_duplicate_lines"] else [].
Definition gen_lang_opts (u : string) : list string := match assoc u lang_override_opts with Some l => l | None => [] end.
Definition lang_opts (q : quirks) (u : string) : list string :=
  if has q (fl "language_override_ignored" u) then gen_lang_opts u else gen_lang_opts u ++ doc_extra_lang_opts u.

(* lang_config.get(opt, config.get(opt, <default>)) when `language in config`, else config.get(opt, <default>) *)
Definition opt_lookup (lopts : list string) (sect : dict) (lang opt : string) : option val :=
  if smem opt lopts then
    match get lang sect with
    | Some (VMap ls) => match get opt ls with Some v => Some v | None => get opt sect end
    | _ => get opt sect
    end
  else get opt sect.

Definition as_int (v : option val) (d : dval) : option Z :=
  match v with
  | Some (VInt z) => Some z
  | Some _ => None
  | None => match d with DInt z => Some z | _ => None end
  end.
Definition truthy (v : val) : bool :=
  match v with
  | VBool b => b | VInt z => negb (Z.eqb z 0) | VStr s => negb (String.eqb s "")
  | VList l => match l with [] => false | _ => true end
  | VMap m => match m with [] => false | _ => true end
  end.
Definition as_bool (v : option val) (d : dval) : bool :=
  match v with Some x => truthy x | None => match d with DBool b => b | _ => true end end.
Definition as_ints (v : option val) (d : dval) : list Z :=
  match v with Some (VList l) => ints l | Some _ => [] | None => match d with DInts l => l | _ => [] end end.

(* ------------------------------------------------------------------ guards *)
Definition grow := (string * cmp * Z)%type.
Definition guards_of (tbl : list (string * string * cmp * Z)) (u : string) : list grow :=
  flat_map (fun g => match g with (u', o, c, b) => if String.eqb u u' then [(o, c, b)] else [] end) tbl.

Inductive status := StOk | StValue | StType.
(* __post_init__: a guard that holds raises ValueError; comparing a non-number raises TypeError; the first
   failing guard decides *)
Fixpoint check_guards (gs : list grow) (ri : string -> option Z) : status :=
  match gs with
  | [] => StOk
  | (o, c, b) :: r =>
    match ri o with
    | None => StType
    | Some z => if cmp_Z c z b then StValue else check_guards r ri
    end
  end.

(* ------------------------------------------------------------------ verdicts *)
(* what a rule reports on the rendered source, given its effective options: one violation per firing probe *)
Inductive probe :=
| PAlways (m : string)
| PGt (m opt : string)            (* metric >  limit *)
| PGe (m opt : string)            (* metric >= limit *)
| PLe (m opt : string)            (* metric <= limit *)
| PNotIn (m opt : string)         (* metric not in the allowed list *)
| PRange (m allowed mx : string)  (* range(metric): not allowed and not 0 <= metric <= max *)
| PSwitchOn (m opt : string)      (* construct present and detector switched on *)
| PSwitchOff (m opt : string)     (* construct present and allowance switched off *)
| POr (a b : probe)               (* one violation when either condition holds (srp: one report per class) *)
| PAnd (a b : probe).             (* one violation when both conditions hold (dry: long enough and often enough) *)

Definition unit_probes (u : string) : list probe :=
  if String.eqb u "nesting" then [PGt "depth" "max_nesting_depth"]
  else if String.eqb u "srp" then [POr (PGt "methods" "max_methods") (PGt "loc" "max_loc")]
  else if String.eqb u "dry" then [PAnd (PGe "dup_lines" "min_duplicate_lines") (PGe "occurrences" "min_occurrences")]
  else if String.eqb u "magic-numbers" then [PNotIn "value" "allowed_numbers"; PRange "range_arg" "allowed_numbers" "max_small_integer"]
  else if String.eqb u "print-statements" then [PAlways "print"; PSwitchOff "main_print" "allow_in_scripts"]
  else if String.eqb u "improper-logging" then [PAlways "print"; PSwitchOff "main_print" "allow_in_scripts"]
  else if String.eqb u "method-property" then [PLe "body_statements" "max_body_statements"]
  else if String.eqb u "stateless-class" then [PGe "methods" "min_methods"]
  else if String.eqb u "collection-pipeline" then [PGe "continues" "min_continues"]
  else if String.eqb u "stringly-typed" then [PAnd (PGe "occurrences" "min_occurrences")
                                                   (PAnd (PGe "values" "min_values_for_enum") (PLe "values" "max_values_for_enum"))]
  else if String.eqb u "file-header" then [PAlways "no_header"]
  else if String.eqb u "lazy-ignores" then [PAlways "noqa"]
  else if String.eqb u "lbyl" then [PSwitchOn "dict_key_check" "detect_dict_key"]
  else if String.eqb u "cqs" then [PAlways "mixed"]
  else if String.eqb u "performance" then [PAlways "concat_in_loop"]
  else if String.eqb u "unwrap-abuse" then [PAlways "unwrap"; PSwitchOff "expect" "allow_expect"]
  else if String.eqb u "clone-abuse" then [PSwitchOn "clone_in_loop" "detect_clone_in_loop"]
  else if String.eqb u "blocking-async" then [PSwitchOn "fs_in_async" "detect_fs_in_async"; PSwitchOn "sleep_in_async" "detect_sleep_in_async"]
  else [].

Definition zmem (z : Z) (l : list Z) : bool := existsb (Z.eqb z) l.

Fixpoint fires (opts : list (string * dval)) (res : string -> option val) (ms : list (string * Z)) (p : probe) : bool :=
  let oi o := as_int (res o) (default_of opts o) in
  let ob o := as_bool (res o) (default_of opts o) in
  let ol o := as_ints (res o) (default_of opts o) in
  match p with
  | PAlways m => match assoc m ms with Some _ => true | None => false end
  | PGt m o => match assoc m ms, oi o with Some x, Some l => Z.ltb l x | _, _ => false end
  | PGe m o => match assoc m ms, oi o with Some x, Some l => Z.leb l x | _, _ => false end
  | PLe m o => match assoc m ms, oi o with Some x, Some l => Z.leb x l | _, _ => false end
  | PNotIn m o => match assoc m ms with Some x => negb (zmem x (ol o)) | None => false end
  | PRange m a mx => match assoc m ms, oi mx with
                     | Some x, Some l => negb (zmem x (ol a)) && negb (Z.leb 0 x && Z.leb x l)
                     | _, _ => false
                     end
  | PSwitchOn m o => match assoc m ms with Some _ => ob o | None => false end
  | PSwitchOff m o => match assoc m ms with Some _ => negb (ob o) | None => false end
  | POr a b => fires opts res ms a || fires opts res ms b
  | PAnd a b => fires opts res ms a && fires opts res ms b
  end.

Inductive outcome := Exit2 | Ran (n : nat).

(* what the rule reports once its configuration object exists: `enabled`, the rule's own ignore list, probes *)
Definition unit_body (opts : list (string * dval)) (probes : list probe)
           (res : string -> option val) (fname : string) (ms : list (string * Z)) : nat :=
  let res' o := if has_opt opts o then res o else None in
  if negb (as_bool (res' "enabled") (default_of opts "enabled")) then 0
  else if existsb (String.eqb fname) (str_list (res' "ignore")) then 0
  else List.length (filter (fires opts res' ms) probes).

Definition guard_status (opts : list (string * dval)) (gs : list grow) (res : string -> option val) : status :=
  check_guards gs (fun o => as_int (if has_opt opts o then res o else None) (default_of opts o)).

(* one rule on one file.
   [res]     : option values as from_dict(section, language) resolves them (language block first),
   [res_top] : as from_dict(section) resolves them (top level of the section only).
   ValueError (a guard holds) is re-raised => exit 2.  [retry_v]/[retry_t]: the exception makes load_linter_config
   build the configuration again WITHOUT the language; [swallow]: a TypeError that survives is logged and the rule
   reports nothing; [check_top]: the top-level value is validated even when a language block shadows it. *)
Definition unit_outcome (opts : list (string * dval)) (gs : list grow) (probes : list probe)
           (retry_v retry_t swallow check_top : bool)
           (res res_top : string -> option val) (fname : string) (ms : list (string * Z)) : outcome :=
  let second :=
    match guard_status opts gs res_top with
    | StOk => Ran (unit_body opts probes res_top fname ms)
    | StValue => Exit2
    | StType => if swallow then Ran 0 else Exit2
    end in
  match guard_status opts gs res with
  | StOk =>
    if check_top then
      match guard_status opts gs res_top with
      | StOk => Ran (unit_body opts probes res fname ms)
      | _ => Exit2
      end
    else Ran (unit_body opts probes res fname ms)
  | StValue => if retry_v then second else Exit2
  | StType => if retry_t then second else if swallow then Ran 0 else Exit2
  end.

(* dry: the values of the language blocks are stored in fields of their own (python_min_occurrences ...) that
   __post_init__ never looks at: only the top-level values are validated, the block's value is used as it is
   (a non-number there fails when it is compared, at the end of the run: exit 2) *)
Definition unit_outcome_unvalidated (opts : list (string * dval)) (gs : list grow) (probes : list probe) (swallow : bool)
           (res res_top : string -> option val) (fname : string) (ms : list (string * Z)) : outcome :=
  match guard_status opts gs res_top with
  | StValue => Exit2
  | StType => if swallow then Ran 0 else Exit2
  | StOk => match guard_status opts gs res with
            | StType => Exit2
            | _ => Ran (unit_body opts probes res fname ms)
            end
  end.

Definition lang_unvalidated (q : quirks) (u : string) : bool :=
  has q (fl "language_block_value_not_validated" u) && smem u lang_values_unvalidated.

Definition swallow_types (q : quirks) : bool := if has q "wrong_type_swallowed" then other_errors_swallowed else false.
(* load_linter_config: `except <retry_exceptions>: config_class.from_dict(config_dict)` *)
Definition retries (q : quirks) (u exc : string) : bool :=
  if has q "language_block_error_retried_without_language" then smem u retry_units && smem exc retry_exceptions else false.
Definition checks_top (q : quirks) : bool := negb (has q "invalid_top_level_value_shadowed_by_language_block").

(* ------------------------------------------------------------------ the whole run *)
Definition run (q : quirks) (c : case) : outcome :=
  match loaded q c with
  | None => Exit2
  | Some cfg0 =>
    if existsb (String.eqb (c_fname c)) (repo_patterns q c) then Ran 0 else
    let cfg := apply_overrides q cli_overrides (c_cmd c) (c_overrides c) cfg0 in
    let u := c_unit c in
    let row := lookup_row q u in
    let sect := match find_section row cfg with Some s => s | None => [] end in
    if section_crash q u row cfg || lang_block_crash q u sect (c_lang c)
    then (if swallow_types q then Ran 0 else Exit2) else
    if lang_unvalidated q u
    then unit_outcome_unvalidated (unit_opts q u) (guards_of guards u) (unit_probes u) (swallow_types q)
                 (opt_lookup (lang_opts q u) sect (c_lang c)) (opt_lookup [] sect (c_lang c)) (c_fname c) (c_metrics c)
    else
    unit_outcome (unit_opts q u) (guards_of guards u) (unit_probes u)
                 (retries q u "ValueError") (retries q u "TypeError") (swallow_types q) (checks_top q)
                 (opt_lookup (lang_opts q u) sect (c_lang c)) (opt_lookup [] sect (c_lang c)) (c_fname c) (c_metrics c)
  end.

(* ================================================================== specification *)
(* What the property and the documentation demand, stated directly:
   - the configuration is the document of the carrier that wins by precedence
     (--config, then .thailint.yaml, then .thailint.json, then pyproject.toml [tool.thailint]);
     a missing / unsupported / unparsable --config file or an unparsable selected file is exit 2;
   - the top-level `ignore` list of that document, and the patterns of .thailintignore, silence every linter on the
     matching file; where the linted file lies below the project directory makes no difference;
   - the linter's section is the entry whose name equals the documented name up to hyphen/underscore
     (the later entry when a document spells it twice);
   - an option's value is the CLI threshold option if given, else the per-language sub-section's value
     (for options documented as overridable per language), else the section's value, else the default;
   - a documented-invalid value (non-positive limit, wrong type) is exit 2, whether it is the effective value
     (the language block's, if any) or the top-level value a language block shadows; `enabled: false` reports nothing. *)

Fixpoint find_last {A} (f : string * A -> bool) (l : list (string * A)) : option A :=
  match l with
  | [] => None
  | kv :: r => match find_last f r with Some v => Some v | None => if f kv then Some (snd kv) else None end
  end.

Definition section_of (u : string) (raw : dict) : dict :=
  as_map (find_last (fun kv => String.eqb (norm_key (fst kv)) (norm_key u)) raw).

Definition spec_dash (c : case) : option dashcfg := p_dash (c_proj c).

Definition spec_discovered (p : project) : lres :=
  match p_yaml p with
  | Doc d => LDoc KYaml d
  | Unparsable => LErr
  | Absent =>
    match p_json p with
    | Doc d => LDoc KJson d
    | Unparsable => LErr
    | Absent => match p_pyproject p with Doc d => LDoc KPy d | Unparsable => LErr | Absent => LDoc KNone [] end
    end
  end.

Definition doc_valid_suffixes : list string := [".yaml"; ".yml"; ".json"].

Definition spec_selected (c : case) : lres :=
  match spec_discovered (c_proj c) with
  | LErr => LErr
  | LDoc k raw =>
    match spec_dash c with
    | None => LDoc k raw
    | Some d => match d_file d with
                | Doc r => if smem (d_suffix d) doc_valid_suffixes then LDoc KDash r else LErr
                | _ => LErr
                end
    end
  end.

(* documented CLI threshold options: command, option, configuration option it overrides *)
Definition doc_cli_opts : list (string * string * string) :=
  [("nesting", "--max-depth", "max_nesting_depth"); ("srp", "--max-methods", "max_methods"); ("srp", "--max-loc", "max_loc");
   ("dry", "--min-lines", "min_duplicate_lines"); ("pipeline", "--min-continues", "min_continues")].

Definition cli_targets (cmd cli : string) : list string :=
  flat_map (fun r => match r with (c, o, opt) => if String.eqb c cmd && String.eqb o cli then [opt] else [] end) doc_cli_opts.

(* the last CLI option given for configuration option [opt] *)
Fixpoint spec_cli (cmd : string) (ovs : list (string * Z)) (opt : string) : option Z :=
  match ovs with
  | [] => None
  | (cli, z) :: r => match spec_cli cmd r opt with
                     | Some z' => Some z'
                     | None => if smem opt (cli_targets cmd cli) then Some z else None
                     end
  end.

(* options documented as overridable per language *)
Definition doc_lang_opts (u : string) : list string :=
  if String.eqb u "nesting" then ["max_nesting_depth"]
  else if String.eqb u "srp" then ["max_methods"; "max_loc"]
  else if String.eqb u "magic-numbers" then ["max_small_integer"; "allowed_numbers"]
  else if String.eqb u "print-statements" then ["allow_in_scripts"; "console_methods"]
  else if String.eqb u "improper-logging" then ["allow_in_scripts"; "console_methods"]
  else if String.eqb u "dry" then ["min_occurrences"; "min_duplicate_lines"]
  else if String.eqb u "stringly-typed" then ["ignore"; "enabled"; "min_occurrences"; "min_values_for_enum"; "max_values_for_enum";
                                              "require_cross_file"; "allowed_string_sets"; "exclude_variables"]
  else [].

Definition spec_res (c : case) (sect : dict) (opt : string) : option val :=
  match spec_cli (c_cmd c) (c_overrides c) opt with
  | Some z => Some (VInt z)
  | None => opt_lookup (doc_lang_opts (c_unit c)) sect (c_lang c) opt
  end.
(* the value written at the top level of the section (a CLI option replaces it too) *)
Definition spec_res_top (c : case) (sect : dict) (opt : string) : option val :=
  match spec_cli (c_cmd c) (c_overrides c) opt with
  | Some z => Some (VInt z)
  | None => get opt sect
  end.

(* documented options with their defaults (docs/*-linter.md, docs/configuration.md; `enabled` is documented for
   every linter) *)
Definition doc_opts (u : string) : list (string * dval) :=
  if String.eqb u "nesting" then [("max_nesting_depth", DInt 4); ("enabled", DBool true)]
  else if String.eqb u "srp" then [("max_methods", DInt 7); ("max_loc", DInt 200); ("enabled", DBool true); ("check_keywords", DBool true); ("keywords", DOther); ("ignore", DOther)]
  else if String.eqb u "dry" then [("python", DOther); ("typescript", DOther); ("javascript", DOther); ("filters", DOther); ("enabled", DBool false);
         ("min_duplicate_lines", DInt 3); ("min_duplicate_tokens", DInt 30); ("min_occurrences", DInt 2); ("storage_mode", DOther); ("ignore", DOther);
         ("detect_duplicate_constants", DBool true); ("min_constant_occurrences", DInt 2)]
  else if String.eqb u "magic-numbers" then [("allowed_numbers", DInts [(-1); 0; 1; 2; 3; 4; 5; 10; 21; 22; 80; 100; 443; 1000; 3000; 5000; 8080; 8443]%Z);
         ("max_small_integer", DInt 10); ("ignore", DOther); ("enabled", DBool true); ("exempt_definition_files", DBool true)]
  else if String.eqb u "print-statements" then [("allow_in_scripts", DBool true); ("console_methods", DOther); ("ignore", DOther); ("enabled", DBool true)]
  else if String.eqb u "improper-logging" then [("allow_in_scripts", DBool true); ("console_methods", DOther); ("ignore", DOther); ("enabled", DBool true)]
  else if String.eqb u "method-property" then [("ignore", DOther); ("ignore_methods", DOther); ("enabled", DBool true); ("max_body_statements", DInt 3)]
  else if String.eqb u "stateless-class" then [("ignore", DOther); ("enabled", DBool true); ("min_methods", DInt 2); ("exempt_test_classes", DBool true); ("exempt_mixins", DBool true)]
  else if String.eqb u "collection-pipeline" then [("enabled", DBool true); ("min_continues", DInt 1); ("ignore", DOther); ("detect_any_all", DBool true);
         ("detect_filter_map", DBool true); ("use_walrus_operator", DBool true)]
  else if String.eqb u "stringly-typed" then [("ignore", DOther); ("enabled", DBool true); ("min_occurrences", DInt 2); ("min_values_for_enum", DInt 2);
         ("max_values_for_enum", DInt 6); ("require_cross_file", DBool true); ("allowed_string_sets", DOther); ("exclude_variables", DOther)]
  else if String.eqb u "file-header" then [("enabled", DBool true); ("required_fields", DOther); ("enforce_atemporal", DBool true); ("ignore", DOther)]
  else if String.eqb u "lazy-ignores" then [("enabled", DBool true); ("check_noqa", DBool true); ("check_type_ignore", DBool true); ("check_pylint_disable", DBool true);
         ("check_nosec", DBool true); ("check_pyright_ignore", DBool true); ("check_ts_ignore", DBool true); ("check_eslint_disable", DBool true);
         ("check_thailint_ignore", DBool true); ("check_test_skips", DBool true); ("check_orphaned", DBool true);
         ("allow_inline_justifications", DBool true); ("min_justification_length", DInt 10); ("ignore_patterns", DOther)]
  else if String.eqb u "lbyl" then [("enabled", DBool true); ("detect_dict_key", DBool true); ("detect_hasattr", DBool true); ("detect_isinstance", DBool false);
         ("detect_file_exists", DBool true); ("detect_len_check", DBool true); ("detect_none_check", DBool false); ("detect_string_validation", DBool true);
         ("detect_division_check", DBool true); ("ignore", DOther)]
  else if String.eqb u "cqs" then [("enabled", DBool true); ("min_operations", DInt 1); ("ignore_methods", DOther); ("ignore_decorators", DOther);
         ("ignore_patterns", DOther); ("detect_fluent_interface", DBool true)]
  else if String.eqb u "performance" then [("enabled", DBool true)]
  else if String.eqb u "unwrap-abuse" then [("enabled", DBool true); ("allow_in_tests", DBool true); ("allow_expect", DBool true); ("ignore", DOther)]
  else if String.eqb u "clone-abuse" then [("enabled", DBool true); ("allow_in_tests", DBool true); ("detect_clone_in_loop", DBool true);
         ("detect_clone_chain", DBool true); ("detect_unnecessary_clone", DBool true); ("ignore", DOther)]
  else if String.eqb u "blocking-async" then [("enabled", DBool true); ("allow_in_tests", DBool true); ("detect_fs_in_async", DBool true);
         ("detect_sleep_in_async", DBool true); ("detect_net_in_async", DBool true); ("ignore", DOther)]
  else [].

(* documented-invalid ranges: option, comparison, bound (value `cmp` bound is invalid) *)
Definition doc_guards (u : string) : list grow :=
  if String.eqb u "nesting" then [("max_nesting_depth", CLe, 0%Z)]
  else if String.eqb u "srp" then [("max_methods", CLe, 0%Z); ("max_loc", CLe, 0%Z)]
  else if String.eqb u "dry" then [("min_duplicate_lines", CLe, 0%Z); ("min_duplicate_tokens", CLe, 0%Z); ("min_occurrences", CLe, 0%Z); ("min_constant_occurrences", CLe, 0%Z)]
  else if String.eqb u "magic-numbers" then [("max_small_integer", CLe, 0%Z)]
  else if String.eqb u "collection-pipeline" then [("min_continues", CLt, 1%Z)]
  else if String.eqb u "stringly-typed" then [("min_occurrences", CLt, 1%Z); ("min_values_for_enum", CLt, 2%Z)]
  else [].

Definition spec (c : case) : outcome :=
  match spec_selected c with
  | LErr => Exit2
  | LDoc _ raw =>
    if existsb (String.eqb (c_fname c)) (p_ignore_file (c_proj c) ++ str_list (get "ignore" raw)) then Ran 0 else
    let u := c_unit c in
    unit_outcome (doc_opts u) (doc_guards u) (unit_probes u) false false false true
                 (spec_res c (section_of u raw)) (spec_res_top c (section_of u raw)) (c_fname c) (c_metrics c)
  end.

(* ------------------------------------------------------------------ domain of the theorems *)
(* the unit is a documented one, the command is the unit's (or a library run without CLI options), sections
   and language sub-sections need not be mappings (a non-mapping counts as absent in the specification: the linter
   runs with the remaining values / its defaults) *)
Definition case_good (c : case) : bool :=
  smem (c_unit c) units
  && (String.eqb (c_cmd c) (cmd_of (c_unit c)) || (String.eqb (c_cmd c) "" && match c_overrides c with [] => true | _ => false end)).

Definition count_of (o : outcome) : nat := match o with Exit2 => 0 | Ran n => n end.
