(* Model/Output.v — executable, quirk-parametric model of the output side of every linter command (C06):
   violations as records, the three renderers of src/core/cli_utils.py + src/formatters/sarif.py as
   functions to a JSON value / to the stdout text, the exit status, the usage-error classes, and the
   specification side: decoders of the three documented formats and SARIF well-formedness.
   All literals (keys, f-strings, constants, exit codes) come from Gen/OutputGen.v.  No proofs here. *)
From TL Require Import Lib.Base Model.OutputTypes Gen.OutputGen.
From Coq Require Import ZArith DecimalString Decimal.
Local Open Scope Z_scope.
Local Open Scope string_scope.

(* ------------------------------------------------------------------ data *)
(* Python strings are modelled by their bytes under the surrogateescape encoding (what the OS / a file
   system handed to Python); an undecodable byte stays itself. *)
Record viol := { v_rule : string; v_file : string; v_line : Z; v_col : Z; v_msg : string }.

Inductive json :=
| JNull | JBool (b : bool) | JNum (z : Z) | JStr (s : string)
| JArr (l : list json) | JObj (l : list (string * json)).

(* quirk flags: true = what the code does, false = what the property demands *)
Record oquirks := {
  q_sarif_unsanitized : bool;            (* SARIF leaves as the source has them (true) / file and message forced through _sanitize_string (false) *)
  q_syntax_line_zero : bool;             (* syntax-error default line as the source has it, `lineno or K` (true) / 1 (false) *)
  q_text_omit_zero : bool;               (* text omits the line when 0 and the column when 0: `p:3` is ambiguous *)
  q_text_raw_newline : bool;             (* text prints newlines inside paths / messages raw *)
  q_group_missing_config_ignored : bool; (* `thailint --config missing.yaml <cmd>`: as the source has it, exit k iff it checks (true) / exit 2 (false) *)
  q_dry_empty_config_crashes : bool;     (* `dry --config <empty file>`: as the source has it, crash unless guarded (true) / never (false) *)
  q_valueerror_aborts_run : bool         (* a rule failing with any ValueError subclass (UnicodeEncodeError from the SQLite storage of the
                                            stringly-typed rule) ends the whole run: policy of _safe_check_rule as the source has it (true) /
                                            only a genuine configuration ValueError ends the run (false) *)
}.
Definition ideal : oquirks := Build_oquirks false false false false false false false.

(* ------------------------------------------------------------------ small string library *)
Definition nl : ascii := ascii_of_nat 10.
Definition nls : string := String nl "".

Fixpoint assoc {A} (k : string) (l : list (string * A)) : option A :=
  match l with [] => None | (k', x) :: r => if String.eqb k k' then Some x else assoc k r end.

Fixpoint has_char (c : ascii) (s : string) : bool :=
  match s with EmptyString => false | String a r => Ascii.eqb a c || has_char c r end.

(* split at the first occurrence of the two characters c1 c2 *)
Fixpoint split2 (c1 c2 : ascii) (s : string) : option (string * string) :=
  match s with
  | EmptyString => None
  | String a r =>
    match r with
    | EmptyString => None
    | String b r' =>
      if Ascii.eqb a c1 && Ascii.eqb b c2 then Some (EmptyString, r')
      else match split2 c1 c2 r with Some (x, y) => Some (String a x, y) | None => None end
    end
  end.

(* split at the last occurrence of c *)
Fixpoint rsplit (c : ascii) (s : string) : option (string * string) :=
  match s with
  | EmptyString => None
  | String a r =>
    match rsplit c r with
    | Some (x, y) => Some (String a x, y)
    | None => if Ascii.eqb a c then Some (EmptyString, r) else None
    end
  end.

(* prefix before the first occurrence of c (the whole string when there is none): `s.split(c)[0]` *)
Fixpoint before_first (c : ascii) (s : string) : string :=
  match s with EmptyString => EmptyString | String a r => if Ascii.eqb a c then EmptyString else String a (before_first c r) end.

Fixpoint strip_prefix (p s : string) : option string :=
  match p with
  | EmptyString => Some s
  | String a p' => match s with String b s' => if Ascii.eqb a b then strip_prefix p' s' else None | EmptyString => None end
  end.

(* Python's s.split("\n") *)
Fixpoint split_nl (s : string) : list string :=
  match s with
  | EmptyString => [EmptyString]
  | String a r =>
    if Ascii.eqb a nl then EmptyString :: split_nl r
    else match split_nl r with h :: t => String a h :: t | [] => [String a EmptyString] end
  end.

Definition is_digit (a : ascii) : bool := let n := nat_of_ascii a in (48 <=? n)%nat && (n <=? 57)%nat.
Fixpoint only_digits (s : string) : bool :=
  match s with EmptyString => true | String a r => is_digit a && only_digits r end.
Definition all_digits (s : string) : bool := match s with EmptyString => false | _ => only_digits s end.

Definition show_Z (z : Z) : string := NilEmpty.string_of_int (Z.to_int z).
(* a non-empty run of decimal digits *)
Definition read_digits (s : string) : option Z :=
  if all_digits s then option_map Z.of_int (NilEmpty.int_of_string s) else None.
(* optional minus sign followed by digits *)
Definition read_int (s : string) : option Z :=
  match s with
  | String a r => if Ascii.eqb a "-"%char then option_map Z.opp (read_digits r) else read_digits s
  | EmptyString => None
  end.

(* ------------------------------------------------------------------ _sanitize_string
   text.encode("utf-8", errors="surrogateescape").decode("utf-8", errors="replace") on the byte model:
   every maximal invalid part of the byte string becomes U+FFFD (EF BF BD); valid UTF-8 is unchanged.
   (CPython's decoder is the oracle; this function is compared with it on generated byte strings.) *)
Definition fffd : string := String (ascii_of_nat 239) (String (ascii_of_nat 191) (String (ascii_of_nat 189) EmptyString)).

(* start of a sequence: (continuation bytes still needed, allowed range of the next byte) or reject *)
Definition utf8_start (b : nat) : option (nat * nat * nat) :=
  (if (194 <=? b) && (b <=? 223) then Some (1, 128, 191)
   else if b =? 224 then Some (2, 160, 191)
   else if b =? 237 then Some (2, 128, 159)
   else if (225 <=? b) && (b <=? 239) then Some (2, 128, 191)
   else if b =? 240 then Some (3, 144, 191)
   else if b =? 244 then Some (3, 128, 143)
   else if (241 <=? b) && (b <=? 243) then Some (3, 128, 191)
   else None)%nat.

(* state: need = continuation bytes missing, [lo,hi] = range allowed for the next one, buf = bytes of the pending sequence *)
Fixpoint san_go (s : string) (need lo hi : nat) (buf : string) : string :=
  match s with
  | EmptyString => match need with O => EmptyString | _ => fffd end
  | String a r =>
    let b := nat_of_ascii a in
    let fresh :=   (* treat a as the first byte of a new sequence *)
      if (b <? 128)%nat then String a (san_go r 0 0 0 EmptyString)
      else match utf8_start b with
           | Some (n, l, h) => san_go r n l h (String a EmptyString)
           | None => fffd ++ san_go r 0 0 0 EmptyString
           end in
    match need with
    | O => fresh
    | S n =>
      if ((lo <=? b) && (b <=? hi))%nat then
        match n with
        | O => buf ++ String a (san_go r 0 0 0 EmptyString)
        | _ => san_go r n 128 191 (buf ++ String a EmptyString)
        end
      else fffd ++ fresh
    end
  end.
Definition sanitize (s : string) : string := san_go s 0 0 0 EmptyString.

(* specification side: the well-formed UTF-8 byte sequences (Unicode Table 3-7: no overlong forms, no encoded
   surrogates, nothing above U+10FFFF) as a recogniser of its own; compared with CPython's strict decoder every run *)
Fixpoint utf8_valid_go (s : string) (need lo hi : nat) : bool :=
  match s with
  | EmptyString => match need with O => true | _ => false end
  | String a r =>
    let b := nat_of_ascii a in
    match need with
    | O => if (b <? 128)%nat then utf8_valid_go r 0 0 0
           else match utf8_start b with Some (n, l, h) => utf8_valid_go r n l h | None => false end
    | S n => if ((lo <=? b) && (b <=? hi))%nat
             then match n with O => utf8_valid_go r 0 0 0 | _ => utf8_valid_go r n 128 191 end
             else false
    end
  end.
Definition utf8_valid (s : string) : bool := utf8_valid_go s 0 0 0.

(* ------------------------------------------------------------------ leaves and f-strings *)
Inductive lval := VS (s : string) | VI (z : Z).

Fixpoint eval_leaf (l : leaf) (v : viol) : lval :=
  match l with
  | LField FRule => VS (v_rule v)
  | LField FFile => VS (v_file v)
  | LField FLine => VI (v_line v)
  | LField FCol => VI (v_col v)
  | LField FMsg => VS (v_msg v)
  | LField FSev => VS severity_default
  | LSan l' => match eval_leaf l' v with VS s => VS (sanitize s) | x => x end
  | LPlus l' k => match eval_leaf l' v with VI z => VI (z + k) | x => x end
  end.

Definition lval_json (x : lval) : json := match x with VS s => JStr s | VI z => JNum z end.
Definition lval_str (x : lval) : string := match x with VS s => s | VI z => show_Z z end.
(* Python truthiness of a str / int *)
Definition lval_truthy (x : lval) : bool := match x with VS EmptyString => false | VS _ => true | VI z => negb (z =? 0)%Z end.

Definition fmt (parts : list fpart) (v : viol) (locals : list (string * string)) (n : nat) : string :=
  sconcat (map (fun p => match p with
                         | PLit s => s
                         | PLeaf l => lval_str (eval_leaf l v)
                         | PLocal x => match assoc x locals with Some s => s | None => EmptyString end
                         | PLen => show_Z (Z.of_nat n)
                         end) parts).

Definition dummy : viol := Build_viol "" "" 0 0 "".

(* ------------------------------------------------------------------ JSON renderer (_output_json) *)
Definition json_viol (v : viol) : json :=
  JObj (map (fun kl => (fst kl, lval_json (eval_leaf (snd kl) v))) json_viol_fields).

Definition render_json (vs : list viol) : json :=
  JObj (map (fun kt => (fst kt, match snd kt with
                                | JTViolations => JArr (map json_viol vs)
                                | JTTotal => JNum (Z.of_nat (List.length vs))
                                end)) json_top).

(* ------------------------------------------------------------------ SARIF renderer (SarifFormatter.format) *)
(* _create_rules: first occurrence of every rule id, in order *)
Fixpoint first_occ (seen : list string) (vs : list viol) : list viol :=
  match vs with
  | [] => []
  | v :: r => if smem (v_rule v) seen then first_occ seen r else v :: first_occ (v_rule v :: seen) r
  end.
Definition rules_of (vs : list viol) : list viol :=
  match sarif_rules_mode with RulesFirstOccurrence => first_occ [] vs | RulesEvery => vs end.

Definition sep_char : ascii := match sarif_category_separator with String a _ => a | EmptyString => "."%char end.
Definition description (v : viol) : string :=
  match assoc (before_first sep_char (v_rule v)) sarif_descriptions with
  | Some d => d
  | None => fmt sarif_default_description v [] 0
  end.

(* the property demands that SARIF describes the same strings as JSON / text: with the flag off the raw
   file / message leaves of the SARIF templates are passed through the sanitiser as well *)
Definition patch_leaf (q : oquirks) (l : leaf) : leaf :=
  if q_sarif_unsanitized q then l
  else match l with LField FFile => LSan l | LField FMsg => LSan l | _ => l end.

Fixpoint interp (fuel : nat) (q : oquirks) (version : string) (vs : list viol) (cur : viol) (desc : string) (t : tmpl) : json :=
  match fuel with
  | O => JNull
  | S f =>
    let call m c d := match assoc m sarif_templates with Some t' => interp f q version vs c d t' | None => JNull end in
    match t with
    | TStr s => JStr s
    | TLeaf l => lval_json (eval_leaf (patch_leaf q l) cur)
    | TSelf n => match assoc n sarif_self_attrs with Some (SConst s) => JStr s | Some SEnvVersion => JStr version | None => JNull end
    | TLocal n => if String.eqb n "description" then JStr desc else JNull
    | TObj fs => JObj (map (fun kt => (fst kt, interp f q version vs cur desc (snd kt))) fs)
    | TArr ts => JArr (map (interp f q version vs cur desc) ts)
    | TCallOne m => call m cur desc
    | TCallAll m =>
      if String.eqb m "_create_rules" then JArr (map (fun v => call "_create_rule" v (description v)) (rules_of vs))
      else call m cur desc
    | TMapAll m => JArr (map (fun v => call m v desc) vs)
    end
  end.

Definition render_sarif (q : oquirks) (version : string) (vs : list viol) : json :=
  interp 24 q version vs dummy "" (TCallAll "format").

(* ------------------------------------------------------------------ text renderer (_output_text) *)
(* the ideal format escapes backslash and newline so that one violation is always exactly three lines *)
Fixpoint escape (s : string) : string :=
  match s with
  | EmptyString => EmptyString
  | String a r =>
    if Ascii.eqb a nl then String "\"%char (String "n"%char (escape r))
    else if Ascii.eqb a "\"%char then String "\"%char (String "\"%char (escape r))
    else String a (escape r)
  end.
Fixpoint unescape (s : string) : string :=
  match s with
  | EmptyString => EmptyString
  | String a r =>
    if Ascii.eqb a "\"%char then
      match r with
      | String b r' => if Ascii.eqb b "n"%char then String nl (unescape r') else String b (unescape r')
      | EmptyString => String a EmptyString
      end
    else String a (unescape r)
  end.
Definition tesc (q : oquirks) (s : string) : string := if q_text_raw_newline q then s else escape s.

Definition text_local_vals (q : oquirks) (v : viol) : list (string * string) :=
  map (fun kl => (fst kl, tesc q (lval_str (eval_leaf (snd kl) v)))) text_locals.

Definition text_location (q : oquirks) (v : viol) : string :=
  let ls := text_local_vals q v in
  let with_line := if q_text_omit_zero q then lval_truthy (eval_leaf text_loc_cond v) else true in
  let with_col := if q_text_omit_zero q then lval_truthy (eval_leaf text_col_cond v) else true in
  ((if with_line then fmt text_loc_then v ls 0 else fmt text_loc_else v ls 0)
   ++ (if with_col then fmt text_col_suffix v ls 0 else ""))%string.

(* the arguments of the three click.echo calls of _print_violation *)
Definition viol_echoes (q : oquirks) (v : viol) : list string :=
  let ls := ("location", text_location q v) :: text_local_vals q v in
  [fmt text_line1 v ls 0; fmt text_line2 v ls 0; EmptyString].

Definition text_echoes (q : oquirks) (vs : list viol) : list string :=
  match vs with
  | [] => [text_none_message]
  | _ => fmt text_header dummy [] (List.length vs) :: flat_map (viol_echoes q) vs
  end.

(* click.echo(s) writes s and a newline *)
Definition text_output (q : oquirks) (vs : list viol) : string :=
  sconcat (map (fun e => (e ++ nls)%string) (text_echoes q vs)).

(* ------------------------------------------------------------------ format dispatch *)
Inductive rendered := OutJson (j : json) | OutText (s : string).
Definition render (q : oquirks) (version : string) (format : string) (vs : list viol) : rendered :=
  match (match assoc format format_dispatch with Some r => r | None => format_default end) with
  | RJson => OutJson (render_json vs)
  | RSarif => OutJson (render_sarif q version vs)
  | RText => OutText (text_output q vs)
  end.

(* ------------------------------------------------------------------ exit status *)
Definition is_nonempty {A} (l : list A) : bool := match l with [] => false | _ => true end.

(* sys.exit(A if violations else B) of the command's executor *)
Definition exit_performed (cmd : string) (vs : list viol) : option Z :=
  match assoc cmd cli_exit_table with
  | Some (a, b) => Some (if is_nonempty vs then a else b)
  | None => None
  end.

(* classes of runs that cannot (or, for the last one, can) be performed *)
Inductive uclass :=
| UMissingPath          (* a path argument that does not exist *)
| UMissingConfig        (* <cmd> --config <file that does not exist> *)
| UMalformedConfig      (* <cmd> --config <file that is not parseable / not a mapping> *)
| UInvalidOption        (* unknown option or invalid --format value (click's own exit) *)
| UBadProjectRoot       (* --project-root <missing or not a directory> *)
| UBadInlineRules       (* file-placement --rules <invalid JSON> *)
| UGroupMissingConfig   (* thailint --config <file that does not exist> <cmd> *)
| UEmptyConfig          (* <cmd> --config <empty but valid YAML file>: the run CAN be performed *)
| UThreshold (v : Z).   (* <cmd> <integer-valued threshold option of the command> v (Gen threshold_options): invalid exactly when v is not positive *)

Inductive outcome := OExit (code : Z) | OPerformed.

Definition site (k : string) : outcome := match assoc k usage_exit_sites with Some z => OExit z | None => OPerformed end.
Definition click_usage_exit : Z := 2.   (* click.UsageError.exit_code: library oracle *)

Definition usage_outcome (q : oquirks) (cmd : string) (c : uclass) : outcome :=
  match c with
  | UMissingPath => site "missing_path"
  | UMissingConfig => if String.eqb cmd "dry" then site "dry_missing_config" else site "missing_config"
  | UMalformedConfig => site "linting_error"
  | UInvalidOption => OExit click_usage_exit
  | UBadProjectRoot => site "bad_project_root"
  | UBadInlineRules => site "bad_inline_rules"
  | UGroupMissingConfig =>
    (* flag on: as the source has it (Gen: the existence check every linter command passes through, if there is one) *)
    if q_group_missing_config_ignored q
    then match group_config_missing_exit with Some z => OExit z | None => OPerformed end
    else site "group_config_error"
  | UEmptyConfig =>
    (* flag on: as the source has it (Gen: is the result of yaml.safe_load guarded with `or {}`?) *)
    if q_dry_empty_config_crashes q && negb dry_config_null_guard && String.eqb cmd "dry" then site "linting_error" else OPerformed
  | UThreshold v =>
    (* the override reaches the configuration class, whose validator (Gen: smallest accepted value) raises ValueError -> handle_linting_error *)
    if (v <? threshold_min_valid)%Z then site "linting_error" else OPerformed
  end.

(* what the property demands *)
Definition spec_outcome (c : uclass) : outcome :=
  match c with
  | UEmptyConfig => OPerformed
  | UThreshold v => if (v <=? 0)%Z then OExit 2 else OPerformed      (* thresholds "must be positive" *)
  | _ => OExit 2
  end.

(* ------------------------------------------------------------------ a rule that fails while a file is linted *)
(* exception classes by their builtin ancestry (CPython; the harness checks it with issubclass every run) *)
Inductive excls := EUnicodeEncode | EConfigValue | EOther.
Definition ancestors (e : excls) : list string :=
  match e with
  | EUnicodeEncode => ["UnicodeEncodeError"; "UnicodeError"; "ValueError"; "Exception"]
  | EConfigValue => ["ValueError"; "Exception"]
  | EOther => ["Exception"]
  end.
(* first except clause of Orchestrator._safe_check_rule that matches: Some true = re-raised, Some false = swallowed *)
Fixpoint first_handler (anc : list string) (policy : list (string * bool)) : option bool :=
  match policy with
  | [] => None
  | (name, act) :: r => if smem name anc then Some act else first_handler anc r
  end.
Definition rule_failure_aborts (q : oquirks) (e : excls) : bool :=
  if q_valueerror_aborts_run q
  then match first_handler (ancestors e) rule_exception_policy with Some act => act | None => true end
  else match e with EConfigValue => true | _ => false end.

(* a linted file as far as this failure is concerned: is its name undecodable (surrogate-escaped bytes), and how many records
   (validation patterns, string-argument calls, string comparisons) do the stringly-typed analyzers store for it; sqlite3 cannot
   bind a str with a lone surrogate (library oracle), so storing at least one record for such a file raises UnicodeEncodeError *)
Record lintfile := { lf_undecodable : bool; lf_records : nat }.
Definition storage_raises (f : lintfile) : bool := lf_undecodable f && (0 <? lf_records f)%nat.

(* outcome of a run on existing paths with a usable configuration *)
Definition run_outcome (q : oquirks) (files : list lintfile) : outcome :=
  if existsb (fun f => storage_raises f && rule_failure_aborts q EUnicodeEncode) files then site "linting_error" else OPerformed.

(* ------------------------------------------------------------------ where violations with line 0 come from *)
(* `x or k` on an optional int *)
Definition pyor (o : option Z) (k : Z) : Z := match o with Some z => if (z =? 0)%Z then k else z | None => k end.

Inductive vsrc :=
| VPlain (v : viol)
| VSyntax (builder rule file : string) (lineno offset : option Z) (msg : string).   (* create_syntax_error_violation *)

Definition realize (q : oquirks) (s : vsrc) : viol :=
  match s with
  | VPlain v => v
  | VSyntax b rule file ln off msg =>
    match assoc b syntax_error_defaults with
    | Some (dl, dc, prefix, fixed) =>
      Build_viol (match fixed with Some r => r | None => rule end) file
                 (pyor ln (if q_syntax_line_zero q then dl else 1)) (pyor off dc) (prefix ++ msg)
    | None => Build_viol rule file (pyor ln 1) (pyor off 0) msg
    end
  end.

(* ================================================================== specification side *)
(* what every rendering must convey about a violation; strings as the sanitiser shows them *)
Definition core : Type := (string * string * Z * Z * string)%type.
Definition core_of (v : viol) : core := (v_rule v, v_file v, v_line v, v_col v, v_msg v).
Definition san_core (v : viol) : core := (v_rule v, sanitize (v_file v), v_line v, v_col v, sanitize (v_msg v)).

Definition get (k : string) (j : json) : option json := match j with JObj l => assoc k l | _ => None end.
Definition get_str (k : string) (j : json) : option string := match get k j with Some (JStr s) => Some s | _ => None end.
Definition get_num (k : string) (j : json) : option Z := match get k j with Some (JNum z) => Some z | _ => None end.
Definition get_arr (k : string) (j : json) : option (list json) := match get k j with Some (JArr l) => Some l | _ => None end.
Definition get_one (k : string) (j : json) : option json := match get k j with Some (JArr [x]) => Some x | _ => None end.
Definition bind {A B} (o : option A) (f : A -> option B) : option B := match o with Some x => f x | None => None end.

Fixpoint all_some {A} (l : list (option A)) : option (list A) :=
  match l with
  | [] => Some []
  | Some x :: r => match all_some r with Some r' => Some (x :: r') | None => None end
  | None :: _ => None
  end.

(* documented JSON format: {"violations": [{"rule_id","file_path","line","column","message",...}], "total": n} *)
Definition decode_json_viol (j : json) : option core :=
  bind (get_str "rule_id" j) (fun r => bind (get_str "file_path" j) (fun f => bind (get_num "line" j) (fun l =>
  bind (get_num "column" j) (fun c => bind (get_str "message" j) (fun m => Some (r, f, l, c, m)))))).
Definition decode_json (j : json) : option (list core * Z) :=
  bind (get_arr "violations" j) (fun l => bind (all_some (map decode_json_viol l)) (fun cs =>
  bind (get_num "total" j) (fun t => Some (cs, t)))).

(* SARIF 2.1.0: runs[0].results[i] -> ruleId, message.text, locations[0].physicalLocation.{artifactLocation.uri, region.startLine,
   region.startColumn (1-based, so the violation's 0-based column is startColumn - 1)} *)
Definition decode_sarif_result (j : json) : option core :=
  bind (get_str "ruleId" j) (fun r => bind (get "message" j) (fun mo => bind (get_str "text" mo) (fun m =>
  bind (get_one "locations" j) (fun loc => bind (get "physicalLocation" loc) (fun pl =>
  bind (get "artifactLocation" pl) (fun al => bind (get_str "uri" al) (fun f =>
  bind (get "region" pl) (fun rg => bind (get_num "startLine" rg) (fun l => bind (get_num "startColumn" rg) (fun c =>
  Some (r, f, l, c - 1, m))))))))))).
Definition decode_sarif (j : json) : option (list core) :=
  bind (get_one "runs" j) (fun run => bind (get_arr "results" run) (fun rs => all_some (map decode_sarif_result rs))).

Definition sarif_rule_ids (j : json) : option (list string) :=
  bind (get_one "runs" j) (fun run => bind (get "tool" run) (fun tool => bind (get "driver" tool) (fun d =>
  bind (get_arr "rules" d) (fun rs => all_some (map (get_str "id") rs))))).

Fixpoint nodup_str (l : list string) : bool :=
  match l with [] => true | x :: r => negb (smem x r) && nodup_str r end.

Definition sarif_schema_2_1_0 : string :=
  "https://raw.githubusercontent.com/oasis-tcs/sarif-spec/main/sarif-2.1/schema/sarif-schema-2.1.0.json".
Definition sarif_levels : list string := ["error"; "warning"; "note"; "none"].

(* well-formedness demanded by the property, split so that a failure can be named *)
Definition sarif_header_ok (j : json) : bool :=
  match get_str "version" j, get_str "$schema" j, bind (get_one "runs" j) (fun run => bind (get "tool" run) (fun t => bind (get "driver" t) (get_str "name"))) with
  | Some v, Some s, Some _ => String.eqb v "2.1.0" && String.eqb s sarif_schema_2_1_0
  | _, _, _ => false
  end.
Definition sarif_rules_ok (j : json) : bool :=
  match sarif_rule_ids j, decode_sarif j with
  | Some ids, Some cs => nodup_str ids && forallb (fun c => match c with (r, _, _, _, _) => smem r ids end) cs
  | _, _ => false
  end.
Definition sarif_result_ok (j : json) : bool :=
  match get_str "level" j, bind (get_one "locations" j) (fun loc => bind (get "physicalLocation" loc) (get "region")) with
  | Some lv, Some rg =>
    smem lv sarif_levels &&
    match get_num "startLine" rg, get_num "startColumn" rg with Some l, Some c => ((1 <=? l) && (1 <=? c))%Z | _, _ => false end
  | _, _ => false
  end.
Definition sarif_positions_ok (j : json) : bool :=
  match bind (get_one "runs" j) (get_arr "results") with Some rs => forallb sarif_result_ok rs | None => false end.
Definition sarif_wf (j : json) : bool := sarif_header_ok j && sarif_rules_ok j && sarif_positions_ok j.

(* ---- text: documented layout
     Found N violation(s):
     <blank>
       <path>[:<line>[:<column>]]          (ideal format: always <path>:<line>:<column>, path / message escaped)
         [<SEVERITY>] <rule>: <message>
     <blank>                                                                                         *)
Definition expected_header (n : nat) : string := ("Found " ++ show_Z (Z.of_nat n) ++ " violation(s):")%string.
Definition expected_none : string :=
  (String (ascii_of_nat 226) (String (ascii_of_nat 156) (String (ascii_of_nat 147) " No violations found")))%string.

Definition parse_loc (q : oquirks) (s : string) : option (string * Z * Z) :=
  if q_text_omit_zero q then
    match rsplit ":"%char s with
    | Some (a, d2) =>
      match read_digits d2 with
      | Some n2 =>
        match rsplit ":"%char a with
        | Some (p, d1) => match read_digits d1 with Some n1 => Some (p, n1, n2) | None => Some (a, n2, 0) end
        | None => Some (a, n2, 0)
        end
      | None => Some (s, 0, 0)
      end
    | None => Some (s, 0, 0)
    end
  else
    bind (rsplit ":"%char s) (fun ad => bind (read_int (snd ad)) (fun n2 =>
    bind (rsplit ":"%char (fst ad)) (fun pd => bind (read_int (snd pd)) (fun n1 => Some (fst pd, n1, n2))))).

Definition tunesc (q : oquirks) (s : string) : string := if q_text_raw_newline q then s else unescape s.

Definition parse_viol_lines (q : oquirks) (l1 l2 : string) : option core :=
  bind (strip_prefix "  " l1) (fun loc => bind (parse_loc q loc) (fun plc =>
  bind (strip_prefix "    [" l2) (fun r1 => bind (split2 "]"%char " "%char r1) (fun sr =>
  bind (split2 ":"%char " "%char (snd sr)) (fun rm =>
  match plc with (p, l, c) => Some (fst rm, tunesc q p, l, c, tunesc q (snd rm)) end))))).

Fixpoint parse_groups (q : oquirks) (ls : list string) : option (list core) :=
  match ls with
  | [EmptyString] => Some []
  | l1 :: l2 :: EmptyString :: rest =>
    match parse_viol_lines q l1 l2, parse_groups q rest with
    | Some c, Some cs => Some (c :: cs)
    | _, _ => None
    end
  | _ => None
  end.

Fixpoint list_str_eqb (a b : list string) : bool :=
  match a, b with
  | [], [] => true
  | x :: a', y :: b' => String.eqb x y && list_str_eqb a' b'
  | _, _ => false
  end.

(* decoder of the text format of quirk vector q (q only selects between the documented layout and the ideal one) *)
Definition parse_text (q : oquirks) (out : string) : option (list core) :=
  let ls := split_nl out in
  if list_str_eqb ls [expected_none; EmptyString] then Some []
  else match ls with
       | h :: EmptyString :: rest =>
         match parse_groups q rest with
         | Some cs => if String.eqb h (expected_header (List.length cs)) && is_nonempty cs then Some cs else None
         | None => None
         end
       | _ => None
       end.

(* the inputs on which the documented text layout is decodable *)
Definition no_nl (s : string) : bool := negb (has_char nl s).
Definition path_tail_ok (p : string) : bool :=
  match rsplit ":"%char p with Some (_, d) => negb (all_digits d) | None => true end.
Definition rule_ok (r : string) : bool := no_nl r && match split2 ":"%char " "%char r with None => true | Some _ => false end.
Definition text_ok (q : oquirks) (v : viol) : bool :=
  rule_ok (v_rule v)
  && (if q_text_raw_newline q then no_nl (sanitize (v_file v)) && no_nl (sanitize (v_msg v)) else true)
  && (if q_text_omit_zero q
      then ((0 <=? v_line v) && (0 <=? v_col v) && ((1 <=? v_line v) || (v_col v =? 0)))%Z
           && (((1 <=? v_line v) && (1 <=? v_col v))%Z || path_tail_ok (sanitize (v_file v)))
      else true).
