(* Model/EmbedRun.v — judging C19 cases inside the kernel's VM.
   A case is a fragment (the parse-tree image of a documented or generated example), an embedding
   (context / n copies / renaming) and what the implementation reported for the two modelled rules on the
   embedded file.  Returned, as booleans:
     print:   impl = model ; the embedding law holds for the model
     concat:  impl = model q          for q = claimed vector, claimed minus each flag, ideal
              law holds for model q   for the same vectors
     domain:  the context lies in the domain of the print / concat locality theorem *)
From TL Require Import Lib.Base Lib.GenTypes Gen.EmbedGen Model.Embed Model.PrintStmt Model.PerfConcat.

Definition N (r c : string) (l k : nat) (s d : string) (ks : list ast) : ast := Node (mkI r c l k s d) ks.
Definition I (r c : string) (l k : nat) (s d : string) : info := mkI r c l k s d.

(* implementation reports: line, column, message *)
Definition irep := (nat * nat * string)%type.
Definition irep_eqb (a b : irep) : bool :=
  match a, b with (l1, c1, m1), (l2, c2, m2) => (l1 =? l2) && (c1 =? c2) && String.eqb m1 m2 end.
Definition same_i (a b : list irep) : bool := ms_eqb irep_eqb a b.

Definition pr_out (file : list ast) : list irep :=
  map (fun r => match r with (l, c, _, _) => (l, c, pr_message) end) (print_default file).
Definition cc_out (q : cquirks) (file : list ast) : list irep :=
  map (fun r => match r with (l, c, _, _) => (l, c, concat_message r) end) (concat_reports q file).

Definition cq_without (i : nat) (q : cquirks) : cquirks :=
  match i with
  | 0 => mkCQ false (q_concat_dedup_by_name q) (q_concat_name_table q)
  | 1 => mkCQ (q_concat_global_names q) false (q_concat_name_table q)
  | _ => mkCQ (q_concat_global_names q) (q_concat_dedup_by_name q) false
  end.
Definition cq_candidates (q : cquirks) : list cquirks := [q; cq_without 0 q; cq_without 1 q; cq_without 2 q; c_ideal].

Inductive emb :=
| EPlug (c : ctx)
| ECopies (n h : nat)
| ERename (sg : list (string * string)).

Definition embed (e : emb) (frag : list ast) : list ast :=
  match e with
  | EPlug c => plug c frag
  | ECopies n h => copies n h frag
  | ERename sg => renameF (sigma_of sg) frag
  end.
Definition filler_of (e : emb) : list ast := match e with EPlug c => fillers c | _ => [] end.

(* what the embedding law predicts from the reports on the fragment alone and on the filler code alone *)
Definition predicted (e : emb) (iso fill : list rep) : list rep :=
  match e with
  | EPlug c => shiftRs (off_l c) (off_c c) iso ++ fill
  | ECopies n h => flat_map (fun k => shiftRs (k * h) 0 iso) (seq 0 n)
  | ERename sg => map (renameR (sigma_of sg)) iso
  end.

Definition law_pr (e : emb) (frag : list ast) : bool :=
  same_reps (print_default (embed e frag)) (predicted e (print_default frag) (print_default (filler_of e))).
Definition law_cc (q : cquirks) (e : emb) (frag : list ast) : bool :=
  same_reps (concat_reports q (embed e frag)) (predicted e (concat_reports q frag) (concat_reports q (filler_of e))).

(* renamings: the finite map must not touch or produce the names the print detector looks for; for the concat
   detector it must be one-to-one on the identifiers of the fragment and must not touch or produce `str` *)
Fixpoint idents (t : ast) : list string :=
  match t with Node i ks => (if String.eqb (cls i) "Constant" then [] else [sval i]) ++ flat_map idents ks end.
Fixpoint nodupb (l : list string) : bool :=
  match l with [] => true | x :: xs => negb (smem x xs) && nodupb xs end.
Definition avoids (names : list string) (sg : list (string * string)) : bool :=
  forallb (fun p => negb (smem (fst p) names) && negb (smem (snd p) names)) sg.
Definition in_domain (e : emb) (frag : list ast) : list bool :=
  match e with
  | EPlug c => [pr_ctx_ok c; cc_ctx_ok c]
  | ECopies _ _ => [true; true]
  | ERename sg =>
    [avoids [pr_simple_id; pr_attr_name; pr_base_id; main_left_id] sg;
     avoids [sc_str_func] sg && nodupb (map snd sg)
     && forallb (fun p => negb (smem (snd p) (flat_map idents frag))) sg
     && forallb (fun p => Bool.eqb (smem (lower (fst p)) sc_doc_patterns) (smem (lower (snd p)) sc_doc_patterns)) sg]
  end.

(* model outputs are computed once per file and candidate vector (the VM shares let-bound values) *)
Definition outs (q : cquirks) (file : list ast) : list (list rep) :=
  map (fun c => concat_reports c file) (cq_candidates q).
Definition cc_msgs (o : list rep) : list irep :=
  map (fun r => match r with (l, c, _, _) => (l, c, concat_message r) end) o.
Definition pr_msgs (o : list rep) : list irep :=
  map (fun r => match r with (l, c, _, _) => (l, c, pr_message) end) o.
Fixpoint zip3 {A B C D} (f : A -> B -> C -> D) (a : list A) (b : list B) (c : list C) : list D :=
  match a, b, c with
  | x :: xs, y :: ys, z :: zs => f x y z :: zip3 f xs ys zs
  | _, _, _ => []
  end.
(* iso_cc / iso_pr: `outs q frag` and `print_default frag`, evaluated once per fragment by the harness *)
Definition judge_embed (q : cquirks) (e : emb) (frag : list ast) (iso_cc : list (list rep)) (iso_pr : list rep)
           (impl_pr impl_cc : list irep) : list bool :=
  let X := embed e frag in
  let xo := outs q X in
  let fo := outs q (filler_of e) in
  let xp := print_default X in
  [same_i impl_pr (pr_msgs xp); same_reps xp (predicted e iso_pr (print_default (filler_of e)))]
  ++ map (fun o => same_i impl_cc (cc_msgs o)) xo
  ++ zip3 (fun o i f => same_reps o (predicted e i f)) xo iso_cc fo
  ++ in_domain e frag.

(* a fragment placed in an `orelse` / `finalbody` position: its top-level statements hang under that field *)
Definition rerole (r : string) (frag : list ast) : list ast :=
  map (fun t => match t with Node i ks => Node (mkI r (cls i) (line i) (col i) (sval i) (ckind i)) ks end) frag.

(* a file on its own *)
Definition judge_iso (q : cquirks) (file : list ast) (impl_pr impl_cc : list irep) : list bool :=
  same_i impl_pr (pr_out file) :: map (fun c => same_i impl_cc (cc_out c file)) (cq_candidates q).

(* the algebra builds what the parser sees: plug / copies against the parse of the embedded text,
   renaming against the parse of the renamed text up to positions (renaming moves columns) *)
Definition info_eqb (a b : info) : bool :=
  String.eqb (role a) (role b) && String.eqb (cls a) (cls b) && (line a =? line b) && (col a =? col b)
  && String.eqb (sval a) (sval b) && String.eqb (ckind a) (ckind b).
Fixpoint ast_eqb (a b : ast) : bool :=
  match a, b with
  | Node i ks, Node j ls =>
    info_eqb i j && (fix go (xs ys : list ast) : bool :=
                       match xs, ys with
                       | [], [] => true
                       | x :: xs', y :: ys' => ast_eqb x y && go xs' ys'
                       | _, _ => false
                       end) ks ls
  end.
Definition forest_eqb (a b : list ast) : bool := list_eqb ast_eqb a b.
Definition algebra_ok (e : emb) (frag real : list ast) : bool :=
  match e with
  | ERename _ => forest_eqb (map erase (embed e frag)) (map erase real)
  | _ => forest_eqb (embed e frag) real
  end.
