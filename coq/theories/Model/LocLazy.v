(* Model/LocLazy.v — C12: the lazy-ignores line scanner.  No proofs in this file.

   lazy-ignores does not work on a parse tree: PythonIgnoreDetector.find_ignores and TestSkipDetector.find_skips number the
   lines of the file content themselves.  Modelled here (source shape template-checked by translator/items_loclazy.py,
   constants from Gen/LocLazyGen.v):

     code.splitlines()                       `split_with` (byte-level image of str.splitlines on UTF-8 text)
     enumerate(.., start=1)                  `lazy_go` counting from lazy_start
     _count_unescaped_triple_quotes          `count_unesc` (re.findall of (?<!\\)QUOTE: non-overlapping, left to right)
     _update_docstring_state                 `toggle_state`
     _get_scannable_lines                    lines are handed to the per-line scanner unless a triple-quoted region was open
                                             BEFORE the line
     create_directive                        (line_num, match.start() + lazy_col_off, raw_text)

   The per-line regex scanner (`find`: which directives stand on a line, where they start, their text) is an ORACLE.
   Quirk: q = true uses the splitter read from the source, q = false the lines of the file (Model/Loc.v: lines_of). *)
From TL Require Import Lib.Base Lib.GenTypes Model.LocTypes Gen.LocGen Model.Loc Model.LocLazyTypes Gen.LocLazyGen.

(* ------------------------------------------------------------------ str.splitlines on the UTF-8 bytes *)
Definition byte_is (c : ascii) (n : nat) : bool := nat_of_ascii c =? n.

(* length in bytes of the line boundary at the head of s (0: none) *)
Definition sep_len (s : string) : nat :=
  match s with
  | EmptyString => 0
  | String c r =>
    if byte_is c 10 then 1
    else if byte_is c 13 then match r with String d _ => if byte_is d 10 then 2 else 1 | EmptyString => 1 end
    else if byte_is c 11 || byte_is c 12 || byte_is c 28 || byte_is c 29 || byte_is c 30 then 1
    else if byte_is c 194 then match r with String d _ => if byte_is d 133 then 2 else 0 | EmptyString => 0 end
    else if byte_is c 226 then
      match r with
      | String d (String e _) => if byte_is d 128 && (byte_is e 168 || byte_is e 169) then 3 else 0
      | _ => 0
      end
    else 0
  end.

(* skip: bytes of the current boundary still to be dropped *)
Fixpoint splitlines_go (skip : nat) (acc : string) (s : string) : list string :=
  match s with
  | EmptyString => match acc with EmptyString => [] | _ => [acc] end
  | String c r =>
    match skip with
    | S k => splitlines_go k acc r
    | 0 =>
      match sep_len s with
      | 0 => splitlines_go 0 (acc ++ String c EmptyString) r
      | S k => acc :: splitlines_go k EmptyString r
      end
    end
  end.
Definition py_splitlines (s : string) : list string := splitlines_go 0 EmptyString s.

Definition split_with (sp : splitter) (s : string) : list string :=
  match sp with SpLF => lines_of s | SpSplitlines => py_splitlines s end.

(* the text holds no line boundary other than LF *)
Fixpoint only_lf (s : string) : bool :=
  match s with
  | EmptyString => true
  | String c r => (byte_is c 10 || (sep_len s =? 0)) && only_lf r
  end.

(* ------------------------------------------------------------------ triple-quoted regions *)
Definition backslash : ascii := ascii_of_nat 92.

(* len(re.findall("(?<!\\)" + re.escape(q), line)): occurrences of q not preceded by a backslash, non-overlapping, leftmost first.
   skip: characters of the current occurrence still to be passed; prev_bs: the previous character is a backslash *)
Fixpoint count_unesc_go (q : string) (skip : nat) (prev_bs : bool) (s : string) : nat :=
  match s with
  | EmptyString => 0
  | String c r =>
    match skip with
    | S k => count_unesc_go q k (Ascii.eqb c backslash) r
    | 0 =>
      if negb prev_bs && sprefix q s
      then S (count_unesc_go q (String.length q - 1) (Ascii.eqb c backslash) r)
      else count_unesc_go q 0 (Ascii.eqb c backslash) r
    end
  end.
Definition count_unesc (q line : string) : nat := count_unesc_go q 0 false line.

(* one state bit per quote string *)
Fixpoint toggle_state (quotes : list string) (st : list bool) (line : string) : list bool :=
  match quotes, st with
  | q :: qs, b :: bs => xorb b (Nat.odd (count_unesc q line)) :: toggle_state qs bs line
  | _, _ => []
  end.
Definition in_region (st : list bool) : bool := existsb (fun b => b) st.
Definition init_state (quotes : list string) : list bool := map (fun _ => false) quotes.

(* ------------------------------------------------------------------ the scanner *)
Definition hit := (nat * string)%type.                 (* match.start() on the line, raw text of the directive *)
Definition lrep := (nat * nat * string)%type.          (* reported line, column, raw text *)
Definition lrep_eqb (a b : lrep) : bool :=
  match a, b with (l1, c1, t1), (l2, c2, t2) => (l1 =? l2) && (c1 =? c2) && String.eqb t1 t2 end.

Fixpoint lazy_go (find : string -> list hit) (quotes : list string) (n : nat) (st : list bool) (ls : list string) : list lrep :=
  match ls with
  | [] => []
  | l :: r =>
    (if in_region st then [] else map (fun h => (n, fst h + lazy_col_off, snd h)) (find l))
    ++ lazy_go find quotes (S n) (toggle_state quotes st l) r
  end.

Definition lazy_lines (q : bool) (text : string) : list string :=
  if q then split_with lazy_splitter text else lines_of text.
Definition lazy_scan (q : bool) (find : string -> list hit) (text : string) : list lrep :=
  lazy_go find lazy_quotes lazy_start (init_state lazy_quotes) (lazy_lines q text).

(* independent description of "line i (0-based) lies inside a triple-quoted region": for some quote string the number of
   unescaped occurrences on the lines before it is odd *)
Fixpoint total_count (q : string) (ls : list string) : nat :=
  match ls with [] => 0 | l :: r => count_unesc q l + total_count q r end.
Definition inside_region (quotes : list string) (ls : list string) (i : nat) : bool :=
  existsb (fun q => Nat.odd (total_count q (firstn i ls))) quotes.

(* ------------------------------------------------------------------ specification and judge *)
(* the property for one report: the line exists, the column lies within it, the quoted directive text stands on it *)
Definition lrep_ok (f : lfile) (r : lrep) : bool :=
  let '(l, c, t) := r in line_ok f l && col_ok f l c && occurs t (line_text f l).

(* the per-line oracle as a table (the harness fills it with what the implementation's own per-line scanners return for
   every distinct line of both line lists) *)
Fixpoint table_find (tbl : list (string * list hit)) (l : string) : list hit :=
  match tbl with
  | [] => []
  | (k, v) :: r => if String.eqb k l then v else table_find r l
  end.

Definition lreps_eqb (a b : list lrep) : bool :=
  (List.length a =? List.length b) && forallb (fun p => lrep_eqb (fst p) (snd p)) (combine a b).

(* [implementation = faithful model; implementation = ideal model; every implementation report satisfies the property;
    every report of the ideal model satisfies the property] *)
Definition judge_lazy (tbl : list (string * list hit)) (text : string) (impl : list lrep) : list bool :=
  let f := lines_of text in
  let mt := lazy_scan true (table_find tbl) text in
  let mf := lazy_scan false (table_find tbl) text in
  [ lreps_eqb impl mt; lreps_eqb impl mf; forallb (lrep_ok f) impl; forallb (lrep_ok f) mf ].

(* every rule-level violation (line, column, raw text) is one of the directives the faithful model finds with the oracle
   of the ignore scanner or with that of the test-skip scanner *)
Definition judge_lazy_rule (tbl_ign tbl_skip : list (string * list hit)) (text : string) (vs : list lrep) : list bool :=
  let mt := lazy_scan true (table_find tbl_ign) text ++ lazy_scan true (table_find tbl_skip) text in
  map (fun v => existsb (lrep_eqb v) mt) vs.

(* the orphaned-suppression violation is a file-level constant position *)
Definition lazy_orphan_ok (f : lfile) : bool := line_ok f (fst lazy_orphan_pos) && col_ok f (fst lazy_orphan_pos) (snd lazy_orphan_pos).
