(* Model/RegexLoop.v — executable model of the Python regex-in-loop detector (src/linters/performance/regex_analyzer.py:
   PythonRegexInLoopAnalyzer - _identify_imports, _identify_compiled_patterns, _find_regex_in_loops, _get_regex_method_name,
   _check_module_regex_call, _check_direct_import_call; regex_linter.py: _build_violations), as a walker in the sense of
   Model/Embed.v, quirk-parametric:
     q_rx_file_wide_names   the module aliases (`import re as X`), the directly imported functions (`from re import f [as g]`)
                            and the compiled-pattern names (`p = X.compile(..)`) are collected from EVERY statement of the
                            file (ast.walk over the module), also from inside unrelated functions and classes;
                            false: from the statements of the enclosing scopes only (module level and the chain of enclosing
                            def / class / lambda bodies, nested scopes not entered)
   Name facts are kept raw: (0, alias, ""), (1, imported function name, ""), (2, assigned name, base of `.compile`); a name
   counts as a compiled pattern when its base is a module alias.  The code checks the base against the alias set while
   collecting, after all imports were collected; with one name set per use point this is the same test.  `import re`
   without `as` adds the default alias again and is not recorded (rx_default_alias = rx_module is proved).
   summary = (loop word of the innermost enclosing loop or "", name facts in force).  A report carries the position of the
   call, a tag ("m" module call / "d" directly imported function, followed by the loop word) and the function name.
   Class names, the function table, `re`, `compile`, loop words, rule id and message format come from Gen/Embed2Gen.v.
   Inline ignore directives are outside this model.  No proofs in this file. *)
From TL Require Import Lib.Base Lib.GenTypes Gen.EmbedGen Gen.Embed2Gen Model.Embed Model.PrintStmt Model.PerfConcat.

Record rquirks := mkRQ { q_rx_file_wide_names : bool }.
Definition r_ideal : rquirks := mkRQ false.

Definition fact := (nat * string * string)%type.
Definition f_tag (e : fact) : nat := fst (fst e).
Definition f_name (e : fact) : string := snd (fst e).
Definition f_base (e : fact) : string := snd e.

(* conventions of the parse-tree image (harness/c19_embed.py conv): an import alias is a node of class `alias` whose
   `asname`, when present, is a child of class `@str` *)
Definition alias_cls : string := "alias".
Definition str_cls : string := "@str".
Definition asname_of (a : ast) : option string :=
  match field "asname" a with [k] => if is_cls str_cls k then Some (nsval k) else None | _ => None end.

(* _is_re_compile_call / _is_module_compile without the alias test: the base name of `<Name>.compile(...)` *)
Definition compile_base (v : ast) : option string :=
  if is_cls rx_compile_call_cls v then
    match field "func" v with
    | [f] => if named rx_compile_attr_cls rx_compile_name f then
               match field "value" f with
               | [b] => if is_cls rx_compile_base_cls b then Some (nsval b) else None
               | _ => None
               end
             else None
    | _ => None
    end
  else None.

(* _process_import_node / _check_for_compile_assignment on one (position-erased) node *)
Definition rx_node0 (t : ast) : list fact :=
  if is_cls rx_import_cls t then
    flat_map (fun a => if is_cls alias_cls a && String.eqb (nsval a) rx_module
                       then match asname_of a with Some k => [(0, k, "")] | None => [] end else []) (field "names" t)
  else if is_cls rx_importfrom_cls t then
    if String.eqb (nsval t) rx_module then
      flat_map (fun a => if is_cls alias_cls a && smem (nsval a) rx_functions
                         then [(1, match asname_of a with Some k => k | None => nsval a end, "")] else []) (field "names" t)
    else []
  else if is_cls rx_assign_cls t || is_cls rx_annassign_cls t then
    match assigned rx_assign_cls rx_annassign_cls rx_target_cls rx_target_cls t with
    | Some (v, xs) => match compile_base v with Some y => map (fun x => (2, x, y)) xs | None => [] end
    | None => []
    end
  else [].
Definition rx_node (t : ast) : list fact := rx_node0 (erase t).

(* ast.walk over everything / the statements of one scope *)
Fixpoint names_all (t : ast) : list fact :=
  match t with Node i ks => rx_node (Node i ks) ++ flat_map names_all ks end.
Fixpoint names_sc (t : ast) : list fact :=
  match t with
  | Node i ks => if is_scope (Node i ks) then [] else rx_node (Node i ks) ++ flat_map names_sc ks
  end.
Definition names_allF (ts : list ast) : list fact := flat_map names_all ts.
Definition names_scF (ts : list ast) : list fact := flat_map names_sc ts.

Definition is_alias (g : list fact) (y : string) : bool :=
  String.eqb y rx_default_alias || existsb (fun e => (f_tag e =? 0) && String.eqb (f_name e) y) g.
Definition is_direct (g : list fact) (f : string) : bool :=
  existsb (fun e => (f_tag e =? 1) && String.eqb (f_name e) f) g.
Definition is_compiled (g : list fact) (x : string) : bool :=
  existsb (fun e => (f_tag e =? 2) && String.eqb (f_name e) x && is_alias g (f_base e)) g.

(* _get_regex_method_name on a (position-erased) node: Some (module call?, function name) *)
Definition rx_call (g : list fact) (t : ast) : option (bool * string) :=
  if is_cls rx_call_cls t then
    match field "func" t with
    | [f] =>
      if is_cls rx_func_attr_cls f then
        if smem (nsval f) rx_functions then
          match field "value" f with
          | [b] => if is_cls rx_caller_cls b then
                     if is_compiled g (nsval b) then None
                     else if is_alias g (nsval b) then Some (true, nsval f) else None
                   else None
          | _ => None
          end
        else None
      else if is_cls rx_func_name_cls f then
        if is_direct g (nsval f) then Some (false, nsval f) else None
      else None
    | _ => None
    end
  else None.

Definition rx_loop_type (t : ast) : option string := assoc (ncls t) rx_loop_types.

Definition rsum := (string * list fact)%type.
Definition rx_enter (q : rquirks) (g : list fact) (t : ast) : list fact :=
  if q_rx_file_wide_names q then g else if is_scope t then g ++ names_scF (nkids t) else g.
Definition rx_step (q : rquirks) (s : rsum) (t : ast) : rsum :=
  (match rx_loop_type t with Some w => w | None => fst s end, rx_enter q (snd s) t).
Definition rx_emit (s : rsum) (t : ast) : list rep :=
  if String.eqb (fst s) "" then []
  else match rx_call (snd s) (erase t) with
       | Some (m, x) => [(line (ninfo t), col (ninfo t), String (if m then "m" else "d")%char (fst s), x)]
       | None => []
       end.

Definition rx_names0 (q : rquirks) (file : list ast) : list fact :=
  if q_rx_file_wide_names q then names_allF file else names_scF file.
Definition rx_reports (q : rquirks) (file : list ast) : list rep :=
  detectF (rx_step q) rx_emit ("", rx_names0 q file) file.

(* PerformanceViolationBuilder.create_regex_in_loop_violation: the message *)
Definition rx_message_of (r : rep) : string :=
  match r with
  | (_, _, p, x) =>
    let lt := match p with String _ w => w | EmptyString => "" end in
    let meth := match p with String "m"%char _ => (rx_method_prefix ++ x)%string | _ => x end in
    sconcat (map (fun part => if String.eqb (fst part) "lit" then snd part
                              else if String.eqb (snd part) "loop_type" then lt else meth) rx_message)
  end.

(* ------------------------------------------------------------------ contexts the locality theorem covers *)
(* wrappers are neither loops nor import / assignment statements; every part of the context (the wrappers' own parts and
   the filler statements) contains no loop and binds no regex name at the level of its scope.  Filler statements may be
   open (module-level imports and assignments) and may bind regex names INSIDE their own functions and classes. *)
Fixpoint rx_loop_free (t : ast) : bool :=
  match t with
  | Node i ks => match rx_loop_type (Node i ks) with Some _ => false | None => forallb rx_loop_free ks end
  end.
Definition is_nilb {A} (l : list A) : bool := match l with [] => true | _ :: _ => false end.
Definition rx_quiet (ks : list ast) : bool := forallb rx_loop_free ks && is_nilb (names_scF ks).
Definition rx_binder_classes : list string := [rx_import_cls; rx_importfrom_cls; rx_assign_cls; rx_annassign_cls].
Definition rx_wrap_ok (i : info) (pre post : list ast) : bool :=
  match assoc (cls i) rx_loop_types with Some _ => false | None => true end
  && negb (smem (cls i) rx_binder_classes) && rx_quiet pre && rx_quiet post.
Fixpoint rx_ctx_ok (c : ctx) : bool :=
  match c with
  | Hole => true
  | Wrap i pre post _ _ c' => rx_wrap_ok i pre post && rx_ctx_ok c'
  | Seq pre _ c' post => rx_quiet pre && rx_quiet post && rx_ctx_ok c'
  end.

(* finite renamings given by the harness: one-to-one on the identifiers of the fragment, none of the fixed names touched *)
Definition rx_fixed_names : list string := rx_module :: rx_default_alias :: rx_compile_name :: rx_functions.
