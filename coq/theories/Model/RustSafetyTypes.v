(* Model/RustSafetyTypes.v — abstract input of C17 (the Rust safety linters unwrap-abuse, clone-abuse,
   blocking-async): Rust files as rose trees of items / statements / expressions, the traversal
   shared by model and specification, and the small data types the generated layer is expressed in.
   Definitions only.  No dependency on Gen. *)
From Coq Require Import NArith.
From TL Require Import Lib.Base.

(* ------------------------------------------------------------------ abstract Rust files *)
(* what precedes an item: attributes (source text) and comments, in source order *)
Inductive sib := SAttr (text : string) | SComment.

Inductive loopk := LFor | LWhile | LLoop.

(* positions are tree-sitter points (0-based row, column):
   (sl, sc) = start of the call expression (= start of its receiver chain / of its path),
   ml       = row of the method name *)
Inductive kind :=
| KMod (pre : list sib)                          (* children: items *)
| KFn (pre : list sib) (is_async : bool) (name : string)   (* children: statements of the body block *)
| KImpl                                          (* impl / trait block; children: items *)
| KLet (b : string)                              (* let b = <child 0>; *)
| KStmt                                          (* expression statement (or tail expression); one child *)
| KId (x : string)                               (* identifier *)
| KLit                                           (* literal, `self`: a leaf that is no identifier *)
| KField (name : string)                         (* <child 0>.name *)
| KUn                                            (* &e, e?, e.await: one child *)
| KMethod (sl sc ml : nat) (name : string)       (* <child 0>.name(<children 1..>) *)
| KCall (sl sc : nat) (path : list string)       (* a::b::c(<children>) *)
| KClosure (p : string)                          (* |p| <child 0> *)
| KBlock                                         (* { statements } *)
| KLoop (lk : loopk) (pat : string)              (* for pat in <child 0> { rest } / while <child 0> { rest } / loop { all } *)
| KIf                                            (* if <child 0> { rest } *)
| KMatch                                         (* match <child 0> { arms } *)
| KMacro (name : string).                        (* name!(children) *)

Inductive node := N (k : kind) (cs : list node).

Definition nkind (n : node) : kind := match n with N k _ => k end.
Definition nkids (n : node) : list node := match n with N _ cs => cs end.

Section NodeInd.
  Variable P : node -> Prop.
  Hypothesis H : forall k cs, Forall P cs -> P (N k cs).
  Fixpoint node_ind' (n : node) : P n :=
    match n with
    | N k cs =>
      H k cs ((fix go (l : list node) : Forall P l :=
                 match l with
                 | [] => Forall_nil P
                 | x :: xs => Forall_cons x (node_ind' x) (go xs)
                 end) cs)
    end.
End NodeInd.

(* number of leading children that are not statements of the construct's block *)
Definition hdr (k : kind) : nat :=
  match k with KLoop LFor _ | KLoop LWhile _ | KIf => 1 | _ => 0 end.
(* the construct owns a `{ }` block holding its remaining children *)
Definition has_block (k : kind) : bool :=
  match k with KFn _ _ _ | KLoop _ _ | KIf | KBlock => true | _ => false end.
(* child i of k is a statement of a block *)
Definition stmt_pos (k : kind) (i : nat) : bool := has_block k && (hdr k <=? i).

(* identifier tokens of an attribute text such as #[cfg(not(test))] or #[tokio::test(flavor = "multi_thread")]:
   maximal runs of letters, digits and _ that start with a letter or _, outside string literals (tree-sitter types
   the path segments and the names inside the attribute's token tree as `identifier`) *)
(* character codes as binary numbers: these tests run once per character of every attribute text and source line *)
Definition code_in (a : ascii) (lo hi : BinNums.N) : bool := let n := N_of_ascii a in (BinNat.N.leb lo n && BinNat.N.leb n hi)%bool.
Definition is_ident_start (a : ascii) : bool := code_in a 65%N 90%N || code_in a 97%N 122%N || code_in a 95%N 95%N.
Definition is_ident_char (a : ascii) : bool := is_ident_start a || code_in a 48%N 57%N.
(* tokens of an attribute text: identifiers, parentheses, commas, string literals (with backslash escapes), other
   punctuation; white space separates *)
Inductive atok := AId (s : string) | ALP | ARP | AComma | AStr | AOther (a : ascii).
Definition is_space (a : ascii) : bool := code_in a 9%N 13%N || code_in a 28%N 32%N.
Definition flush_t (cur : string) : list atok := match cur with EmptyString => [] | _ => [AId cur] end.
Definition punct (a : ascii) : list atok :=
  if Ascii.eqb a "("%char then [ALP] else if Ascii.eqb a ")"%char then [ARP]
  else if Ascii.eqb a ","%char then [AComma] else if is_space a then [] else [AOther a].
(* st: 0 = outside a string literal, 1 = inside, 2 = inside after a backslash *)
Fixpoint attr_lex (s : string) (st : nat) (cur : string) : list atok :=
  match s with
  | EmptyString => flush_t cur
  | String a r =>
    match st with
    | 0 => if Ascii.eqb a """"%char then flush_t cur ++ attr_lex r 1 ""
           else if is_ident_char a && (negb (String.eqb cur "") || is_ident_start a)
                then attr_lex r 0 (cur ++ String a EmptyString)
           else flush_t cur ++ punct a ++ attr_lex r 0 ""
    | 1 => if Ascii.eqb a """"%char then AStr :: attr_lex r 0 ""
           else if Ascii.eqb a "\"%char then attr_lex r 2 "" else attr_lex r 1 ""
    | _ => attr_lex r 1 ""
    end
  end.
Definition attr_tokens (text : string) : list string :=
  flat_map (fun t => match t with AId x => [x] | _ => [] end) (attr_lex text 0 "").
Definition pre_idents (pre : list sib) : list string :=
  flat_map (fun s => match s with SAttr t => attr_tokens t | SComment => [] end) pre.

(* identifier tokens of a node (tree-sitter `identifier` leaves): outside macro invocations method
   and field names are field_identifiers; inside a macro's token tree every name is an identifier.
   The attributes of an item are siblings that precede it: their tokens are counted with the item. *)
Fixpoint idents (m : bool) (n : node) : list string :=
  match n with
  | N k cs =>
    let sub := flat_map (idents (match k with KMacro _ => true | _ => m end)) cs in
    match k with
    | KId x => [x]
    | KLet b => b :: sub
    | KFn pre _ name => pre_idents pre ++ name :: sub
    | KMod pre => pre_idents pre ++ sub
    | KField name | KMethod _ _ _ name => if m then name :: sub else sub
    | KCall _ _ path => path ++ sub
    | KClosure p => p :: sub
    | KLoop LFor pat => pat :: sub
    | KMacro name => name :: sub
    | _ => sub
    end
  end.

(* ------------------------------------------------------------------ reports and options *)
(* one violation: rule id, 1-based line, 0-based column, message *)
Definition rep := (string * nat * nat * string)%type.
(* numbers first and lazily: the VM evaluates both arguments of && *)
Definition rep_eqb (a b : rep) : bool :=
  match a, b with (r1, l1, c1, m1), (r2, l2, c2, m2) =>
    if l1 =? l2 then if c1 =? c2 then if String.eqb r1 r2 then String.eqb m1 m2 else false else false else false end.

(* source lines (text between newlines) of the rows that carry a call, by 0-based row *)
Definition srclines := list (nat * string).
Fixpoint line_at (ls : srclines) (row : nat) : string :=
  match ls with
  | [] => ""
  | (r, t) :: rest => if r =? row then t else line_at rest row
  end.

(* str.strip(): leading and trailing ASCII whitespace removed *)
Fixpoint lstrip (s : string) : string :=
  match s with String a r => if is_space a then lstrip r else s | EmptyString => s end.
Fixpoint rstrip (s : string) : string :=
  match s with
  | EmptyString => EmptyString
  | String a r => match rstrip r with
                  | EmptyString => if is_space a then EmptyString else String a EmptyString
                  | r' => String a r'
                  end
  end.
Definition strip (s : string) : string := rstrip (lstrip s).

(* a linter section as written in the configuration: boolean options by key *)
Definition options := list (string * bool).
Fixpoint opt (o : options) (key : string) (default : bool) : bool :=
  match o with
  | [] => default
  | (k, v) :: r => if String.eqb k key then v else opt r key default
  end.
Record config := { c_unwrap : options; c_clone : options; c_blocking : options }.

Fixpoint assoc {A} (key : string) (l : list (string * A)) : option A :=
  match l with
  | [] => None
  | (k, v) :: r => if String.eqb k key then Some v else assoc key r
  end.

(* ------------------------------------------------------------------ the traversal *)
(* Pre-order walk with a context: `emit` reports on the node itself, `push` gives the context of
   child i (it sees the later siblings; None = the child is not visited). *)
Section Walk.
  Context {C : Type}.
  Variable push : C -> kind -> nat -> list node -> option C.
  Variable emit : C -> kind -> list node -> list rep.
  Fixpoint walk (c : C) (n : node) : list rep :=
    match n with
    | N k cs =>
      emit c k cs ++
      (fix go (i : nat) (l : list node) : list rep :=
         match l with
         | [] => []
         | x :: rest =>
           (match push c k i rest with Some c' => walk c' x | None => [] end) ++ go (S i) rest
         end) 0 cs
    end.
  Definition walk_kids (c : C) (k : kind) : nat -> list node -> list rep :=
    fix go (i : nat) (l : list node) : list rep :=
      match l with
      | [] => []
      | x :: rest =>
        (match push c k i rest with Some c' => walk c' x | None => [] end) ++ go (S i) rest
      end.
  Definition walk_file (c : C) (file : list node) : list rep := flat_map (walk c) file.
End Walk.

(* ------------------------------------------------------------------ string helpers *)
Fixpoint contains (needle s : string) : bool :=
  if String.prefix needle s then true
  else match s with EmptyString => false | String _ s' => contains needle s' end.

(* ------------------------------------------------------------------ call-path patterns *)
(* `len(parts) >= pp_min and parts[i] == s / parts[i] in table ...` *)
Inductive ptest := PEq (s : string) | PIn (tbl : list string).
Record path_pat := { pp_min : nat; pp_tests : list (nat * ptest) }.

Definition ptest_ok (parts : list string) (t : nat * ptest) : bool :=
  match nth_error parts (fst t) with
  | None => false
  | Some p => match snd t with PEq s => String.eqb p s | PIn tbl => smem p tbl end
  end.
Definition pat_matches (parts : list string) (p : path_pat) : bool :=
  (pp_min p <=? List.length parts) && forallb (ptest_ok parts) (pp_tests p).

(* first class (in order) one of whose patterns matches *)
Fixpoint classify_path (classes : list (string * list path_pat)) (parts : list string) : option string :=
  match classes with
  | [] => None
  | (name, pats) :: r => if existsb (pat_matches parts) pats then Some name else classify_path r parts
  end.

(* ------------------------------------------------------------------ `_should_skip_call` in normal form *)
(* skip iff for some rule all atoms hold *)
Inductive skip_atom :=
| SkInTest                    (* call.is_in_test *)
| SkCfg (field : string)      (* config.<field> *)
| SkMethodIs (m : string)     (* call.method == m *)
| SkPatternOff.               (* key = KEYS.get(call.pattern); key and not getattr(config, key) *)
