(* Model/SrpCliSpec.v — the documented meaning of `thailint srp --max-methods N --max-loc M` (property C16;
   docs/srp-linter.md: "--max-methods INT  Override max methods threshold", "--max-loc INT  Override max LOC threshold";
   "thailint srp --max-methods 10 --max-loc 300 src/  # Use custom thresholds").  Nothing is read from the generated
   layer.  No proofs. *)
From TL Require Import Lib.Base Model.SrpTypes Model.SrpSpec.

(* Python's d[k] = v on an insertion-ordered dict: replace in place, else append *)
Fixpoint set_key {A : Type} (k : string) (v : A) (l : list (string * A)) : list (string * A) :=
  match l with
  | [] => [(k, v)]
  | (k', v') :: r => if String.eqb k k' then (k, v) :: r else (k', v') :: set_key k v r
  end.

(* the configuration in force: a given option replaces the top-level threshold of the `srp` section of the
   configuration file (the section is created when the file has none); an option that is not given changes nothing *)
Definition spec_cli (omm oml : option nat) (c : config) : config :=
  match omm, oml with
  | None, None => c
  | _, _ =>
    let s := spec_section c in
    let s := match omm with Some n => set_key "max_methods" (VNat n) s | None => s end in
    let s := match oml with Some n => set_key "max_loc" (VNat n) s | None => s end in
    set_key "srp" s c
  end.

(* option values admitted on the command line next to an admissible configuration: thresholds >= 1 *)
Definition cli_good (omm oml : option nat) : bool :=
  match omm with Some n => 1 <=? n | None => true end && match oml with Some n => 1 <=? n | None => true end.
