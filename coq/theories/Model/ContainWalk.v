(* Model/ContainWalk.v — C11: the recursive tree walkers (analyzers/typescript_base.py, rust_base.py: _walk_tree_recursive).
   One interpreter frame per tree level: with `fuel` frames left the walk of a deeper tree raises RecursionError.
   Executable, quirk-parametric, no proofs. *)
From TL Require Import Lib.Base Lib.GenTypes Model.ContainTypes Gen.ContainGen.

Inductive tree := Node (ty : string) (children : list tree).

Fixpoint depth (t : tree) : nat :=
  match t with Node _ cs => S (maxl (map depth cs)) end.

Fixpoint count (ty : string) (t : tree) : nat :=
  match t with Node ty' cs => b2n (String.eqb ty' ty) + fold_right (fun c n => count ty c + n) 0 cs end.

(* sum of the children's results; None (RecursionError) as soon as one child overflows *)
Definition sum_opt (l : list (option nat)) : option nat :=
  fold_right (fun o acc => match o, acc with Some a, Some b => Some (a + b) | _, _ => None end) (Some 0) l.

(* walk_tree / _walk_tree_recursive with `fuel` frames available: number of nodes of the type found, or None = RecursionError *)
Fixpoint walk (fuel : nat) (ty : string) (t : tree) : option nat :=
  match fuel with
  | 0 => None
  | S f => match t with
           | Node ty' cs => match sum_opt (map (walk f ty) cs) with
                            | Some n => Some (b2n (String.eqb ty' ty) + n)
                            | None => None
                            end
           end
  end.

Record wquirks := { q_walk_recursive : bool }.   (* true: one frame per level (the code); false: total (what C11 demands) *)

Definition walker (q : wquirks) (fuel : nat) (ty : string) (t : tree) : option nat :=
  if q_walk_recursive q then (if walker_recursive then walk fuel ty t else Some (count ty t)) else Some (count ty t).

(* a chain of d nodes, the first c of them of type "x": the skeleton the correspondence check evaluates the model on
   (same depth and same number of matching nodes as the real parse tree) *)
Fixpoint skel (d c : nat) : tree :=
  match d with
  | 0 => Node "leaf" []
  | S d' => Node (match c with 0 => "y" | S _ => "x" end) [skel d' (pred c)]
  end.

(* [impl = model actual ; impl = model ideal ; model ideal = spec(total)] for one walk: impl = None (raised) | Some count *)
Definition onat_eqb (a b : option nat) : bool :=
  match a, b with None, None => true | Some x, Some y => x =? y | _, _ => false end.
Definition judge_walk (q : wquirks) (fuel d c : nat) (impl : option nat) : list bool :=
  let t := skel (pred d) c in
  [onat_eqb impl (walker q fuel "x" t); onat_eqb impl (Some (count "x" t)); Nat.eqb (depth t) d].
