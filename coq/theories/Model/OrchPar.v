(* Model/OrchPar.v — executable model of Orchestrator.lint_files / lint_files_parallel (C07).
   Parametric in the rules: `perfile` is what lint_file returns for a file in a fresh process
   (None = the call raises, e.g. the ValueError of an invalid configuration that _safe_check_rule
   re-raises), `collect`/`report` is the cross-file analysis (DRY, stringly-typed): evidence gathered
   by check() in the process that ran it, reported by finalize().  No proofs here. *)
From TL Require Import Lib.Base Lib.GenTypes Model.OrchParTypes Gen.OrchParGen.

(* ---------- violations and dictionaries: association lists in field order ---------- *)
Definition violation := list (string * pyval).
Definition pydict := list (string * pyval).

Definition pyval_eqb (a b : pyval) : bool :=
  match a, b with
  | VStr x, VStr y => String.eqb x y
  | VPath x, VPath y => String.eqb x y
  | VInt s n, VInt t m => Bool.eqb s t && (n =? m)
  | VNone, VNone => true
  | VEnum c m, VEnum d k => String.eqb c d && String.eqb m k
  | VOther x, VOther y => String.eqb x y
  | _, _ => false
  end.

Fixpoint list_eqb {A} (eqb : A -> A -> bool) (a b : list A) : bool :=
  match a, b with
  | [], [] => true
  | x :: xs, y :: ys => eqb x y && list_eqb eqb xs ys
  | _, _ => false
  end.

Definition entry_eqb (a b : string * pyval) : bool := String.eqb (fst a) (fst b) && pyval_eqb (snd a) (snd b).
(* the integer fields are compared first: a cheap way out for most unequal pairs *)
Definition int_sig (v : violation) : list nat :=
  flat_map (fun e : string * pyval => match snd e with VInt _ n => [n] | _ => [] end) v.
Definition violation_eqb (a b : violation) : bool :=
  list_eqb Nat.eqb (int_sig a) (int_sig b) && list_eqb entry_eqb a b.

Fixpoint assoc {B} (k : string) (l : list (string * B)) : option B :=
  match l with [] => None | (k', v) :: r => if String.eqb k k' then Some v else assoc k r end.

(* Enum lookup by value: the first member carrying it *)
Fixpoint rassoc (v : string) (l : list (string * string)) : option string :=
  match l with [] => None | (name, v') :: r => if String.eqb v v' then Some name else rassoc v r end.

Fixpoint mapM {A B} (f : A -> option B) (l : list A) : option (list B) :=
  match l with
  | [] => Some []
  | x :: xs => match f x with
               | None => None
               | Some y => match mapM f xs with None => None | Some ys => Some (y :: ys) end
               end
  end.

(* ---------- Violation.to_dict / Violation.from_dict, driven by the generated tables ---------- *)
(* None = the Python expression raises (AttributeError, KeyError, ValueError, TypeError) *)
Definition apply_trans (t : vtrans) (v : pyval) : option pyval :=
  match t with
  | TId => Some v
  | TEnumValue =>
      match v with
      | VEnum c m => if String.eqb c severity_class then option_map VStr (assoc m severity_members) else None
      | _ => None
      end
  | TEnumOfValue =>
      match v with
      | VStr s => option_map (VEnum severity_class) (rassoc s severity_members)
      | _ => None
      end
  end.

Definition to_dict (v : violation) : option pydict :=
  mapM (fun e : string * (string * vtrans) =>
          let '(key, (attr, tr)) := e in
          match assoc attr v with
          | None => None
          | Some x => option_map (fun y => (key, y)) (apply_trans tr x)
          end) to_dict_spec.

(* the dataclass constructor: keyword arguments, defaults for the fields not given *)
Definition construct (kwargs : list (string * pyval)) : option violation :=
  if forallb (fun kw : string * pyval => existsb (String.eqb (fst kw)) (map fst violation_fields)) kwargs
  then mapM (fun fd : string * option pyval =>
               let '(f, dflt) := fd in
               match assoc f kwargs with
               | Some x => Some (f, x)
               | None => option_map (fun x => (f, x)) dflt
               end) violation_fields
  else None.

Definition dict_access (acc : daccess) (key : string) (d : pydict) : option pyval :=
  match acc with
  | DIndex => assoc key d
  | DGet => Some (match assoc key d with Some x => x | None => VNone end)
  end.

Definition from_dict (d : pydict) : option violation :=
  match mapM (fun e : string * (string * daccess * vtrans) =>
                let '(field, (key, acc, tr)) := e in
                match dict_access acc key d with
                | None => None
                | Some x => option_map (fun y => (field, y)) (apply_trans tr x)
                end) from_dict_spec with
  | None => None
  | Some kwargs => construct kwargs
  end.

Definition roundtrip (v : violation) : option violation :=
  match to_dict v with None => None | Some d => from_dict d end.

(* a Violation object: exactly the dataclass fields, in order; the severity is a Severity member *)
Definition enum_field_ok (e : string * pyval) : bool :=
  match assoc (fst e) (map (fun r : string * (string * vtrans) => (fst (snd r), snd (snd r))) to_dict_spec) with
  | Some TEnumValue =>
      match snd e with
      | VEnum c m => String.eqb c severity_class && existsb (String.eqb m) (map fst severity_members)
      | _ => false
      end
  | _ => true
  end.

Definition wf_violation (v : violation) : bool :=
  list_eqb String.eqb (map fst v) (map fst violation_fields) && forallb enum_field_ok v.

(* ---------- quirks ---------- *)
(* true = do what the source does (read from the generated layer), false = what the property demands *)
Record pquirks := {
  q_par_crossfile_lost : bool;          (* parent finalize: follow the source (evidence gathered in the parent or not) *)
  q_parent_evidence_raw_path : bool;    (* which files the parent's evidence loop visits: follow the source's exclusion test *)
  q_worker_swallows_errors : bool       (* an exception in a task: follow the handlers found in the source *)
}.
Definition ideal : pquirks :=
  {| q_par_crossfile_lost := false; q_parent_evidence_raw_path := false; q_worker_swallows_errors := false |}.

(* The parent loses the cross-file findings iff it finalizes its own rule instances without having fed
   them (Gen: parent_collects_evidence is false when lint_files_parallel goes straight from the worker
   phase to _finalize_rules). *)
Definition crossfile_lost (q : pquirks) : bool := q_par_crossfile_lost q && negb parent_collects_evidence.

(* The parent's evidence loop skips a file on its own exclusion test.  When that test is the one lint_file
   uses, skipping is harmless (such a file yields no evidence anywhere); when it is decided on a different
   path expression (Gen: parent_exclusion_like_lint_file = false) the loop may skip files that lint_file
   processes. *)
Definition parent_restricts (q : pquirks) : bool := q_parent_evidence_raw_path q && negb parent_exclusion_like_lint_file.

(* The errors lint_file raises by design are the ones _safe_check_rule re-raises (check_reraises: the
   ValueError of an invalid configuration value).  They surface from a parallel run iff both the worker
   and the future extraction re-raise them instead of catching them with their `except Exception`.
   The flag says "do what the handlers found in the source do"; when the source re-raises, the
   faithful model follows the generated tables and propagates the error. *)
Definition errors_surface : bool :=
  forallb (fun e => smem e worker_reraises && smem e extract_reraises) check_reraises.
Definition swallows (q : pquirks) : bool := q_worker_swallows_errors q && negb errors_surface.

(* what a task sends back for the outcome `r` of lint_file (None = lint_file raised): None = the exception leaves the worker *)
Definition worker_result (q : pquirks) (r : option (list violation)) : option (list pydict) :=
  let on_error := if swallows q then Some [] else None in
  match r with
  | None => on_error
  | Some vs => match mapM to_dict vs with Some ds => Some ds | None => on_error end
  end.

(* ---------- the orchestrator ---------- *)
Section Orch.
  Variables file evidence : Type.
  Variable perfile : file -> option (list violation).
  Variable collect : file -> evidence.
  Variable report : list evidence -> list violation.
  Variable parent_sees : file -> bool.   (* the exclusion / ignore test of the parent's evidence loop lets the file through *)

  (* lint_files: every file in order in one process, then finalize of every rule *)
  Definition seq_run (files : list file) : option (list violation) :=
    match mapM perfile files with
    | None => None
    | Some vss => Some (List.concat vss ++ report (map collect files))
    end.

  (* _lint_file_worker: fresh Orchestrator, lint_file, to_dict of every violation; `except Exception: return []`
     unless the handlers re-raise (see `swallows`) *)
  Definition worker (q : pquirks) (f : file) : option (list pydict) := worker_result q (perfile f).

  (* _extract_violations_from_future: from_dict of every dictionary; `except Exception: return []` *)
  Definition extract (fut : list pydict) : list violation :=
    match mapM from_dict fut with Some vs => vs | None => [] end.

  (* as_completed yields the futures in the order `sched` (indices into the submission order) *)
  Definition apply_sched {A} (sched : list nat) (l : list (list A)) : list (list A) :=
    map (fun i => nth i l []) sched.

  Definition below_threshold (mw : option nat) (cpu : nat) (files : list file) : bool :=
    cmp_nat par_threshold_cmp (List.length files) (effective_workers mw cpu * par_threshold_factor).

  Definition parent_evidence_files (q : pquirks) (files : list file) : list file :=
    if parent_restricts q then filter parent_sees files else files.

  Definition parent_finalize (q : pquirks) (files : list file) : list violation :=
    if crossfile_lost q then report [] else report (map collect (parent_evidence_files q files)).

  (* lint_files_parallel(files, max_workers=mw) on a machine with `cpu` cores *)
  Definition par_run (q : pquirks) (mw : option nat) (cpu : nat) (sched : list nat) (files : list file)
    : option (list violation) :=
    match files with
    | [] => Some []
    | _ =>
      if below_threshold mw cpu files then seq_run files
      else match mapM (worker q) files with
           | None => None
           | Some futs => Some (List.concat (apply_sched sched (map extract futs)) ++ parent_finalize q files)
           end
    end.
End Orch.

(* ---------- the directory entry points ---------- *)
(* lint_directory / lint_directory_parallel: the same runs on the files _collect_files_fast yields (Gen: seq_entry_points,
   dir_parallel_collects_then_lint_files_parallel); which files that walk yields is the matter of C14 *)
Section Dir.
  Variables file evidence dir : Type.
  Variable perfile : file -> option (list violation).
  Variable collect : file -> evidence.
  Variable report : list evidence -> list violation.
  Variable parent_sees : file -> bool.
  Variable walk : dir -> bool -> list file.

  Definition dir_seq_run (d : dir) (recursive : bool) : option (list violation) :=
    seq_run file evidence perfile collect report (walk d recursive).

  Definition dir_par_run (q : pquirks) (mw : option nat) (cpu : nat) (sched : list nat) (d : dir) (recursive : bool)
    : option (list violation) :=
    par_run file evidence perfile collect report parent_sees q mw cpu sched (walk d recursive).
End Dir.

(* ---------- several targets ---------- *)
(* execute_linting_on_paths: the file targets form one group, every directory target another; one
   lint_files[_parallel] / lint_directory[_parallel] call per group on the same Orchestrator, results appended; an
   exception in any group aborts the command.  (That a call leaves nothing behind for the next one is C08 / C10.) *)
Fixpoint concat_opt (l : list (option (list violation))) : option (list violation) :=
  match l with
  | [] => Some []
  | None :: _ => None
  | Some x :: r => match concat_opt r with None => None | Some y => Some (x ++ y) end
  end.

Section Groups.
  Variables file evidence : Type.
  Variable perfile : file -> option (list violation).
  Variable collect : file -> evidence.
  Variable report : list evidence -> list violation.
  Variable parent_sees : file -> bool.

  Definition groups_seq_run (groups : list (list file)) : option (list violation) :=
    concat_opt (map (seq_run file evidence perfile collect report) groups).

  (* `scheds`: the completion order of the futures of each group *)
  Definition groups_par_run (q : pquirks) (mw : option nat) (cpu : nat) (scheds : list (list nat)) (groups : list (list file))
    : option (list violation) :=
    concat_opt (map (fun sg : list nat * list file => par_run file evidence perfile collect report parent_sees q mw cpu (fst sg) (snd sg))
                    (combine scheds groups)).
End Groups.

(* ---------- what the CLI makes of a result ---------- *)
Definition rule_id_of (v : violation) : string :=
  match assoc "rule_id" v with Some (VStr s) => s | _ => "" end.

Fixpoint contains (p s : string) : bool :=
  String.prefix p s || match s with EmptyString => false | String _ r => contains p r end.

Definition match_filter (f : rfilter) (v : violation) : bool :=
  match f with
  | FStartsWith p => String.prefix p (rule_id_of v)
  | FContains p => contains p (rule_id_of v)
  end.

(* the violations a command prints, and sys.exit(<a> if violations else <b>); an exception: handle_linting_error *)
Definition cli_view (cmd : rfilter * nat * nat) (o : option (list violation)) : option (list violation) :=
  option_map (filter (match_filter (fst (fst cmd)))) o.

Definition exit_code (cmd : rfilter * nat * nat) (o : option (list violation)) : nat :=
  match cli_view cmd o with
  | None => cli_error_exit
  | Some [] => snd cmd
  | Some (_ :: _) => snd (fst cmd)
  end.

(* the JSON rendering of a violation, as a violation-shaped association list *)
Definition json_value (t : jtrans) (v : pyval) : pyval :=
  match t, v with
  | JStr, VPath s => VStr s
  | JEnumName, VEnum _ m => VStr m
  | _, _ => v
  end.

Definition json_view (v : violation) : violation :=
  map (fun e : string * (string * jtrans) =>
         let '(key, (attr, t)) := e in
         (key, match assoc attr v with Some x => json_value t x | None => VOther "<missing>" end)) json_fields.

(* ---------- comparison of results ---------- *)
Definition out_same (a b : option (list violation)) : bool :=        (* same list *)
  match a, b with
  | None, None => true
  | Some x, Some y => list_eqb violation_eqb x y
  | _, _ => false
  end.

(* multiset equality by cancelling one occurrence at a time (cheap when the orders are close) *)
Fixpoint remove1 (x : violation) (l : list violation) : option (list violation) :=
  match l with
  | [] => None
  | y :: r => if violation_eqb x y then Some r else option_map (cons y) (remove1 x r)
  end.

Fixpoint ms_same (a b : list violation) : bool :=
  match a with
  | [] => match b with [] => true | _ => false end
  | x :: r => match remove1 x b with None => false | Some b' => ms_same r b' end
  end.

Definition out_equiv_b (a b : option (list violation)) : bool :=     (* same multiset *)
  match a, b with
  | None, None => true
  | Some x, Some y => ms_same x y
  | _, _ => false
  end.
