(* Model/Collect.v — executable, quirk-parametric model of "which files does a run lint" (C14):
   _collect_files_fast (os.walk with dirs[:] pruning, suffix filter, break when not recursive),
   the two gates of Orchestrator.lint_file (_is_hardcoded_excluded, IgnoreDirectiveParser.is_ignored),
   _load_repo_ignores and matches_pattern / _matches_directory_pattern over the fnmatch model of
   Model/Glob.v.  Tables, leaf predicates and the gate list come from Gen/CollectGen.v.
   No proofs in this file. *)
From TL Require Import Lib.Base Lib.GenTypes Model.CollectStr Model.Glob Gen.CollectGen.

(* ------------------------------------------------------------------ directory trees *)
Inductive tree := File (name : string) | Dir (name : string) (children : list tree).

Definition tname (t : tree) : string := match t with File n => n | Dir n _ => n end.
Definition children (t : tree) : list tree := match t with File _ => [] | Dir _ cs => cs end.

Section TreeInd.
  Variable P : tree -> Prop.
  Hypothesis HF : forall n, P (File n).
  Hypothesis HD : forall n cs, Forall P cs -> P (Dir n cs).
  Fixpoint tree_ind' (t : tree) : P t :=
    match t with
    | File n => HF n
    | Dir n cs =>
      HD n cs ((fix go (l : list tree) : Forall P l :=
                  match l with
                  | [] => Forall_nil P
                  | x :: xs => Forall_cons x (tree_ind' x) (go xs)
                  end) cs)
    end.
End TreeInd.

(* ------------------------------------------------------------------ quirks *)
(* true = "do what the code does", false = "do what the property demands" *)
Record cquirks := {
  q_excl_above_root : bool;      (* _is_hardcoded_excluded also looks at the components above the project root *)
                                 (* (all seven describe defects of earlier trees; Actual/CollectActual.v has them off since the fixes) *)
  q_excl_filename : bool;        (* ... and applies the directory-name table to the file's own name *)
  q_dirpat_prefix : bool;        (* "name/" matches by fnmatch(path, "name*"): any path that merely starts with name *)
  q_dirpat_filename : bool;      (* "name/" matches when the file itself (not a directory) is called name *)
  q_doublestar_needs_dir : bool; (* a leading "**/" never stands for zero directories *)
  q_ti_shadows_config : bool;    (* the config's `ignore` list is dropped when .thailintignore exists *)
  q_json_ignore_unused : bool;   (* the `ignore` list of .thailint.json is never read *)
  q_ignore_cwd_spelling : bool;  (* a target spelled relative to the working directory is matched against the ignore
                                    patterns in that spelling, not as a project-relative path (still present) *)
}.
Definition ideal : cquirks := Build_cquirks false false false false false false false false.
Definition all_on : cquirks := Build_cquirks true true true true true true true true.

(* ------------------------------------------------------------------ how the target was spelled *)
(* SAbs: absolute path (inside the project); SInside c: relative to a working directory that is the directory c of the
   project (c = [] : the project root itself); SAbove d: relative to a working directory from which the project root is
   reached through the directories d *)
Inductive spelling := SAbs | SInside (c : list string) | SAbove (d : list string).

(* os.path.relpath of the project-relative path p from the project directory c *)
Fixpoint relpath (c p : list string) : list string :=
  match c, p with
  | x :: c', y :: p' => if String.eqb x y then relpath c' p' else repeat ".."%string (List.length c) ++ p
  | [], _ => p
  | _, [] => repeat ".."%string (List.length c)
  end.

Definition spelled (sp : spelling) (p : list string) : list string :=
  match sp with SAbs => p | SInside c => relpath c p | SAbove d => d ++ p end.

(* the path IgnoreDirectiveParser.is_ignored matches against the patterns: file_path.relative_to(project_root) when that
   works (absolute spelling), else str(file_path) -- for a file found by the walk that is the target as spelled joined
   with the part of the path below the target *)
(* Gen.ignore_rerooted: the source re-roots such a path at the project itself (shape of proposed_fixes/C14-ignore-reroot.diff);
   the flag then describes nothing any more *)
Definition cwd_spelling_matters (q : cquirks) : bool := q_ignore_cwd_spelling q && negb ignore_rerooted.

Definition chk_dir (q : cquirks) (sp : spelling) (rel p : list string) : list string :=
  if cwd_spelling_matters q
  then match sp with SAbs => p | _ => spelled sp rel ++ skipn (List.length rel) p end
  else p.

Definition chk_file (q : cquirks) (sp : spelling) (p : list string) : list string :=
  if cwd_spelling_matters q then spelled sp p else p.

(* ------------------------------------------------------------------ inputs *)
(* Paths are lists of components relative to the project root.  c_abs = the components that the
   path objects handed to lint_file carry in front of the project-relative path (the parts of the
   absolute project root; [] when the target is spelled relative to cwd = project root). *)
Record sources := {
  s_ti : option (list string);    (* physical lines of .thailintignore, None = no such file *)
  s_yaml : option (list string);  (* `ignore` list of .thailint.yaml ([] when the key is absent), None = no such file *)
  s_json : option (list string);  (* `ignore` list of .thailint.json *)
}.

(* ------------------------------------------------------------------ _collect_files_fast *)
(* os.walk(target): top-down; at every visited directory the sub-directories failing
   _should_include_dir are pruned, the file names passing the suffix filter are collected,
   and the loop stops after the first directory when not recursive.  pre = path of t. *)
Fixpoint walk (recursive : bool) (pre : list string) (t : tree) {struct t} : list (list string) :=
  match t with
  | File _ => []
  | Dir _ cs =>
    flat_map (fun c => match c with
                       | File n => if walk_keeps_file n then [pre ++ [n]] else []
                       | Dir _ _ => []
                       end) cs
    ++ (if walk_breaks recursive then []
        else flat_map (fun c => match c with
                                | Dir n _ => if walk_prune_cond n then walk recursive (pre ++ [n]) c else []
                                | File _ => []
                                end) cs)
  end.

(* ------------------------------------------------------------------ gate 1: _is_hardcoded_excluded *)
(* With both flags off the generated function is applied to the project-relative path (what the code does since the
   fixes b20520c / 27377de); a flag that is on re-creates the former defect on top of the generated ingredients.
   above = the components above the project root are looked at as well (forced by the gate kind GHardAbs). *)
Definition gate_hard (q : cquirks) (above : bool) (abs p : list string) : bool :=
  if negb above && negb (q_excl_filename q) then is_hardcoded_excluded p
  else hx_suffix_cond p
       || existsb hx_part_cond ((if above then abs else []) ++ (if q_excl_filename q then p else removelast p)).

(* ------------------------------------------------------------------ gate 2: repository ignores *)
Definition match_dir (q : cquirks) (path pattern : string) : bool :=
  if negb (q_dirpat_prefix q) && negb (q_dirpat_filename q) then matches_directory_pattern_gen fnm path pattern
  else
    let dp := rstrip_chars pattern "/" in
    smem dp (if q_dirpat_filename q then path_parts path else removelast (path_parts path))
    || fnm path (dp ++ (if q_dirpat_prefix q then "*" else "/*"))%string.

(* matches_pattern calls itself on pattern[3:] when the pattern starts with "**/": the knot is tied with fuel
   (every call drops three characters, so the length of the pattern is enough) *)
Fixpoint matches_fuel (q : cquirks) (fuel : nat) (path pattern : string) : bool :=
  match fuel with
  | 0 => false
  | S k => matches_pattern_gen (matches_fuel q k) fnm (match_dir q) path pattern
  end.

Definition matches (q : cquirks) (path pattern : string) : bool :=
  if q_doublestar_needs_dir q
  then matches_pattern_gen (fun _ _ => false) fnm (match_dir q) path pattern     (* the former code: no such call *)
  else matches_fuel q (S (String.length pattern)) path pattern.

Definition opt_list (o : option (list string)) : list string := match o with Some l => l | None => [] end.

(* the config file whose `ignore` list is read: the first existing one of the given names *)
Definition source_of (s : sources) (name : string) : option (list string) :=
  if String.eqb name ".thailint.yaml" then s_yaml s else if String.eqb name ".thailint.json" then s_json s else None.

Fixpoint first_config (s : sources) (names : list string) : list string :=
  match names with
  | [] => []
  | n :: r => match source_of s n with Some l => l | None => first_config s r end
  end.

Definition config_patterns (q : cquirks) (s : sources) : list string :=
  first_config s (if q_json_ignore_unused q then filter (fun n => negb (String.eqb n ".thailint.json")) ignore_config_names
                  else ignore_config_names).

(* _load_repo_ignores *)
Definition load_patterns (q : cquirks) (s : sources) : list string :=
  match s_ti s with
  | Some ls => extract_patterns_gen ls
               ++ (if q_ti_shadows_config q || negb load_combines_sources then [] else config_patterns q s)
  | None => config_patterns q s
  end.

Definition is_ignored (q : cquirks) (pats : list string) (p : list string) : bool :=
  is_ignored_core (matches q) (pjoin p) pats.

(* ------------------------------------------------------------------ lint_file and the runs *)
(* pats = the repository patterns, loaded once when the Orchestrator is created; cp p = the path is_ignored matches *)
Definition gate_fires (q : cquirks) (abs : list string) (pats : list string) (cp : list string -> list string) (p : list string) (g : gate) : bool :=
  match g with
  | GHard => gate_hard q (q_excl_above_root q) abs p
  | GHardAbs => gate_hard q true abs p
  | GIgnored => is_ignored q pats (cp p)
  | GOther => false
  end.

(* does lint_file hand the file to the rules? *)
Definition linted (q : cquirks) (abs : list string) (pats : list string) (cp : list string -> list string) (p : list string) : bool :=
  negb (existsb (gate_fires q abs pats cp p) lint_gates).

(* lint_directory(target, recursive) : the project-relative paths of the files that reach the rules.
   seq_collect_recursive / par_collect_recursive (Gen) = the `recursive` value the entry point hands to _collect_files_fast *)
Definition run_dir (q : cquirks) (recursive : bool) (abs : list string) (sp : spelling) (rel : list string) (t : tree) (s : sources) : list (list string) :=
  let pats := load_patterns q s in
  filter (linted q abs pats (chk_dir q sp rel)) (walk (seq_collect_recursive recursive) rel t).

(* lint_directory_parallel(target, recursive): collect, then lint_file per collected path (in a worker that builds
   its own Orchestrator for the same root and config, or in the sequential fallback below 2 x workers files) *)
Definition run_dir_par (q : cquirks) (recursive : bool) (abs : list string) (sp : spelling) (rel : list string) (t : tree) (s : sources) : list (list string) :=
  let pats := load_patterns q s in
  filter (linted q abs pats (chk_dir q sp rel)) (walk (par_collect_recursive recursive) rel t).

(* lint_files(paths) *)
Definition run_files (q : cquirks) (abs : list string) (sp : spelling) (s : sources) (ps : list (list string)) : list (list string) :=
  let pats := load_patterns q s in
  filter (linted q abs pats (chk_file q sp)) ps.

(* execute_linting_on_paths (src/cli/utils.py): the paths that are files go through lint_files in one call, then every
   path that is a directory through lint_directory / lint_directory_parallel (shape checked by Gen.cli_paths_shape_checked) *)
Definition run_paths (q : cquirks) (recursive parallel : bool) (abs : list string) (sp : spelling) (s : sources)
           (files : list (list string)) (dirs : list (list string * tree)) : list (list string) :=
  run_files q abs sp s files
  ++ flat_map (fun d => if parallel then run_dir_par q recursive abs sp (fst d) (snd d) s
                        else run_dir q recursive abs sp (fst d) (snd d) s) dirs.
