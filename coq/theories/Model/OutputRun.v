(* Model/OutputRun.v — judging correspondence cases of C06 inside the kernel's VM.
   Every judge returns booleans: the specification checked on the implementation's observable
   output, the specification checked on the ideal model, and `implementation = model c` for the
   candidate vectors c = claimed, claimed with one flag off, ideal. *)
From TL Require Import Lib.Base Model.OutputTypes Gen.OutputGen Model.Output Model.OutputBytes.
From Coq Require Import ZArith.
Local Open Scope Z_scope.
Local Open Scope string_scope.

Definition with_flag (i : nat) (q : oquirks) : oquirks :=
  let f (k : nat) (b : bool) := if Nat.eqb i k then false else b in
  Build_oquirks (f 0%nat (q_sarif_unsanitized q)) (f 1%nat (q_syntax_line_zero q)) (f 2%nat (q_text_omit_zero q)) (f 3%nat (q_text_raw_newline q))
                (f 4%nat (q_group_missing_config_ignored q)) (f 5%nat (q_dry_empty_config_crashes q)) (f 6%nat (q_valueerror_aborts_run q)).

Definition candidates (q : oquirks) : list oquirks := q :: map (fun i => with_flag i q) [0; 1; 2; 3; 4; 5; 6]%nat ++ [ideal].

(* strings given as byte lists by the harness (binary numerals: cheap to parse) *)
Fixpoint sx (l : list N) : string :=
  match l with [] => EmptyString | c :: r => String (ascii_of_N c) (sx r) end.

(* ---------- equalities ---------- *)
Fixpoint json_eqb (a b : json) : bool :=
  match a, b with
  | JNull, JNull => true
  | JBool x, JBool y => Bool.eqb x y
  | JNum x, JNum y => (x =? y)%Z
  | JStr x, JStr y => String.eqb x y
  | JArr l1, JArr l2 =>
    (fix go (l1 l2 : list json) : bool :=
       match l1, l2 with
       | [], [] => true
       | x :: r1, y :: r2 => json_eqb x y && go r1 r2
       | _, _ => false
       end) l1 l2
  | JObj l1, JObj l2 =>
    (fix go (l1 l2 : list (string * json)) : bool :=
       match l1, l2 with
       | [], [] => true
       | (k1, x) :: r1, (k2, y) :: r2 => String.eqb k1 k2 && json_eqb x y && go r1 r2
       | _, _ => false
       end) l1 l2
  | _, _ => false
  end.

Definition core_eqb (a b : core) : bool :=
  match a, b with
  | (r1, f1, l1, c1, m1), (r2, f2, l2, c2, m2) =>
    String.eqb r1 r2 && String.eqb f1 f2 && (l1 =? l2)%Z && (c1 =? c2)%Z && String.eqb m1 m2
  end.
Fixpoint cores_eqb (a b : list core) : bool :=
  match a, b with
  | [], [] => true
  | x :: a', y :: b' => core_eqb x y && cores_eqb a' b'
  | _, _ => false
  end.
Definition cores_ms_eqb (a b : list core) : bool := ms_eqb core_eqb a b.
Definition viol_eqb (a b : viol) : bool := core_eqb (core_of a) (core_of b).
Fixpoint viols_eqb (a b : list viol) : bool :=
  match a, b with
  | [], [] => true
  | x :: a', y :: b' => viol_eqb x y && viols_eqb a' b'
  | _, _ => false
  end.

(* ---------- the property on observable output ---------- *)
Definition json_spec (j : json) (e : list core) : bool :=
  match decode_json j with Some (cs, t) => cores_eqb cs e && (t =? Z.of_nat (List.length e))%Z | None => false end.
Definition sarif_spec (j : json) (e : list core) : bool :=
  match decode_sarif j with Some cs => cores_eqb cs e | None => false end.
Definition text_spec (q : oquirks) (out : string) (e : list core) : bool :=
  match parse_text q out with Some cs => cores_eqb cs e | None => false end.

(* ---------- defect classes: the inputs on which a listed flag can make the faithful model miss the specification
   (the complements of the domains of the `_partial` theorems); one boolean per flag, in the order of with_flag ---------- *)
Definition unclean (v : viol) : bool :=
  negb (String.eqb (sanitize (v_file v)) (v_file v)) || negb (String.eqb (sanitize (v_msg v)) (v_msg v)).
Definition src_line_zero (q : oquirks) (s : vsrc) : bool :=
  match s with
  | VPlain _ => false
  | VSyntax _ _ _ _ _ _ => (v_line (realize q s) <? 1)%Z && (1 <=? v_line (realize ideal s))%Z
  end.
Definition defect_classes (q : oquirks) (srcs : list vsrc) : list bool :=
  let vs := map (realize q) srcs in
  [ existsb unclean vs;
    existsb (src_line_zero q) srcs;
    existsb (fun v => rule_ok (v_rule v) && negb (text_ok (with_flag 3 q) v)) vs;
    existsb (fun v => rule_ok (v_rule v) && negb (text_ok (with_flag 2 q) v)) vs;
    false; false; false ].
Definition usage_classes (cmd : string) (c : uclass) : list bool :=
  [ false; false; false; false;
    match c with UGroupMissingConfig => true | _ => false end;
    match c with UEmptyConfig => String.eqb cmd "dry" | _ => false end;
    false ].

(* ---------- a run on existing paths that may be ended by a failing rule: three exit codes (one per format) ---------- *)
Definition aborted (o : outcome) : bool := match o with OExit _ => true | OPerformed => false end.
Definition judge_run (q : oquirks) (files : list lintfile) (ej es et : Z) : list bool :=
  let impl_aborted := negb (((ej =? 0) || (ej =? 1)) && ((es =? 0) || (es =? 1)) && ((et =? 0) || (et =? 1)))%Z in
  let agrees (o : outcome) := match o with
                              | OExit z => ((ej =? z) && (es =? z) && (et =? z))%Z
                              | OPerformed => negb impl_aborted
                              end in
  [ negb impl_aborted; negb (aborted (run_outcome ideal files)) ]
  ++ map (fun c => agrees (run_outcome c files)) (candidates q)
  ++ [ false; false; false; false; false; false; existsb storage_raises files ].

(* ---------- unit level: the renderers called in-process on known Violation objects ---------- *)
Definition judge_unit (q : oquirks) (version : string) (srcs : list vsrc) (impl_vs : list viol)
           (ij isf : json) (it : string) : list bool :=
  let e := map san_core impl_vs in
  let vi := map (realize ideal) srcs in
  let ei := map san_core vi in
  [ json_spec ij e;
    sarif_spec isf e;
    sarif_wf isf;
    text_spec q it e || text_spec ideal it e;
    json_spec (render_json vi) ei && sarif_spec (render_sarif ideal version vi) ei
      && sarif_wf (render_sarif ideal version vi) && text_spec ideal (text_output ideal vi) ei ]
  ++ map (fun c => let vs := map (realize c) srcs in
                   viols_eqb vs impl_vs && json_eqb (render_json vs) ij
                   && json_eqb (render_sarif c version vs) isf && String.eqb (text_output c vs) it)
         (candidates q)
  ++ defect_classes q srcs.

(* ---------- CLI level: three runs of one command on one project, stdout parsed by the harness ---------- *)
Definition exit_for (cs : list core) : Z := if is_nonempty cs then 1 else 0.
Definition opt_Z_eqb (o : option Z) (z : Z) : bool := match o with Some x => (x =? z)%Z | None => false end.

Definition cli_spec (q : oquirks) (ij isf : json) (it : string) (ej es et : Z) : list bool :=
  let oj := decode_json ij in
  let os := decode_sarif isf in
  let ot := match parse_text q it with Some c => Some c | None => parse_text ideal it end in
  let cj := match oj with Some (c, _) => c | None => [] end in
  [ match oj with Some _ => true | None => false end;
    match oj with Some (c, t) => (t =? Z.of_nat (List.length c))%Z | None => false end;
    match oj, os with Some (c, _), Some c' => cores_ms_eqb c c' | _, _ => false end;
    match oj, ot with Some (c, _), Some c' => cores_ms_eqb c c' | _, _ => false end;
    sarif_wf isf;
    (ej =? exit_for cj)%Z && (es =? exit_for (match os with Some c => c | None => cj end))%Z
      && (et =? exit_for (match ot with Some c => c | None => cj end))%Z ].

Definition judge_cli (q : oquirks) (version cmd : string) (srcs : list vsrc) (ij isf : json) (it : string) (ej es et : Z) : list bool :=
  let vi := map (realize ideal) srcs in
  let xi := match exit_performed cmd vi with Some z => z | None => (-1) end in
  cli_spec q ij isf it ej es et
  ++ [ forallb (fun b => b) (cli_spec ideal (render_json vi) (render_sarif ideal version vi) (text_output ideal vi) xi xi xi) ]
  ++ map (fun c => let vs := map (realize c) srcs in
                   json_eqb (render_json vs) ij && json_eqb (render_sarif c version vs) isf && String.eqb (text_output c vs) it
                   && opt_Z_eqb (exit_performed cmd vs) ej && opt_Z_eqb (exit_performed cmd vs) es && opt_Z_eqb (exit_performed cmd vs) et)
         (candidates q)
  ++ defect_classes q srcs.

(* ---------- usage-error classes: observed exit status against the property and the model ---------- *)
Definition outcome_code (o : outcome) (performed_exit : Z) : Z := match o with OExit z => z | OPerformed => performed_exit end.
Definition judge_usage (q : oquirks) (cmd : string) (c : uclass) (impl_exit performed_exit : Z) : list bool :=
  [ (impl_exit =? outcome_code (spec_outcome c) performed_exit)%Z;
    (outcome_code (usage_outcome ideal cmd c) performed_exit =? outcome_code (spec_outcome c) performed_exit)%Z ]
  ++ map (fun k => (impl_exit =? outcome_code (usage_outcome k cmd c) performed_exit)%Z) (candidates q)
  ++ usage_classes cmd c.

(* ---------- leaf level: the sanitiser against CPython's codec ---------- *)
Definition judge_sanitize (cases : list (string * string)) : list bool :=
  map (fun p => String.eqb (sanitize (fst p)) (snd p)) cases.
(* ... and the recogniser of well-formed UTF-8 against CPython's strict decoder *)
Definition judge_utf8_valid (cases : list (string * bool)) : list bool :=
  map (fun p => Bool.eqb (utf8_valid (fst p)) (snd p)) cases.

(* every command click registers must have an exit site in the generated table *)
Definition judge_commands (cmds : list string) : list bool :=
  map (fun c => match assoc c cli_exit_table with Some _ => true | None => false end) cmds
  ++ [(List.length cmds =? List.length cli_exit_table)%nat].

(* ---------- byte level: what click.echo(json.dumps(doc, indent=K)) wrote for a document, against Model/OutputBytes.v ----------
   [ the model's serialisation of the document is the observed stdout, byte for byte;
     the specification's reader of the JSON grammar accepts the observed stdout and reads the same document as Python's json.loads;
     the observed stdout is well-formed UTF-8 (that it is even ASCII is a theorem about the model, not a demand of the property) ] *)
Definition judge_bytes (doc : json) (out : string) : list bool :=
  [ String.eqb (stdout_of doc) out;
    match loads out with Some j => json_eqb j doc | None => false end;
    utf8_valid out ].
(* json.dumps of single strings (arbitrary bytes under surrogateescape): the escaper against CPython, and the reader on its output *)
Definition judge_jstr (cases : list (string * string)) : list bool :=
  flat_map (fun p => [ String.eqb (json_quote (fst p)) (snd p);
                       match snd p with
                       | String _ r => match read_str (S (String.length r)) r with
                                       | Some (x, EmptyString) => String.eqb x (fst p)
                                       | _ => false
                                       end
                       | EmptyString => false
                       end ]) cases.
(* the reader against Python's json.loads on texts the model did not write (other layouts, corrupted texts):
   expected = Some document / None when Python rejects the text; a JSON text must be well-formed UTF-8 *)
Definition judge_loads (cases : list (string * option json)) : list bool :=
  map (fun p => match (if utf8_valid (fst p) then loads (fst p) else None), snd p with
                | Some j, Some e => json_eqb j e
                | None, None => true
                | _, _ => false
                end) cases.

(* stdout given line by line (every line of the list is followed by a newline) *)
Fixpoint unlines (l : list string) : string :=
  match l with [] => EmptyString | x :: r => (x ++ String nl (unlines r))%string end.
(* unit / CLI level with the raw stdout of the JSON and SARIF renderings: the byte-level verdicts are appended *)
Definition judge_unit_b (q : oquirks) (version : string) (srcs : list vsrc) (impl_vs : list viol)
           (ij isf : json) (it : string) (outj outs : string) : list bool :=
  judge_unit q version srcs impl_vs ij isf it ++ judge_bytes ij outj ++ judge_bytes isf outs.
Definition judge_cli_b (q : oquirks) (version cmd : string) (srcs : list vsrc) (ij isf : json) (it : string) (ej es et : Z)
           (outj outs : string) : list bool :=
  judge_cli q version cmd srcs ij isf it ej es et ++ judge_bytes ij outj ++ judge_bytes isf outs.
