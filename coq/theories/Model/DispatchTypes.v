(* Model/DispatchTypes.v - the types the generated table layer Gen/DispatchGen.v is expressed in (C15). *)
From TL Require Import Lib.Base.

(* predicate kinds found in the CLI filters: rule_id.startswith(n) / n in rule_id / rule_id == n *)
Inductive fkind := FStartswith | FContains | FEq.

(* atoms of the name-based exemption predicates: name.startswith(n) / name.endswith(n) / n in name / name == n *)
Inductive nkind := NStarts | NEnds | NContains | NEq.

(* base class of a rule: MultiLanguageLintRule / PythonOnlyLintRule / BaseLintRule *)
Inductive rkind := KMulti | KPyOnly | KBase.

(* one concrete rule class under src/linters: its own rule id, its package, its base kind, the languages
   its check() lets through (None = no language test at all), the keys under which it looks for its section *)
Record rule := mk_rule {
  r_id : string;
  r_pkg : string;
  r_kind : rkind;
  r_langs : option (list string);
  r_keys : list string }.
