(* Model/EditFilter.v — the four DRY block filters of src/linters/dry/block_filter.py and the registry that combines
   them (BlockFilterRegistry.should_filter_block = any(f.should_filter(block, content))), for property C13: what a blank
   line, a comment line or white space inside / around a candidate block does to the decision `drop this block`.

     lines = file_content.split("\n")[start - 1 : end]                                (Model/DryFilter.v slice_lines, C03)
     KeywordArgumentFilter   share of `name = value` lines among the lines >= threshold and the block lies inside a
                             multi-line call (Model/DryFilter.v kwarg_line, Gen.DryGen: threshold, comparison, containment)
     ImportGroupFilter       every non-blank stripped line starts with one of Gen.EditGen.flt_import_prefixes
     LoggerCallFilter        exactly flt_logger_count non-blank stripped lines and the first one matches
                             ^\s*(self\.)?(n1|n2|..)\.(m1|m2|..)\s*\(      (alternatives generated from the pattern text)
     ExceptionReraiseFilter  exactly flt_reraise_count non-blank stripped lines: `except ..:` then `raise .. from ..`

   Quirk flags (true = what the code does, false = what C13 demands):
     f_kwarg_raw_lines          the share is taken among ALL raw lines of the block, blank and comment-only lines included
     f_kwarg_trailing_ws        `.+` of the keyword-argument pattern is satisfied by trailing white space: `name =` does not
                                count, `name =  ` does
     f_reraise_counts_comments  a comment-only line counts as one of the two lines of the except / raise pair
   ast.Call spans are parser output (an oracle handed in by the harness, for both versions of a file).  No proofs here. *)
From TL Require Import Lib.Base Lib.GenTypes Model.PyStr Model.DryBase Model.DryFilter Gen.DryGen Model.DryPipe Model.Dry Gen.EditGen Model.Edit.
From TL Require Model.SrpTypes.

Record fquirks := { f_kwarg_raw_lines : bool; f_kwarg_trailing_ws : bool; f_reraise_counts_comments : bool }.

Definition strip (s : string) : string := SrpTypes.strip s.

(* a line that means nothing to the program: white space only, or a comment-only line of the language (marker "#" / "//") *)
Definition skippable (marker s : string) : bool := let t := strip s in str_empty t || prefixb marker t.

Definition meaningful (raw_flag : bool) (marker : string) (ls : list string) : list string :=
  if raw_flag then ls else filter (fun s => negb (skippable marker s)) ls.

(* ---------- KeywordArgumentFilter on the lines it looks at ---------- *)
Definition kw_match (q : fquirks) (s : string) : bool :=
  if f_kwarg_trailing_ws q then kwarg_line s else kwarg_line (strip s).

Definition kwarg_on (km : string -> bool) (ls : list string) (calls : list (nat * nat)) (s e : nat) : bool :=
  match ls with
  | [] => false
  | _ => if cmp_nat dry_kwarg_cmp (List.length (filter km ls) * dry_kwarg_den) (dry_kwarg_num * List.length ls)
         then existsb (fun c => dry_call_contains (fst c) (snd c) s e) calls else false
  end.

(* ---------- ImportGroupFilter ---------- *)
Definition import_line (t : string) : bool := existsb (fun p => prefixb p t) flt_import_prefixes.
Definition import_ok (s : string) : bool := let t := strip s in str_empty t || import_line t.
Definition import_on (ls : list string) : bool := forallb import_ok ls.

(* ---------- LoggerCallFilter ---------- *)
Definition nonempty_stripped (ls : list string) : list string := filter (fun t => negb (str_empty t)) (map strip ls).

Definition logger_try (u : string) : bool :=
  existsb (fun n => let h := (n ++ ".")%string in
                    if prefixb h u then
                      let r := sdrop (String.length h) u in
                      existsb (fun m => if prefixb m r then prefixb "(" (DryFilter.skip_ws (sdrop (String.length m) r)) else false)
                              flt_logger_methods
                    else false) flt_logger_names.
Definition logger_match (t : string) : bool :=
  let u := DryFilter.skip_ws t in
  logger_try u || (if prefixb flt_logger_self u then logger_try (sdrop (String.length flt_logger_self) u) else false).

Definition logger_on (lm : string -> bool) (ls : list string) : bool :=
  match nonempty_stripped ls with
  | [] => false
  | t :: _ => if cmp_nat flt_logger_cmp (List.length (nonempty_stripped ls)) flt_logger_count then lm t else false
  end.

(* ---------- ExceptionReraiseFilter ---------- *)
Definition reraise_pair (a b : string) : bool :=
  prefixb (nth 0 flt_reraise_lits "") a && suffixb (nth 1 flt_reraise_lits "") a &&
  (prefixb (nth 2 flt_reraise_lits "") b && containsb (nth 3 flt_reraise_lits "") b).
Definition reraise_on (q : fquirks) (marker : string) (ls : list string) : bool :=
  let st := nonempty_stripped (meaningful (f_reraise_counts_comments q) marker ls) in
  if cmp_nat flt_reraise_cmp (List.length st) flt_reraise_count then false
  else match st with a :: b :: _ => reraise_pair a b | _ => false end.

(* ---------- the registry ---------- *)
Definition filter_on (q : fquirks) (marker : string) (lm : string -> bool) (ls : list string) (calls : list (nat * nat)) (s e : nat)
           (name : string) : bool :=
  if String.eqb name "keyword_argument_filter" then kwarg_on (kw_match q) (meaningful (f_kwarg_raw_lines q) marker ls) calls s e
  else if String.eqb name "import_group_filter" then import_on ls
  else if String.eqb name "logger_call_filter" then logger_on lm ls
  else if String.eqb name "exception_reraise_filter" then reraise_on q marker ls
  else false.

(* one decision per registered filter, in registration order *)
Definition decisions_on (q : fquirks) (marker : string) (lm : string -> bool) (ls : list string) (calls : list (nat * nat)) (s e : nat) : list bool :=
  map (filter_on q marker lm ls calls s e) flt_registry.
Definition decisions (q : fquirks) (marker : string) (lm : string -> bool) (raw : list string) (calls : list (nat * nat)) (s e : nat) : list bool :=
  decisions_on q marker lm (slice_lines raw s e) calls s e.
(* should_filter_block *)
Definition registry (q : fquirks) (marker : string) (lm : string -> bool) (raw : list string) (calls : list (nat * nat)) (s e : nat) : bool :=
  existsb (fun b : bool => b) (decisions q marker lm raw calls s e).

(* a block as the analyzers build it: first and last line carry a token (not blank, not comment-only, not an import line) *)
Definition code_line (marker s : string) : bool := negb (skippable marker s) && negb (import_line (strip s)).
Definition ends_code (marker : string) (ls : list string) : bool := code_line marker (hd "" ls) && code_line marker (last ls "").
Definition block_ok (marker : string) (raw : list string) (s e : nat) : bool :=
  (1 <=? s) && (s <=? e) && (e <=? List.length raw) && ends_code marker (slice_lines raw s e).

(* the Call spans of the file after a line was inserted before index k (parser oracle: a Call starts and ends on token lines) *)
Definition calls_ins (k : nat) (calls : list (nat * nat)) : list (nat * nat) := map (fun c => (shift_ins k (fst c), shift_ins k (snd c))) calls.

(* ---------- judging correspondence cases in the VM ---------- *)
Definition fq_actual : fquirks := {| f_kwarg_raw_lines := true; f_kwarg_trailing_ws := true; f_reraise_counts_comments := true |}.
(* 0: the claimed vector; 1-3: one flag off; 4: what C13 demands *)
Definition fcandidates (q : fquirks) : list fquirks :=
  [ q;
    {| f_kwarg_raw_lines := false; f_kwarg_trailing_ws := f_kwarg_trailing_ws q; f_reraise_counts_comments := f_reraise_counts_comments q |};
    {| f_kwarg_raw_lines := f_kwarg_raw_lines q; f_kwarg_trailing_ws := false; f_reraise_counts_comments := f_reraise_counts_comments q |};
    {| f_kwarg_raw_lines := f_kwarg_raw_lines q; f_kwarg_trailing_ws := f_kwarg_trailing_ws q; f_reraise_counts_comments := false |};
    {| f_kwarg_raw_lines := false; f_kwarg_trailing_ws := false; f_reraise_counts_comments := false |} ].

Fixpoint bl_eqb (a b : list bool) : bool :=
  match a, b with [], [] => true | x :: a', y :: b' => Bool.eqb x y && bl_eqb a' b' | _, _ => false end.

(* block: (start0, end0, start1, end1, implementation's decisions on version 0, on version 1) *)
Definition fblock := (nat * nat * nat * nat * list bool * list bool)%type.
Record fcase := {
  fk_lang : nat;                                   (* 0 python, 1 typescript / javascript *)
  fk_raw0 : list string; fk_calls0 : list (nat * nat);
  fk_raw1 : list string; fk_calls1 : list (nat * nat);
  fk_blocks : list fblock
}.

(* one row per block: inv_impl :: [corr_c; inv_c] for c = candidates; the head row: the generated registry has the four names *)
Definition judge_filters (q : fquirks) (c : fcase) : list (list bool) :=
  let marker := if fk_lang c =? 0 then "#" else "//" in
  [list_eqb String.eqb flt_registry ["keyword_argument_filter"; "import_group_filter"; "logger_call_filter"; "exception_reraise_filter"]]
  :: map (fun b : fblock =>
       let '(s0, e0, s1, e1, i0, i1) := b in
       bl_eqb i0 i1
       :: flat_map (fun q' =>
            let m0 := decisions q' marker logger_match (fk_raw0 c) (fk_calls0 c) s0 e0 in
            let m1 := decisions q' marker logger_match (fk_raw1 c) (fk_calls1 c) s1 e1 in
            [bl_eqb i0 m0 && bl_eqb i1 m1; bl_eqb m0 m1]) (fcandidates q)) (fk_blocks c).
