(* Model/DryBase.v — string runtime and small types the generated layer Gen/DryGen.v is expressed in
   (C03, DRY linter).  Definitions only; the Python primitives they stand for (`in`, `startswith`,
   `str.index` + slice, `str.split()`, `sep.join`) are oracles validated by the correspondence check. *)
From TL Require Import Lib.Base.

(* ---------- str primitives ---------- *)
Fixpoint str_prefix (p s : string) : bool :=
  match p with
  | EmptyString => true
  | String a p' => match s with
                   | EmptyString => false
                   | String b s' => Ascii.eqb a b && str_prefix p' s'
                   end
  end.

(* `p in s` *)
Fixpoint str_contains (p s : string) : bool :=
  str_prefix p s || match s with EmptyString => false | String _ s' => str_contains p s' end.

(* `s.startswith(tuple)` *)
Definition str_starts_any (s : string) (ps : list string) : bool := existsb (fun p => str_prefix p s) ps.

(* `s[: s.index(m)]` when `m in s`, otherwise s *)
Fixpoint cut_at (m s : string) : string :=
  if str_prefix m s then EmptyString
  else match s with EmptyString => EmptyString | String c s' => String c (cut_at m s') end.

(* characters `str.split()` treats as separators (ASCII part of str.isspace) *)
Definition is_ws (c : ascii) : bool :=
  let n := nat_of_ascii c in ((9 <=? n) && (n <=? 13)) || ((28 <=? n) && (n <=? 32)).

Fixpoint srev_app (a b : string) : string :=
  match a with EmptyString => b | String c a' => srev_app a' (String c b) end.
Definition srev (a : string) : string := srev_app a EmptyString.

Definition flush (acc : string) (rest : list string) : list string :=
  match acc with EmptyString => rest | _ => srev acc :: rest end.

(* `s.split()` ; acc holds the current word reversed *)
Fixpoint words_acc (acc s : string) : list string :=
  match s with
  | EmptyString => flush acc []
  | String c s' => if is_ws c then flush acc (words_acc EmptyString s') else words_acc (String c acc) s'
  end.
Definition words (s : string) : list string := words_acc EmptyString s.

(* `sep.join(l)` *)
Fixpoint join (sep : string) (l : list string) : string :=
  match l with
  | [] => EmptyString
  | [x] => x
  | x :: xs => (x ++ sep ++ join sep xs)%string
  end.

Definition str_empty (s : string) : bool := match s with EmptyString => true | _ => false end.

Definition dry_id_nat (n : nat) : nat := n.   (* `len(blocks)` with blocks represented by its length *)

(* ---------- types of generated items ---------- *)
(* `window[i]` / `window[-1-i]` *)
Inductive winidx := WIdx (i : nat) | WFromEnd (i : nat).
Definition win_pick {A} (d : A) (w : list A) (i : winidx) : A :=
  match i with WIdx n => nth n w d | WFromEnd n => nth n (rev w) d end.

(* f"{loc.file_path}:{loc.start_line}-{loc.end_line}" *)
Inductive refpart := RLit (s : string) | RPath | RStart | REnd.
(* f"Duplicate code ({line_count} lines, {occurrence_count} occurrences)" / f". Also found in: {', '.join(locations)}" *)
Inductive dmsgpart := DLit (s : string) | DLines | DOcc | DLocs (sep : string).

Definition render_ref (fmt : list refpart) (path : string) (s e : nat) : string :=
  sconcat (map (fun p => match p with RLit t => t | RPath => path | RStart => show_nat s | REnd => show_nat e end) fmt).

Definition render_dmsg (fmt : list dmsgpart) (lines occ : nat) (locs : list string) : string :=
  sconcat (map (fun p => match p with DLit t => t | DLines => show_nat lines | DOcc => show_nat occ | DLocs sep => join sep locs end) fmt).

(* ---------- str primitives used by the text block filters (block_filter.py) ---------- *)
(* `s.startswith(p)` / `s.endswith(p)` with the receiver first (the order the translator emits) *)
Definition str_starts (s p : string) : bool := str_prefix p s.
Definition str_ends (s p : string) : bool := str_prefix (srev p) (srev s).
