(* Model/CollectSpec.v — what property C14 and the documentation demand, written independently of the
   code's control flow: the regular files beneath the target, minus files inside an always-excluded
   directory, compiled artefacts, and files matching a repository ignore pattern of a documented form
   (docs/how-to-ignore-violations.md "Ignore Patterns (Repository-Level)"; .thailintignore is
   "gitignore-style").  The spec has its own tables (the always-excluded names as listed by the
   property and shipped in the verified tree); Proofs/CollectTables.v shows the code's tables agree.
   No proofs in this file. *)
From TL Require Import Lib.Base Model.CollectStr Model.Glob Model.Collect.

(* ------------------------------------------------------------------ always-excluded names *)
Definition spec_excluded_dirs : list string :=
  [".git"; "node_modules"; "__pycache__"; ".venv"; "venv"; "build"; "dist";
   ".pytest_cache"; ".mypy_cache"; ".ruff_cache";            (* "caches" *)
   ".svn"; ".hg"; ".tox"; ".eggs"; "htmlcov"; "*.egg-info"].
Definition spec_egg_suffix : string := ".egg-info".
Definition spec_compiled_exts : list string := [".pyc"; ".pyo"; ".pyd"; ".so"; ".dll"; ".dylib"; ".class"; ".o"; ".obj"].

Definition spec_excluded_dir (n : string) : bool := smem n spec_excluded_dirs || ends_with n spec_egg_suffix.
Definition spec_compiled (n : string) : bool := smem (name_suffix n) spec_compiled_exts.

(* ------------------------------------------------------------------ documented pattern forms *)
Inductive pat :=
| PSuffix (s : string)        (* "*" ++ s          e.g. *.generated.py : files whose name ends with s *)
| PUnder (d : list string)    (* d ++ "/**"        e.g. tests/**       : everything under directory d of the project root *)
| PAnySuffix (s : string)     (* "**/*" ++ s       e.g. **/*_constants.py : files at any depth whose name ends with s *)
| PDir (n : string)           (* n ++ "/"          e.g. legacy/        : all files in a directory called n, at any depth *)
| PAnyDir (n : string)        (* "**/" ++ n ++ "/" e.g. **/vendor/     : the same, spelled with the recursive wildcard *)
| PDirPath (d : list string)  (* d ++ "/"          e.g. src/legacy/    : all files in that directory (two or more components) *)
| PExact (p : list string)    (* p                 e.g. src/legacy_module.py : that file *)
| PRaw (s : string).          (* any other glob (?, [seq], [!seq], inner stars): fnmatch against the project-relative path *)

Definition render (p : pat) : string :=
  match p with
  | PSuffix s => ("*" ++ s)%string
  | PUnder d => (pjoin d ++ "/**")%string
  | PAnySuffix s => ("**/*" ++ s)%string
  | PDir n => (n ++ "/")%string
  | PAnyDir n => ("**/" ++ n ++ "/")%string
  | PDirPath d => (pjoin d ++ "/")%string
  | PExact p => pjoin p
  | PRaw s => s
  end.

(* is d a proper prefix (component-wise) of p? *)
Fixpoint proper_prefix (d p : list string) : bool :=
  match d, p with
  | [], _ :: _ => true
  | x :: d', y :: p' => String.eqb x y && proper_prefix d' p'
  | _, _ => false
  end.

(* does pattern p cover the file with project-relative components comps? *)
Definition spec_match (p : pat) (comps : list string) : bool :=
  match p with
  | PSuffix s | PAnySuffix s => ends_with (last comps "") s
  | PUnder d | PDirPath d => proper_prefix d comps
  | PDir n | PAnyDir n => smem n (removelast comps)
  | PExact f => str_eq_list f comps
  | PRaw s => fnm (pjoin comps) s
  end.

(* ------------------------------------------------------------------ where the patterns come from *)
Inductive line := LPat (lead trail : nat) (p : pat) | LComment (s : string) | LBlank (n : nat).

Fixpoint spaces (n : nat) : string := match n with 0 => "" | S k => String " "%char (spaces k) end.

Definition render_line (l : line) : string :=
  match l with
  | LPat a b p => (spaces a ++ render p ++ spaces b)%string
  | LComment s => ("#" ++ s)%string
  | LBlank n => spaces n
  end.

Definition line_pats (l : line) : list pat := match l with LPat _ _ p => [p] | _ => [] end.

Record tsources := {
  t_ti : option (list line);
  t_yaml : option (list pat);
  t_json : option (list pat);
}.

Definition render_sources (S : tsources) : sources := {|
  s_ti := option_map (map render_line) (t_ti S);
  s_yaml := option_map (map render) (t_yaml S);
  s_json := option_map (map render) (t_json S) |}.

Definition opt_pats {A} (o : option (list A)) : list A := match o with Some l => l | None => [] end.

(* every pattern of .thailintignore and of the config's ignore list counts *)
Definition spec_pats (S : tsources) : list pat :=
  flat_map line_pats (opt_pats (t_ti S)) ++ opt_pats (t_yaml S) ++ opt_pats (t_json S).

Definition spec_ignored (S : tsources) (comps : list string) : bool :=
  existsb (fun p => spec_match p comps) (spec_pats S).

(* ------------------------------------------------------------------ the files a run must lint *)
(* a file (given by its project-relative components) is to be linted iff no directory on its
   path is always-excluded, it is not a compiled artefact, and no repository pattern covers it *)
Definition spec_ok (S : tsources) (p : list string) : bool :=
  negb (existsb spec_excluded_dir (removelast p)) && negb (spec_compiled (last p "")) && negb (spec_ignored S p).

(* the regular files beneath directory t (whose path is pre): all of them, or its direct children *)
Fixpoint all_files (recursive : bool) (pre : list string) (t : tree) {struct t} : list (list string) :=
  match t with
  | File _ => []
  | Dir _ cs =>
    flat_map (fun c => match c with File n => [pre ++ [n]] | Dir _ _ => [] end) cs
    ++ (if recursive
        then flat_map (fun c => match c with Dir n _ => all_files recursive (pre ++ [n]) c | File _ => [] end) cs
        else [])
  end.

Definition spec_dir (recursive : bool) (rel : list string) (t : tree) (S : tsources) : list (list string) :=
  filter (spec_ok S) (all_files recursive rel t).

Definition spec_files (S : tsources) (ps : list (list string)) : list (list string) := filter (spec_ok S) ps.

(* several targets in one run: the named files and everything beneath the named directories *)
Definition spec_paths (recursive : bool) (S : tsources) (files : list (list string)) (dirs : list (list string * tree)) : list (list string) :=
  spec_files S files ++ flat_map (fun d => spec_dir recursive (fst d) (snd d) S) dirs.

(* "p is a regular file of t, reached through the directories named on the way" *)
Inductive file_at : tree -> list string -> Prop :=
| FA_here : forall d cs n, In (File n) cs -> file_at (Dir d cs) [n]
| FA_down : forall d cs n cs' rest, In (Dir n cs') cs -> file_at (Dir n cs') rest -> file_at (Dir d cs) (n :: rest).

(* ------------------------------------------------------------------ domain of the theorems *)
Definition has_char (c : ascii) (s : string) : bool := amem c (la s).

(* a path component: non-empty, no "/", not "." *)
Definition comp_ok (n : string) : bool := nonempty n && negb (has_char slash n) && negb (String.eqb n ".").

Definition lnil_s {A} (l : list A) : bool := match l with [] => true | _ => false end.

Fixpoint names_ok (t : tree) : bool :=
  match t with
  | File n => comp_ok n
  | Dir n cs => comp_ok n && forallb names_ok cs
  end.
(* the target: its own name is irrelevant (it is part of rel) *)
Definition target_ok (t : tree) : bool := forallb names_ok (children t).

Definition no_special (s : string) : bool := negb (existsb special (la s)).
(* a literal path component usable inside a pattern *)
Definition lit_ok (n : string) : bool := comp_ok n && no_special n.

Definition first_is (f : ascii -> bool) (s : string) : bool := match la s with c :: _ => f c | [] => false end.
Definition last_is (f : ascii -> bool) (s : string) : bool := match rev (la s) with c :: _ => f c | [] => false end.

(* a line of .thailintignore survives strip() unchanged and is not taken for a comment *)
Definition line_safe (s : string) : bool :=
  nonempty s && negb (first_is is_ws s) && negb (last_is is_ws s) && negb (starts_with s "#").

Definition pat_ok (p : pat) : bool :=
  line_safe (render p) &&
  match p with
  | PSuffix s | PAnySuffix s => nonempty s && negb (has_char slash s) && no_special s
  | PUnder d => negb (lnil_s d) && forallb lit_ok d
  | PDir n | PAnyDir n => lit_ok n
  | PDirPath d => (2 <=? List.length d) && forallb lit_ok d
  | PExact f => negb (lnil_s f) && forallb lit_ok f
  | PRaw s => negb (ends_with s "/") && negb (starts_with s "**/")
  end.

Definition line_ok (l : line) : bool :=
  match l with LPat _ _ p => pat_ok p | LComment _ => true | LBlank _ => true end.

(* one configuration file: .thailint.json is the project's config only when there is no .thailint.yaml *)
Definition one_config (S : tsources) : bool :=
  match t_yaml S, t_json S with Some _, Some _ => false | _, _ => true end.

Definition tsources_ok (S : tsources) : bool :=
  forallb line_ok (opt_pats (t_ti S)) && forallb pat_ok (opt_pats (t_yaml S)) && forallb pat_ok (opt_pats (t_json S))
  && one_config S.

(* the target lies inside the project and not inside an always-excluded directory *)
Definition rel_ok (rel : list string) : bool :=
  forallb comp_ok rel && negb (existsb spec_excluded_dir rel).

(* a path named explicitly *)
Definition path_ok (p : list string) : bool := negb (lnil_s p) && forallb comp_ok p.
