(* Model/Dispatch.v - C15: which rules run on which file, and what each CLI command lets through.

   Executable, quirk-parametric, no proofs.  Everything that is a literal in the source comes from
   Gen/DispatchGen.v (extension map, shebang constants, lower-casing of the suffix, the per-command
   rule-id predicates, the rule classes with their language guards and config keys, the rule-id registry).

   What is NOT modelled is what a rule finds inside a file of its own language: that is an oracle
   (`atab`: per rule and language the violations its analysis yields, as (rule id, tag) pairs).
   The model says which oracle entries reach the output of `thailint <cmd>` for a given file name,
   first line and configuration; the specification says which ones the property allows. *)
From TL Require Import Lib.Base Model.DispatchTypes Gen.DispatchGen.

(* ------------------------------------------------------------------ strings *)
Definition lower_ascii (c : ascii) : ascii :=
  let n := nat_of_ascii c in
  if (65 <=? n) && (n <=? 90) then ascii_of_nat (n + 32) else c.

(* str.lower() on the UTF-8 bytes of a name.  ASCII letters are lower-cased; of all non-ASCII code points exactly
   two lower-case to something containing an ASCII letter (census run by the harness against CPython on every
   check): U+212A KELVIN SIGN (E2 84 AA) -> "k" and U+0130 (C4 B0) -> "i" + U+0307 (CC 87).  Every other
   non-ASCII byte is left as it is: CPython maps such characters to non-ASCII characters, which can neither
   become nor stop being equal to an ASCII key of the extension map. *)
Definition is_byte (c : ascii) (n : nat) : bool := nat_of_ascii c =? n.

Fixpoint lower (s : string) : string :=
  match s with
  | EmptyString => EmptyString
  | String a t1 =>
      match t1 with
      | EmptyString => String (lower_ascii a) EmptyString
      | String b t2 =>
          if is_byte a 196 && is_byte b 176
          then String "i" (String (ascii_of_nat 204) (String (ascii_of_nat 135) (lower t2)))
          else match t2 with
               | EmptyString => String (lower_ascii a) (lower t1)
               | String c t3 =>
                   if is_byte a 226 && is_byte b 132 && is_byte c 170
                   then String "k" (lower t3)
                   else String (lower_ascii a) (lower t1)
               end
      end
  end.

Definition is_dot (c : ascii) : bool := Ascii.eqb c ".".

(* the suffix of s that starts at its last dot, if s contains a dot *)
Fixpoint rsplit_dot (s : string) : option string :=
  match s with
  | EmptyString => None
  | String c t =>
      match rsplit_dot t with
      | Some r => Some r
      | None => if is_dot c then Some (String c t) else None
      end
  end.

(* pathlib.PurePath.suffix of a final path component (CPython 3.12):
   i = name.rfind('.'); name[i:] if 0 < i < len(name) - 1 else '' *)
Definition py_suffix (name : string) : string :=
  match name with
  | EmptyString => EmptyString
  | String _ t =>
      match rsplit_dot t with
      | Some r => if String.length r =? 1 then EmptyString else r
      | None => EmptyString
      end
  end.

(* n in s *)
Fixpoint contains (n s : string) : bool :=
  String.prefix n s || match s with EmptyString => false | String _ t => contains n t end.

(* text.split("\n")[0] *)
Fixpoint first_line (s : string) : string :=
  match s with
  | EmptyString => EmptyString
  | String c t => if nat_of_ascii c =? 10 then EmptyString else String c (first_line t)
  end.

Fixpoint lookup {A} (k : string) (m : list (string * A)) : option A :=
  match m with
  | [] => None
  | (k', v) :: rest => if String.eqb k k' then Some v else lookup k rest
  end.

(* ------------------------------------------------------------------ inputs *)
(* a file as far as dispatch is concerned: final path component, the beginning of its text (at least
   the whole first line), size > 0, readable as UTF-8 *)
Record file := mk_file { f_name : string; f_head : string; f_nonempty : bool; f_readable : bool }.

(* a violation: rule id and an opaque tag (position + message) *)
Definition viol := (string * nat)%type.
Definition viol_eqb (a b : viol) : bool := String.eqb (fst a) (fst b) && (snd a =? snd b).

(* analysis oracle: (own id of the rule, language) -> what the rule's analysis of that language reports.
   Language-agnostic rules (no language test) are keyed by "*". *)
Definition atab := list ((string * string) * list viol).
Fixpoint an (t : atab) (rid lang : string) : list viol :=
  match t with
  | [] => []
  | ((r, l), vs) :: rest => if String.eqb r rid && String.eqb l lang then vs else an rest rid lang
  end.

(* one top-level configuration section: its key and the languages for which the owning linter's config
   class rejects it with ValueError (oracle: the config classes' validation) *)
Record section := mk_section { s_key : string; s_rej : list string }.
Definition cfg := list section.

(* ------------------------------------------------------------------ quirks *)
Record quirks := mk_quirks {
  (* the shebang fallback is applied to every file whose extension is not in the map, not only to
     extensionless files (patched table: with the flag on the model follows the guard shape found in the
     source, Gen.shebang_guard_any_ext; with the flag off it is confined to extensionless names) *)
  q_shebang_any_ext : bool;
  (* the name-based test-file exemptions of method-property, magic-numbers (Python) and stringly-typed compare
     the extension case-sensitively (`test_x.PY` is analysed as Python but is not a "test_*.py" file) *)
  q_name_exemption_ext_case : bool }.
Definition ideal : quirks := mk_quirks false false.

(* ------------------------------------------------------------------ language detection *)
Definition ext_of (name : string) : string :=
  let s := py_suffix name in if ext_lowered then lower s else s.

Definition is_shebang (line : string) : bool :=
  String.prefix shebang_prefix line && contains shebang_needle line.

Definition detect (q : quirks) (f : file) : string :=
  let ext := ext_of (f_name f) in
  match lookup ext extension_map with
  | Some l => l
  | None =>
      if ((q_shebang_any_ext q && shebang_guard_any_ext) || String.eqb (py_suffix (f_name f)) "")
         && f_nonempty f && f_readable f && is_shebang (first_line (f_head f))
      then shebang_lang else unknown_lang
  end.

(* ------------------------------------------------------------------ rules *)
Definition guard (r : rule) (lang : string) : bool :=
  match r_langs r with None => true | Some ls => smem lang ls end.

Definition an_key (r : rule) (lang : string) : string :=
  match r_langs r with None => "*" | Some _ => lang end.

(* ---- name-based exemptions (Gen.name_exemptions): a file whose NAME satisfies the predicate gets no finding of the rule *)
Fixpoint ends_with (n s : string) : bool :=
  String.eqb n s || match s with EmptyString => false | String _ t => ends_with n t end.

Definition natom (a : nkind * string) (name : string) : bool :=
  match fst a with
  | NStarts => String.prefix (snd a) name
  | NEnds => ends_with (snd a) name
  | NContains => contains (snd a) name
  | NEq => String.eqb name (snd a)
  end.

Definition dnf_holds (d : list (list (nkind * string))) (name : string) : bool :=
  existsb (fun conj => forallb (fun a => natom a name) conj) d.

Definition exempt (r : rule) (lang name : string) : bool :=
  existsb (fun e => String.eqb (fst (fst e)) (r_id r) && smem lang (snd (fst e)) && dnf_holds (snd e) name) name_exemptions.

(* the name with its extension lower-cased: the name the property looks at ("according to its extension, case-insensitively") *)
Fixpoint take (n : nat) (s : string) : string :=
  match n, s with
  | S k, String c t => String c (take k t)
  | _, _ => EmptyString
  end.
Definition canon_name (name : string) : string :=
  let suf := py_suffix name in
  (take (String.length name - String.length suf) name ++ lower suf)%string.

(* The oracle table holds, per rule and language, the findings on the canonically named file (whose exemptions
   are therefore already applied) and, under the rule id prefixed with "raw:", the findings on a neutrally named
   copy (no exemption applies).  With the flag on the code evaluates the exemption on the name as spelled. *)
Definition raw_id (rid : string) : string := ("raw:" ++ rid)%string.

Definition rule_result (q : quirks) (t : atab) (r : rule) (lang name : string) : list viol :=
  if guard r lang then
    if q_name_exemption_ext_case q && negb (Bool.eqb (exempt r lang name) (exempt r lang (canon_name name)))
    then (if exempt r lang name then [] else an t (raw_id (r_id r)) (an_key r lang))
    else an t (r_id r) (an_key r lang)
  else [].

(* every registered rule runs on every file (Orchestrator._get_rules_for_file) *)
Definition run_all (q : quirks) (t : atab) (lang name : string) : list viol :=
  flat_map (fun r => rule_result q t r lang name) rule_table.

(* when a rule loads (and validates) its section, relative to its own guards - hand-modelled control
   flow of the check() methods, validated by the correspondence check *)
Inductive stage := SAlways | SContent | SGuard.
Definition stage_of (r : rule) : stage :=
  match r_kind r with
  | KMulti => SContent
  | KPyOnly => SGuard
  | KBase =>
      if smem (r_pkg r) ["file_placement"; "blocking_async"; "clone_abuse"; "unwrap_abuse"; "file_header"] then SAlways
      else if String.eqb (r_pkg r) "dry" then SContent
      else SGuard
  end.

Definition loads (r : rule) (f : file) (lang : string) : bool :=
  match stage_of r with
  | SAlways => true
  | SContent => f_readable f
  | SGuard => f_readable f && guard r lang
  end.

Definition rejected (r : rule) (c : cfg) (lang : string) : bool :=
  existsb (fun s => smem (s_key s) (r_keys r) && smem lang (s_rej s)) c.

(* ------------------------------------------------------------------ commands *)
Definition fmatch (k : fkind) (needle rid : string) : bool :=
  match k with
  | FStartswith => String.prefix needle rid
  | FContains => contains needle rid
  | FEq => String.eqb rid needle
  end.

Definition passes (atoms : list (fkind * string)) (rid : string) : bool :=
  forallb (fun a => fmatch (fst a) (snd a) rid) atoms.

(* ---- specification side: which linter a command stands for (docs/cli-reference.md), hand-written *)
Definition cmd_owner : list (string * (string * option string)) :=
  [("blocking-async", ("blocking_async", None)); ("clone-abuse", ("clone_abuse", None)); ("dry", ("dry", None));
   ("file-header", ("file_header", None)); ("file-placement", ("file_placement", None));
   ("improper-logging", ("print_statements", None)); ("print-statements", ("print_statements", None));
   ("lazy-ignores", ("lazy_ignores", None)); ("lbyl", ("lbyl", None)); ("magic-numbers", ("magic_numbers", None));
   ("method-property", ("method_property", None)); ("nesting", ("nesting", None));
   ("perf", ("performance", None));
   ("perf --rule string-concat", ("performance", Some "performance.string-concat-loop"));
   ("perf --rule regex-loop", ("performance", Some "performance.regex-in-loop"));
   ("string-concat-loop", ("performance", Some "performance.string-concat-loop"));
   ("regex-in-loop", ("performance", Some "performance.regex-in-loop"));
   ("pipeline", ("collection_pipeline", None)); ("srp", ("srp", None)); ("stateless-class", ("stateless_class", None));
   ("stringly-typed", ("stringly_typed", None)); ("unwrap-abuse", ("unwrap_abuse", None))].

(* does rule id `rid`, emitted by package `pkg`, belong to command `cmd` ? *)
Definition owns (cmd pkg rid : string) : bool :=
  match lookup cmd cmd_owner with
  | None => false
  | Some (p, only) =>
      String.eqb p pkg && match only with None => true | Some id => String.eqb rid id end
  end.

(* A section rejected (ValueError) by its linter's config class ends the run with an error whichever command
   is running, because every registered rule runs on every file and Orchestrator._safe_check_rule re-raises
   ValueError.  Property C05 demands exit code 2 for such values; configurations containing one are OUTSIDE the
   domain of C15 (cfg_clean below).  The model keeps the behaviour so that the out-of-domain stream of the
   harness stays predictable. *)
Definition aborts (c : cfg) (f : file) (lang : string) : bool :=
  existsb (fun r => loads r f lang && rejected r c lang) rule_table.

Inductive outcome := Ok (vs : list viol) | Aborted.

Definition run_cmd (q : quirks) (cmd : string) (c : cfg) (t : atab) (f : file) : outcome :=
  let lang := detect q f in
  if aborts c f lang then Aborted
  else match lookup cmd cli_filters with
       | Some atoms => Ok (filter (fun v => passes atoms (fst v)) (run_all q t lang (f_name f)))
       | None => Aborted
       end.

(* ------------------------------------------------------------------ specification (hand-written) *)
Inductive lclass := LPy | LTs | LJs | LRs | LOther.
Definition class_name (c : lclass) : string :=
  match c with LPy => "python" | LTs => "typescript" | LJs => "javascript" | LRs => "rust" | LOther => "unknown" end.

(* the property statement: Python, TypeScript, JavaScript or Rust according to the extension, case-insensitively *)
Definition spec_ext_table : list (string * lclass) :=
  [(".py", LPy); (".ts", LTs); (".tsx", LTs); (".js", LJs); (".jsx", LJs); (".rs", LRs)].

(* a python shebang: the line starts with #! and names python (language_detector module docstring) *)
Definition spec_python_shebang (line : string) : bool := String.prefix "#!" line && contains "python" line.

Definition spec_class (f : file) : lclass :=
  match lookup (lower (py_suffix (f_name f))) spec_ext_table with
  | Some c => c
  | None =>
      (* extensionless scripts by a python shebang; every other type is unrecognised *)
      if String.eqb (py_suffix (f_name f)) "" && f_nonempty f && f_readable f && spec_python_shebang (first_line (f_head f))
      then LPy else LOther
  end.

(* languages each linter is documented to analyse (docs/<linter>-linter.md, "Language Support");
   None = not a source-analysis linter (file-placement judges paths of every file type) *)
Definition doc_langs : list (string * option (list string)) :=
  [("blocking_async", Some ["rust"]); ("clone_abuse", Some ["rust"]); ("unwrap_abuse", Some ["rust"]);
   ("collection_pipeline", Some ["python"]); ("lbyl", Some ["python"]); ("stateless_class", Some ["python"]);
   ("method_property", Some ["python"]);
   ("lazy_ignores", Some ["python"; "typescript"; "javascript"]);
   ("cqs", Some ["python"; "typescript"; "javascript"]);
   ("print_statements", Some ["python"; "typescript"; "javascript"]);
   ("performance", Some ["python"; "typescript"; "javascript"]);
   ("stringly_typed", Some ["python"; "typescript"; "javascript"]);
   ("dry", Some ["python"; "typescript"; "javascript"]);
   ("file_header", Some ["python"; "typescript"; "javascript"]);
   ("nesting", Some ["python"; "typescript"; "javascript"; "rust"]);
   ("magic_numbers", Some ["python"; "typescript"; "javascript"; "rust"]);
   ("srp", Some ["python"; "typescript"; "javascript"; "rust"]);
   ("file_placement", None)].

(* the languages a linter must actually analyse: the documented ones, except that the lazy-ignores docs
   announce TypeScript/JavaScript support which the rule does not implement (a documentation gap that cannot
   produce a finding on a foreign file, hence outside C15) *)
Definition must_langs (pkg : string) (ls : list string) : list string :=
  if String.eqb pkg "lazy_ignores" then ["python"] else ls.

Definition allowed (pkg : string) (cl : lclass) : bool :=
  match lookup pkg doc_langs with
  | None => false
  | Some None => true
  | Some (Some ls) => match cl with LOther => false | _ => smem (class_name cl) ls end
  end.

Definition spec_key (pkg : string) (cl : lclass) : string :=
  match lookup pkg doc_langs with Some None => "*" | _ => class_name cl end.

(* what `thailint cmd` must print for file f: exactly the findings of the rules of its own linter,
   for the language the file has by its name / shebang, and only where that linter analyses that language *)
Definition spec_out (cmd : string) (t : atab) (f : file) : list viol :=
  let cl := spec_class f in
  flat_map (fun r => if allowed (r_pkg r) cl
                     then filter (fun v => owns cmd (r_pkg r) (fst v)) (an t (r_id r) (spec_key (r_pkg r) cl))
                     else [])
           rule_table.

(* ------------------------------------------------------------------ domain predicates *)
Definition find_rule (rid : string) : option rule := find (fun r => String.eqb (r_id r) rid) rule_table.

Definition in_registry (pkg rid : string) : bool :=
  existsb (fun p => String.eqb (fst p) pkg && String.eqb (snd p) rid) registry_rule_ids.

(* the oracle table is well formed: every entry belongs to a registered rule, is keyed by a language that
   rule analyses ("*" for agnostic rules), and carries only rule ids registered for the rule's package *)
Definition key_ok (r : rule) (k : string) : bool :=
  match r_langs r with None => String.eqb k "*" | Some ls => smem k ls end.
Definition base_id (rid : string) : string :=
  if String.prefix "raw:" rid then String.substring 4 (String.length rid - 4) rid else rid.
Definition entry_good (e : (string * string) * list viol) : bool :=
  let rid := base_id (fst (fst e)) in
  let k := snd (fst e) in
  existsb (fun r => String.eqb (r_id r) rid) rule_table
  && forallb (fun r => negb (String.eqb (r_id r) rid)
                       || (key_ok r k && forallb (fun v => in_registry (r_pkg r) (fst v)) (snd e)))
             rule_table.
Definition atab_good (t : atab) : bool := forallb entry_good t.

Definition is_command (cmd : string) : bool := match lookup cmd cmd_owner with Some _ => true | None => false end.

(* the name-exemption flag cannot matter: it is off, or the extension is already spelled in lower case *)
Definition exemption_inert (q : quirks) (f : file) : bool :=
  negb (q_name_exemption_ext_case q) || String.eqb (canon_name (f_name f)) (f_name f).

(* the domain of C15: every section of the configuration is valid (none is rejected by its linter's config class) *)
Definition cfg_clean (c : cfg) : bool := forallb (fun s => match s_rej s with [] => true | _ => false end) c.

(* ------------------------------------------------------------------ several files in one run, symbolic links *)
(* One linted path of an invocation: the file as dispatch sees it under the name that is linted, the final component
   of the path the name resolves to when it is a symbolic link (None: a regular file), and the analysis oracle of its
   content.  Orchestrator.lint_files / lint_directory hand every path to lint_file, which asks the detector afresh
   (Gen.detect_stateless: the detector module keeps nothing between calls) for the path named by
   Gen.detect_arg_resolved (false: the path as given; true: the symlink-resolved path - the model follows the source). *)
Record entry := mk_entry { e_file : file; e_target : option string; e_tab : atab }.

Definition seen_file (e : entry) : file :=
  if detect_arg_resolved
  then match e_target e with
       | Some n => mk_file n (f_head (e_file e)) (f_nonempty (e_file e)) (f_readable (e_file e))
       | None => e_file e
       end
  else e_file e.

(* the language the rules' context carries for this path *)
Definition entry_lang (q : quirks) (e : entry) : string := detect q (seen_file e).

(* run_cmd with the language supplied from outside (same body as run_cmd) *)
Definition run_with_lang (q : quirks) (cmd : string) (c : cfg) (t : atab) (f : file) (lang : string) : outcome :=
  if aborts c f lang then Aborted
  else match lookup cmd cli_filters with
       | Some atoms => Ok (filter (fun v => passes atoms (fst v)) (run_all q t lang (f_name f)))
       | None => Aborted
       end.

Definition run_entry (q : quirks) (cmd : string) (c : cfg) (e : entry) : outcome :=
  run_with_lang q cmd c (e_tab e) (e_file e) (entry_lang q e).

(* the languages assigned in one invocation, in the order of the paths *)
Definition run_langs (q : quirks) (es : list entry) : list string := map (entry_lang q) es.

(* one invocation on several paths: the per-file results in order; a run that ends with an error prints nothing *)
Fixpoint run_files (q : quirks) (cmd : string) (c : cfg) (es : list entry) : outcome :=
  match es with
  | [] => Ok []
  | e :: rest =>
      match run_entry q cmd c e, run_files q cmd c rest with
      | Ok a, Ok b => Ok (a ++ b)
      | _, _ => Aborted
      end
  end.

Definition spec_files (cmd : string) (es : list entry) : list viol :=
  flat_map (fun e => spec_out cmd (e_tab e) (e_file e)) es.
