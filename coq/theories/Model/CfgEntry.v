(* Model/CfgEntry.v — the entry point of `thailint init-config` (src/cli/config.py::init_config): how the preset is chosen
   (--non-interactive: the --preset option; otherwise the prompt of _run_interactive_preset_selection: an empty answer takes the
   default, an answer that is no preset is asked again, end of input aborts) and, independently of that, whether the existing
   file is merged (`exists and not force`) or a fresh file is written.  Literals from Gen/CfgToolGen.v.  No proofs in this file. *)
From TL Require Import Lib.Base Lib.GenTypes Model.CfgTypes Gen.CfgToolGen Model.CfgMerge.

(* click.prompt(type=Choice(presets), default=d) on the answers typed (one per line) *)
Fixpoint prompt_choice (default : string) (answers : list string) : option string :=
  match answers with
  | [] => None
  | a :: r => if String.eqb a EmptyString then Some default
              else if smem a prompt_choices then Some a else prompt_choice default r
  end.
Definition entry_preset (non_interactive : bool) (default : string) (answers : list string) : option string :=
  if non_interactive then Some default else prompt_choice default answers.

Inductive entry_result :=
| EAbort                              (* the prompt ran out of input: nothing is written *)
| EBadPreset
| EMerge (r : init_result)            (* existing file, no --force: the merge of Model/CfgMerge.v *)
| EFresh (text : list string).        (* no file, or --force: the template with the preset's placeholders substituted *)

Definition init_entry (q : cquirks) (non_interactive : bool) (default : string) (answers : list string) (force : bool)
           (existing : option (list string)) : entry_result :=
  match entry_preset non_interactive default answers with
  | None => EAbort
  | Some p =>
    match existing, force with
    | Some E, false => EMerge (init_config q p E)
    | _, _ => match lookup p presets with Some reps => EFresh (gen_content reps) | None => EBadPreset end
    end
  end.

(* for the judges: the chosen preset as a string ("" when the prompt was aborted - no preset has that name) *)
Definition entry_preset_or (non_interactive : bool) (default : string) (answers : list string) : string :=
  match entry_preset non_interactive default answers with Some p => p | None => EmptyString end.
