(* Model/CfgPath.v — `thailint --config FILE config set / get / reset`: what the SUFFIX of FILE means.
   Loader (src/core/config_parser.py::parse_config_file): the lower-cased suffix must be one of CONFIG_EXTENSIONS or ".json", else the
   existing file cannot be loaded (exit 2); a missing file is never looked at (defaults).
   Writer (src/config.py::_write_config_file): the suffix AS WRITTEN must be in CONFIG_EXTENSIONS or equal ".json", else
   save_config raises ConfigError and `config set` / `config reset` stop with their save-error exit codes - after validation, so a
   value can be valid and still not be saved.  The single-file machine of Model/CfgCli.v is the instance "suffix both loadable and
   writable".  All literals from Gen/CfgToolGen.v.  No proofs in this file. *)
From TL Require Import Lib.Base Lib.GenTypes Model.CfgTypes Gen.CfgToolGen Model.CfgMerge Model.CfgCli.
From Coq Require Import ZArith.

Definition suffix_loadable (suf : string) : bool := smem (lower suf) (config_extensions ++ [json_extension]).
Definition suffix_writable (suf : string) : bool := smem suf config_extensions || String.eqb suf json_extension.

Definition pstep (q : cquirks) (suf : string) (f : option cfg) (c : cmd) : obs :=
  let loaded := match f with
                | Some _ => if suffix_loadable suf then load true f else None
                | None => load true None
                end in
  match loaded with
  | None => Build_obs load_error_exit None f
  | Some conf =>
    match c with
    | CSet k t =>
      let v := convert t in
      let conf' := upd (ckey_set q k) v conf in
      if valid conf' then
        if suffix_writable suf
        then Build_obs 0 (Some (set_msg_prefix ++ ckey_set q k ++ set_msg_mid ++ show v)%string) (Some conf')
        else Build_obs save_error_exit None f
      else Build_obs set_reject_exit None f
    | CGet k =>
      match lookup (ckey_get q k) conf with
      | Some v => Build_obs 0 (Some (show v)) f
      | None => Build_obs get_missing_exit None f
      end
    | CReset => if suffix_writable suf then Build_obs 0 None (Some default_config) else Build_obs reset_error_exit None f
    end
  end.

Fixpoint prun (q : cquirks) (suf : string) (f : option cfg) (cs : list cmd) : list obs :=
  match cs with
  | [] => []
  | c :: r => let o := pstep q suf f c in o :: prun q suf (o_file o) r
  end.

(* judging one observed history on FILE with suffix suf: [specification bits per step (the trace specification of Model/CfgCli.v);
   [ideal model trace meets it]; [observed = model under q / q without the key flag / ideal]; [set texts in conv_domain]] *)
Definition judge_path (q : cquirks) (suf : string) (f0 : option cfg) (cs : list cmd) (os : list obs) : list (list bool) :=
  let noraw (c : cquirks) := Build_cquirks (q_missing_by_raw_key c) (q_append_to_flow_root c) (q_insert_mid_entry c) false in
  let same (c : cquirks) := list_eqb obs_eqb os (prun c suf f0 cs) in
  [ spec_trace [] f0 cs os;
    [forallb (fun b => b) (spec_trace [] f0 cs (prun ideal suf f0 cs))];
    map same [q; noraw q; ideal];
    [forallb (fun c => match c with CSet _ t => conv_domain t | _ => true end) cs] ].
