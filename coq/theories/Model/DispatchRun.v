(* Model/DispatchRun.v - judging correspondence cases of C15 inside the kernel's VM.
   One case = one file (name, head, size, readability), one configuration, one oracle table and the
   outcome of several commands on it.  Per command the harness gets back
     [domain ok ; impl = spec ; model ideal = spec ; impl = model q for q in candidates]. *)
From TL Require Import Lib.Base Model.DispatchTypes Gen.DispatchGen Model.Dispatch.

Definition with_flag (i : nat) (q : quirks) : quirks :=
  match i with
  | 0 => mk_quirks false (q_name_exemption_ext_case q)
  | _ => mk_quirks (q_shebang_any_ext q) false
  end.

(* candidates: the claimed vector, the claimed vector with one flag switched off, the ideal *)
Definition candidates (q : quirks) : list quirks := [q; with_flag 0 q; with_flag 1 q; ideal].

Definition out_eqb (a b : outcome) : bool :=
  match a, b with
  | Ok x, Ok y => ms_eqb viol_eqb x y
  | Aborted, Aborted => true
  | _, _ => false
  end.

Definition judge (q : quirks) (c : cfg) (t : atab) (f : file) (runs : list (string * outcome)) : list (list bool) :=
  let tg := atab_good t in
  map (fun r =>
         let cmd := fst r in
         let impl := snd r in
         let spec := Ok (spec_out cmd t f) in
         (is_command cmd && tg && cfg_clean c)
         :: out_eqb impl spec
         :: out_eqb (run_cmd ideal cmd c t f) spec
         :: map (fun cq => out_eqb impl (run_cmd cq cmd c t f)) (candidates q))
      runs.

(* the same through the path the multi-file / symbolic-link theorems talk about (run_entry): the harness passes the
   final component of the link target for names that are symbolic links *)
Definition judge_e (q : quirks) (c : cfg) (e : entry) (runs : list (string * outcome)) : list (list bool) :=
  let tg := atab_good (e_tab e) in
  map (fun r =>
         let cmd := fst r in
         let impl := snd r in
         let spec := Ok (spec_out cmd (e_tab e) (e_file e)) in
         (is_command cmd && tg && cfg_clean c)
         :: out_eqb impl spec
         :: out_eqb (run_entry ideal cmd c e) spec
         :: map (fun cq => out_eqb impl (run_entry cq cmd c e)) (candidates q))
      runs.

(* leaf level: the string functions against CPython (suffix, lower, shebang test, language) *)
Definition leaf (q : quirks) (f : file) : string * string * bool * string :=
  (py_suffix (f_name f), lower (py_suffix (f_name f)), is_shebang (first_line (f_head f)), detect q f).
Definition leaf_check (q : quirks) (f : file) (suffix lowered : string) (sheb : bool) (lang : string) : list bool :=
  [String.eqb (py_suffix (f_name f)) suffix; String.eqb (lower (py_suffix (f_name f))) lowered;
   Bool.eqb (is_shebang (first_line (f_head f))) sheb; String.eqb (detect q f) lang].
