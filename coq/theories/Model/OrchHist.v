(* Model/OrchHist.v — executable model of one long-lived Orchestrator / Linter object (C08, C10).

   The world: a finite file system (association list path -> content version), an object state holding
   the cross-file evidence that the rules keep between calls, and operations: the three Orchestrator
   entry points, Linter.lint, the CLI dispatch, and edits / deletions / additions of files.

   The model is PARAMETRIC IN THE RULES (Section variables):
     perfile p oc      what all rules return from check() for path p with content oc (None = no such file);
     rep_blocks l a    DRYRule.finalize: duplicate-code findings over the block rows of the file versions l, filtered by
                       the inline `# dry: ignore-...` ranges and file contents of the file versions a (a = the files
                       checked since the last finalize; rows may be older);
     rep_consts l      DRYRule.finalize: duplicate-constant findings over the constants of l (in list order);
     rep_st l          StringlyTypedRule.finalize over the evidence of l;
     hard_excl, ignored, in_dir : path predicates (hard-coded exclusions, .thailintignore, directory membership).
   What the orchestrator / the rules' finalize() keep or clear between calls is read from the generated layer
   (Gen.OrchHistGen: entry_finalize, lint_file_guards, dry_finalize_resets, st_finalize_resets, api_dispatch,
   cli_*_entry).  No proofs here. *)
From TL Require Import Lib.Base Lib.GenTypes Gen.OrchHistGen.

Definition path := nat.
Definition content := nat.
Definition fv := (path * content)%type.          (* a file version: the evidence one check() call leaves behind *)
Definition fsys := list fv.                      (* first binding wins *)

Fixpoint fs_get (fs : fsys) (p : path) : option content :=
  match fs with [] => None | (p', c) :: r => if p =? p' then Some c else fs_get r p end.
Definition fs_remove (fs : fsys) (p : path) : fsys := filter (fun e => negb (p =? fst e)) fs.
Definition fs_set (fs : fsys) (p : path) (c : content) : fsys := (p, c) :: fs_remove fs p.

(* ---------- quirk vector: true = what the code does, false = what the properties demand ---------- *)
Record oquirks := {
  q_dry_keeps_storage : bool;          (* DRYRule.finalize does not reset _storage: block rows survive a run *)
  q_lintfile_leaves_evidence : bool;   (* a bare lint_file call leaves its cross-file evidence for the next run to report *)
  q_consts_in_processing_order : bool; (* duplicate-constant messages list the other locations in processing order *)
  q_ignore_parser_reused : bool;       (* a new Linter/Orchestrator for the same root gets the process-wide ignore parser of an
                                          earlier one (get_ignore_parser singleton): patterns and decisions of the earlier object *)
  q_api_file_no_finalize : bool;       (* Linter.lint(file) calls lint_file: no finalize, no cross-file findings (C10) *)
  q_dry_config_sticky : bool;          (* DRYRule keeps the first configuration it saw (`self._config = self._config or config`, never reset):
                                          after the object's configuration is reloaded its reports still use the old one *)
  q_fp_config_sticky : bool            (* FilePlacementRule._linter_cache: the linter built from the first configuration seen for a root is reused *)
}.
Definition ideal : oquirks := Build_oquirks false false false false false false false.

(* ---------- canonical order of file versions (insertion sort, lexicographic) ---------- *)
Definition fv_leb (a b : fv) : bool := (fst a <? fst b) || ((fst a =? fst b) && (snd a <=? snd b)).
Fixpoint fv_insert (x : fv) (l : list fv) : list fv :=
  match l with [] => [x] | h :: t => if fv_leb x h then x :: h :: t else h :: fv_insert x t end.
Fixpoint fv_sort (l : list fv) : list fv :=
  match l with [] => [] | x :: t => fv_insert x (fv_sort t) end.

Fixpoint passoc {B} (k : nat) (l : list (nat * B)) : option B :=
  match l with [] => None | (k', v) :: r => if k =? k' then Some v else passoc k r end.
Fixpoint sassoc {B} (k : string) (l : list (string * B)) : option B :=
  match l with [] => None | (k', v) :: r => if String.eqb k k' then Some v else sassoc k r end.

(* tables patched by the quirk flags: with the flag on, exactly what the source says *)
Definition dry_resets (q : oquirks) : list string :=
  if q_dry_keeps_storage q then dry_finalize_resets else "_storage" :: dry_finalize_resets.
(* the three per-run DRY attributes are treated as one: all reset, or (approximation) all kept *)
Definition aux_cleared (q : oquirks) : bool :=
  smem "_constants" (dry_resets q) && smem "_file_contents" (dry_resets q) && smem "inline_ignore" (dry_resets q).
Definition st_clears : bool := smem "_storage" st_finalize_resets && smem "_initialized" st_finalize_resets.
Definition finalizes (entry : string) : bool := match sassoc entry entry_finalize with Some b => b | None => false end.
Definition api_file_entry (q : oquirks) : string :=
  if q_api_file_no_finalize q then match sassoc "is_file" api_dispatch with Some e => e | None => "" end else "lint_files".
Definition api_dir_entry : string := match sassoc "is_dir" api_dispatch with Some e => e | None => "" end.

(* the object's state: evidence held by the two cross-file rules, and the ignore parser's memo table *)
Record ostate := {
  dry_rows : list fv;      (* DRYRule._storage: block rows of every check() since the storage was created / reset *)
  dry_aux : list fv;       (* DRYRule._constants, _file_contents and the inline-ignore ranges: files checked since the last finalize *)
  st_ev : list fv;         (* StringlyTypedRule._storage *)
  ppats : option content;  (* IgnoreDirectiveParser.repo_patterns: the version of the ignore file loaded when the parser was built *)
  icache : list (path * bool);  (* IgnoreDirectiveParser._ignore_cache *)
  ocfg : option content;   (* Orchestrator.config: the version of the configuration file the object holds (read at construction / reload) *)
  dry_cfg0 : option (option content);   (* DRYRule._config: the configuration of the first file it ever checked *)
  fp_cfg0 : option (option content)     (* FilePlacementRule._linter_cache[root]: the configuration of the first file it ever checked *)
}.
Definition init_st (pp oc : option content) : ostate := Build_ostate [] [] [] pp [] oc None None.

(* a file version as the rules see it: the content together with the configuration in force when it was checked *)
Definition cfg_key (k : option content) : nat := match k with None => 0 | Some c => S c end.
Definition enc (c : content) (k : option content) : content := c * 8 + cfg_key k.
(* a path with no file behind it is still handed to the rules (file-placement judges the path alone): its "version" is the
   configuration in force - numbers below 8, never the version of an existing file (configuration-file versions have the
   smallest content ids, so enc c k >= 8 for every other file) *)
Definition absent_ver (k : option content) : content := cfg_key k.
Definition view (sticky : bool) (first : option (option content)) (cur : option content) : option content :=
  if sticky then match first with Some k => k | None => cur end else cur.
Definition first_seen (first : option (option content)) (cur : option content) : option (option content) :=
  match first with None => Some cur | x => x end.

Inductive target := TFile (p : path) | TDir (d : nat) (listing : list path).

Inductive op :=
| LintFile (p : path)
| LintFiles (ps : list path)
| LintDir (d : nat) (listing : list path)      (* listing: the files below d in the order os.walk yields them *)
| ApiLint (t : target)
| Edit (p : path) (c : content)
| Delete (p : path)
| Add (p : path) (c : content)
| NewLinter       (* the embedding process drops its Linter and builds a new one for the same project root *)
| ReloadConfig.   (* the embedding process re-reads the configuration file into the live object (orchestrator.config = ...) *)

(* one step's output, by origin *)
Record out (V : Type) := { o_pf : list V; o_blocks : list V; o_consts : list V; o_st : list V }.
Arguments o_pf {V}. Arguments o_blocks {V}. Arguments o_consts {V}. Arguments o_st {V}. Arguments Build_out {V}.
Definition out_all {V} (o : out V) : list V := o_pf o ++ o_blocks o ++ o_consts o ++ o_st o.
Definition out_nil {V} : out V := Build_out [] [] [] [].

Section Orch.
  Variable V : Type.
  Variable perfile : path -> option content -> list V.      (* every rule but file-placement; version = enc content configuration *)
  Variable perfile_fp : path -> option content -> list V.   (* the file-placement rule *)
  Variable rep_blocks : option content -> list fv -> list fv -> list V.   (* first argument: the configuration DRYRule.finalize uses *)
  Variable rep_consts : option content -> list fv -> list V.
  Variable rep_st : list fv -> list V.
  Variable hard_excl : path -> bool.
  Variable ignored : option content -> path -> bool.   (* patterns of that version of the ignore file match the path *)
  Variable ign_path : path.                            (* the ignore file itself *)
  Variable cfg_path : path.                            (* the configuration file *)
  Variable in_dir : nat -> path -> bool.

  Definition cached_ignored (pp : option content) (ic : list (path * bool)) (p : path) : bool * list (path * bool) :=
    match passoc p ic with Some b => (b, ic) | None => (ignored pp p, (p, ignored pp p) :: ic) end.

  Definition set_icache (st : ostate) ic :=
    Build_ostate (dry_rows st) (dry_aux st) (st_ev st) (ppats st) ic (ocfg st) (dry_cfg0 st) (fp_cfg0 st).
  Definition mk_init (fs : fsys) : ostate := init_st (fs_get fs ign_path) (fs_get fs cfg_path).
  Definition fp_view (q : oquirks) (st : ostate) : option content := view (q_fp_config_sticky q) (fp_cfg0 st) (ocfg st).
  Definition dry_view (q : oquirks) (st : ostate) : option content := view (q_dry_config_sticky q) (dry_cfg0 st) (ocfg st).
  (* the rules have looked at a file: DRYRule and FilePlacementRule remember the configuration of their first file *)
  Definition checked (st : ostate) (rows aux sev : list fv) (ic : list (path * bool)) : ostate :=
    Build_ostate rows aux sev (ppats st) ic (ocfg st) (first_seen (dry_cfg0 st) (ocfg st)) (first_seen (fp_cfg0 st) (ocfg st)).

  (* Orchestrator.lint_file: guards in source order, then every rule's check() *)
  Definition lint_file1 (q : oquirks) (fs : fsys) (st : ostate) (p : path) : ostate * list V :=
    if smem "_is_hardcoded_excluded" lint_file_guards && hard_excl p then (st, [])
    else
      let '(ig, ic) := if smem "is_ignored" lint_file_guards then cached_ignored (ppats st) (icache st) p else (false, icache st) in
      if ig then (set_icache st ic, [])
      else match fs_get fs p with
           | None => (checked st (dry_rows st) (dry_aux st) (st_ev st) ic,
                      perfile p (Some (absent_ver (ocfg st))) ++ perfile_fp p (Some (absent_ver (fp_view q st))))
           | Some c => let v := (p, enc c (ocfg st)) in
                       (checked st (dry_rows st ++ [v]) (dry_aux st ++ [v]) (st_ev st ++ [v]) ic,
                        perfile p (Some (enc c (ocfg st))) ++ perfile_fp p (Some (enc c (fp_view q st))))
           end.

  Fixpoint lint_each (q : oquirks) (fs : fsys) (st : ostate) (ps : list path) : ostate * list V :=
    match ps with
    | [] => (st, [])
    | p :: r => let '(s1, o1) := lint_file1 q fs st p in
                let '(s2, o2) := lint_each q fs s1 r in (s2, o1 ++ o2)
    end.

  Definition consts_view (q : oquirks) (l : list fv) : list fv :=
    if q_consts_in_processing_order q && negb dry_const_refs_sorted then l else fv_sort l.

  (* every rule's finalize(): report, then reset what the source resets *)
  Definition finalize (q : oquirks) (st : ostate) : ostate * out V :=
    (Build_ostate (if smem "_storage" (dry_resets q) then [] else dry_rows st)
                  (if aux_cleared q then [] else dry_aux st)
                  (if st_clears then [] else st_ev st)
                  (ppats st) (icache st) (ocfg st) (dry_cfg0 st) (fp_cfg0 st),
     Build_out [] (rep_blocks (dry_view q st) (dry_rows st) (dry_aux st)) (rep_consts (dry_view q st) (consts_view q (dry_aux st))) (rep_st (st_ev st))).

  Definition with_pf (pf : list V) (o : out V) : out V := Build_out (pf ++ o_pf o) (o_blocks o) (o_consts o) (o_st o).

  (* an entry point: per-file loop, then the finalize loop when the source has one *)
  Definition run_entry (q : oquirks) (entry : string) (fs : fsys) (st : ostate) (ps : list path) : ostate * out V :=
    let '(s1, pf) := lint_each q fs st ps in
    if finalizes entry then let '(s2, o) := finalize q s1 in (s2, with_pf pf o)
    else (s1, Build_out pf [] [] []).

  Definition keep_evidence (old new : ostate) : ostate :=
    Build_ostate (dry_rows old) (dry_aux old) (st_ev old) (ppats new) (icache new) (ocfg new) (dry_cfg0 new) (fp_cfg0 new).

  (* a bare single-file call *)
  Definition run_single (q : oquirks) (entry : string) (fs : fsys) (st : ostate) (p : path) : ostate * out V :=
    let '(s1, o) := run_entry q entry fs st [p] in
    if finalizes entry then (s1, o)
    else ((if q_lintfile_leaves_evidence q then s1 else keep_evidence st s1), o).

  Definition walk (fs : fsys) (d : nat) (listing : list path) : list path :=
    filter (fun p => in_dir d p && match fs_get fs p with Some _ => true | None => false end) listing.

  Definition step (q : oquirks) (w : ostate * fsys) (o : op) : (ostate * fsys) * out V :=
    let '(st, fs) := w in
    match o with
    | LintFile p => let '(s, r) := run_single q "lint_file" fs st p in ((s, fs), r)
    | LintFiles ps => let '(s, r) := run_entry q "lint_files" fs st ps in ((s, fs), r)
    | LintDir d l => let '(s, r) := run_entry q "lint_directory" fs st (walk fs d l) in ((s, fs), r)
    | ApiLint (TFile p) =>
        match fs_get fs p with
        | None => ((st, fs), out_nil)
        | Some _ => let '(s, r) := run_single q (api_file_entry q) fs st p in ((s, fs), r)
        end
    | ApiLint (TDir d l) => let '(s, r) := run_entry q api_dir_entry fs st (walk fs d l) in ((s, fs), r)
    | Edit p c => ((st, match fs_get fs p with Some _ => fs_set fs p c | None => fs end), out_nil)
    | Delete p => ((st, fs_remove fs p), out_nil)
    | Add p c => ((st, fs_set fs p c), out_nil)
    | NewLinter =>
        (* new rule objects; the ignore parser is the process-wide one of the previous object, or a newly built one *)
        ((if q_ignore_parser_reused q then Build_ostate [] [] [] (ppats st) (icache st) (fs_get fs cfg_path) None None else mk_init fs, fs), out_nil)
    | ReloadConfig =>
        ((Build_ostate (dry_rows st) (dry_aux st) (st_ev st) (ppats st) (icache st) (fs_get fs cfg_path) (dry_cfg0 st) (fp_cfg0 st), fs), out_nil)
    end.

  Fixpoint run (q : oquirks) (w : ostate * fsys) (h : list op) : (ostate * fsys) * list (out V) :=
    match h with
    | [] => (w, [])
    | o :: r => let '(w1, x) := step q w o in let '(w2, xs) := run q w1 r in (w2, x :: xs)
    end.

  (* the file system after a history: only Edit / Delete / Add matter *)
  Definition fs_step (fs : fsys) (o : op) : fsys :=
    match o with
    | Edit p c => match fs_get fs p with Some _ => fs_set fs p c | None => fs end
    | Delete p => fs_remove fs p
    | Add p c => fs_set fs p c
    | _ => fs
    end.
  Definition fs_after (fs : fsys) (h : list op) : fsys := fold_left fs_step h fs.

  (* what a fresh object returns for operation o on file system fs *)
  Definition fresh (q : oquirks) (fs : fsys) (o : op) : out V := snd (step q (mk_init fs, fs) o).

  (* ---------- the command line: files together through one entry point, then every directory (C10) ---------- *)
  Definition cli_ops (files : list path) (dirs : list (nat * list path)) : list op :=
    (match files with [] => [] | _ => [LintFiles files] end) ++ map (fun d => LintDir (fst d) (snd d)) dirs.
  Definition is_entry (e name : string) : bool := String.eqb e name.
  Definition cli_run (q : oquirks) (fs : fsys) (files : list path) (dirs : list (nat * list path)) : list (out V) :=
    if is_entry cli_files_entry "lint_files" && is_entry cli_dirs_entry "lint_directory"
    then snd (run q (mk_init fs, fs) (cli_ops files dirs)) else [].
  Definition api_run (q : oquirks) (fs : fsys) (t : target) : out V := fresh q fs (ApiLint t).
End Orch.

(* ---------- rule-id filters: the per-command filters of src/cli/linters (Gen.cli_filters) and Linter._filter_violations ---------- *)
Fixpoint str_contains (needle s : string) : bool :=
  if String.prefix needle s then true
  else match s with EmptyString => false | String _ r => str_contains needle r end.

Definition fmatch (kind needle rule_id : string) : bool :=
  if String.eqb kind "FStartswith" then String.prefix needle rule_id
  else if String.eqb kind "FContains" then str_contains needle rule_id
  else if String.eqb kind "FEquals" then String.eqb rule_id needle
  else false.

(* the filter of a CLI command function, read from the generated table *)
Fixpoint cli_filter_of (fn : string) (tbl : list (string * string * string)) : option (string * string) :=
  match tbl with
  | [] => None
  | (f, k, n) :: r => if String.eqb f fn then Some (k, n) else cli_filter_of fn r
  end.

