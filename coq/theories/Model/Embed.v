(* Model/Embed.v — the algebra of embeddings of property C19 and the generic walker-shaped detector.

   Abstract input = the image of a Python parse tree (harness/props/c19.py: `to_coq`, a generic
   converter over `ast.iter_child_nodes`): one node per AST node, carrying the name of the field it
   hangs under (`role`), its class name, its position, its first string-valued field (`sval`: Name.id,
   Attribute.attr, FunctionDef.name, arg.arg, a short str constant ...) and, for constants, the type of
   the value (`ckind`).  expr_context nodes are dropped; position-less nodes carry their parent's position.

   A context places a fragment (a list of statements) somewhere in a file:
     Hole                       the fragment itself                         (top level)
     Wrap i pre post dl dc c    one node `i` (def / class / if / for / while / try / with ...) whose
                                children are  pre ++ <inner, moved by dl lines and dc columns> ++ post
     Seq pre dl c post          filler statements before and after the inner part (inner moved by dl lines)
   `copies` and `rename` are the two remaining embeddings (n copies, identifier renaming).
   No proofs in this file. *)
From TL Require Import Lib.Base.

Record info := mkI { role : string; cls : string; line : nat; col : nat; sval : string; ckind : string }.

Inductive ast := Node (i : info) (kids : list ast).

Definition ninfo (t : ast) : info := match t with Node i _ => i end.
Definition nkids (t : ast) : list ast := match t with Node _ ks => ks end.
Definition ncls (t : ast) : string := cls (ninfo t).
Definition nrole (t : ast) : string := role (ninfo t).
Definition nsval (t : ast) : string := sval (ninfo t).
Definition nckind (t : ast) : string := ckind (ninfo t).

Section AstInd.
  Variable P : ast -> Prop.
  Hypothesis H : forall i ks, Forall P ks -> P (Node i ks).
  Fixpoint ast_ind' (t : ast) : P t :=
    match t with
    | Node i ks =>
      H i ks ((fix go (l : list ast) : Forall P l :=
                 match l with
                 | [] => Forall_nil P
                 | x :: xs => Forall_cons x (ast_ind' x) (go xs)
                 end) ks)
    end.
End AstInd.

(* children hanging under field f, in source order *)
Definition field (f : string) (t : ast) : list ast := filter (fun k => String.eqb (nrole k) f) (nkids t).

(* ------------------------------------------------------------------ moving and renaming *)
Definition shift_info (dl dc : nat) (i : info) : info :=
  mkI (role i) (cls i) (line i + dl) (col i + dc) (sval i) (ckind i).
Fixpoint shift (dl dc : nat) (t : ast) : ast :=
  match t with Node i ks => Node (shift_info dl dc i) (map (shift dl dc) ks) end.
Definition shiftF (dl dc : nat) (ts : list ast) : list ast := map (shift dl dc) ts.

(* identifiers live in sval of every node that is not a constant *)
Definition rename_info (sg : string -> string) (i : info) : info :=
  mkI (role i) (cls i) (line i) (col i) (if String.eqb (cls i) "Constant" then sval i else sg (sval i)) (ckind i).
Fixpoint rename (sg : string -> string) (t : ast) : ast :=
  match t with Node i ks => Node (rename_info sg i) (map (rename sg) ks) end.
Definition renameF (sg : string -> string) (ts : list ast) : list ast := map (rename sg) ts.

(* a finite renaming given by the harness: first match wins, identity elsewhere *)
Fixpoint sigma_of (l : list (string * string)) (x : string) : string :=
  match l with [] => x | (a, b) :: r => if String.eqb x a then b else sigma_of r x end.

(* ------------------------------------------------------------------ contexts *)
Inductive ctx :=
| Hole
| Wrap (i : info) (pre post : list ast) (dl dc : nat) (c : ctx)
| Seq (pre : list ast) (dl : nat) (c : ctx) (post : list ast).

Fixpoint plug (c : ctx) (frag : list ast) : list ast :=
  match c with
  | Hole => frag
  | Wrap i pre post dl dc c' => [Node i (pre ++ shiftF dl dc (plug c' frag) ++ post)]
  | Seq pre dl c' post => pre ++ shiftF dl 0 (plug c' frag) ++ post
  end.

(* where the hole ends up: line offset and indentation *)
Fixpoint off_l (c : ctx) : nat :=
  match c with Hole => 0 | Wrap _ _ _ dl _ c' => dl + off_l c' | Seq _ dl c' _ => dl + off_l c' end.
Fixpoint off_c (c : ctx) : nat :=
  match c with Hole => 0 | Wrap _ _ _ _ dc c' => dc + off_c c' | Seq _ _ c' _ => off_c c' end.

(* everything of the file that is not the fragment and not a wrapper node, in final coordinates *)
Fixpoint fillers (c : ctx) : list ast :=
  match c with
  | Hole => []
  | Wrap _ pre post dl dc c' => pre ++ shiftF dl dc (fillers c') ++ post
  | Seq pre dl c' post => pre ++ shiftF dl 0 (fillers c') ++ post
  end.

(* the wrapper nodes of a context, outermost first *)
Fixpoint wrappers (c : ctx) : list info :=
  match c with
  | Hole => []
  | Wrap i _ _ _ _ c' => i :: wrappers c'
  | Seq _ _ c' _ => wrappers c'
  end.

(* n copies, the k-th moved down by k*h lines *)
Definition copies (n h : nat) (frag : list ast) : list ast :=
  flat_map (fun k => shiftF (k * h) 0 frag) (seq 0 n).

(* ------------------------------------------------------------------ reports *)
(* line, column, and what the message is built from: a tag (never an identifier) and an identifier *)
Definition rep := (nat * nat * string * string)%type.
Definition shiftR (dl dc : nat) (r : rep) : rep := match r with (l, c, p, x) => (l + dl, c + dc, p, x) end.
Definition shiftRs (dl dc : nat) (rs : list rep) : list rep := map (shiftR dl dc) rs.
Definition renameR (sg : string -> string) (r : rep) : rep := match r with (l, c, p, x) => (l, c, p, sg x) end.
Definition rep_eqb (a b : rep) : bool :=
  match a, b with (l1, c1, p1, x1), (l2, c2, p2, x2) => (l1 =? l2) && (c1 =? c2) && String.eqb p1 p2 && String.eqb x1 x2 end.
Definition same_reps (a b : list rep) : bool := ms_eqb rep_eqb a b.
Fixpoint list_eqb {A} (e : A -> A -> bool) (a b : list A) : bool :=
  match a, b with
  | [], [] => true
  | x :: xs, y :: ys => e x y && list_eqb e xs ys
  | _, _ => false
  end.

(* ------------------------------------------------------------------ walker-shaped detectors *)
(* a summary of the ancestors is pushed down (step), every node may emit reports that depend on
   the summary and on its own subtree *)
Section Walker.
  Context {S : Type}.
  Variable step : S -> ast -> S.
  Variable emit : S -> ast -> list rep.

  Fixpoint detect (s : S) (t : ast) : list rep :=
    match t with
    | Node i ks => emit s (Node i ks) ++ flat_map (detect (step s (Node i ks))) ks
    end.
  Definition detectF (s : S) (ts : list ast) : list rep := flat_map (detect s) ts.

  (* reports of the context's own parts, before and after the hole, in final coordinates;
     the summary does not change at wrappers here: used for inert contexts *)
  Fixpoint ctx_pre (c : ctx) (s : S) : list rep :=
    match c with
    | Hole => []
    | Wrap _ pre _ dl dc c' => detectF s pre ++ shiftRs dl dc (ctx_pre c' s)
    | Seq pre dl c' _ => detectF s pre ++ shiftRs dl 0 (ctx_pre c' s)
    end.
  Fixpoint ctx_post (c : ctx) (s : S) : list rep :=
    match c with
    | Hole => []
    | Wrap _ _ post dl dc c' => shiftRs dl dc (ctx_post c' s) ++ detectF s post
    | Seq _ dl c' post => shiftRs dl 0 (ctx_post c' s) ++ detectF s post
    end.

  (* the general case: summaries as they really are along the path to the hole *)
  Definition wnode (i : info) (pre post : list ast) (dl dc : nat) (c' : ctx) (frag : list ast) : ast :=
    Node i (pre ++ shiftF dl dc (plug c' frag) ++ post).
  Fixpoint hole_sum (c : ctx) (frag : list ast) (s : S) : S :=
    match c with
    | Hole => s
    | Wrap i pre post dl dc c' => hole_sum c' frag (step s (wnode i pre post dl dc c' frag))
    | Seq _ _ c' _ => hole_sum c' frag s
    end.
  Fixpoint gen_pre (c : ctx) (frag : list ast) (s : S) : list rep :=
    match c with
    | Hole => []
    | Wrap i pre post dl dc c' =>
      let w := wnode i pre post dl dc c' frag in
      emit s w ++ detectF (step s w) pre ++ shiftRs dl dc (gen_pre c' frag (step s w))
    | Seq pre dl c' _ => detectF s pre ++ shiftRs dl 0 (gen_pre c' frag s)
    end.
  Fixpoint gen_post (c : ctx) (frag : list ast) (s : S) : list rep :=
    match c with
    | Hole => []
    | Wrap i pre post dl dc c' =>
      let w := wnode i pre post dl dc c' frag in
      shiftRs dl dc (gen_post c' frag (step s w)) ++ detectF (step s w) post
    | Seq _ dl c' post => shiftRs dl 0 (gen_post c' frag s) ++ detectF s post
    end.
End Walker.
