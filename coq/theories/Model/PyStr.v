(* Model/PyStr.v — the part of CPython's str / re behaviour that the ignore-directive code relies on,
   as total functions over Coq strings holding the UTF-8 bytes of the text.  Definitions only.

   Modelled: str.lower (ASCII letters only: the domain excludes the four non-ASCII code points that case-map
   to ASCII letters, U+0130 U+0131 U+017F U+212A), `in` / startswith / endswith, str.split(sep),
   str.strip, str.splitlines (CPython's full line-boundary set), the white-space class shared by
   str.strip / str.isspace / the regex class \s, and hand-written matchers for the two regex templates
     "bracket":  literal, open bracket, one or more non-close-bracket characters (group 1), close bracket
     "space":    literal, white space, then (group 1) words of non-white-space non-hash characters separated by white space
   and the splitter "one or more commas or white-space characters".  The translator checks that the source
   uses exactly these templates (translator/items_ignore.py: BRACKET_TAIL, SPACE_TAIL, SPLIT_RE). *)
From TL Require Import Lib.Base.

(* ---------- characters ---------- *)
Definition is_upper (c : ascii) : bool :=
  match c with
  | Ascii b0 b1 b2 b3 b4 b5 b6 b7 =>
      negb b7 && b6 && negb b5 && (b0 || b1 || b2 || b3 || b4) && negb (b4 && b3 && (b2 || (b1 && b0)))
  end.

Definition lower_ascii (c : ascii) : ascii :=
  match c with
  | Ascii b0 b1 b2 b3 b4 b5 b6 b7 => if is_upper c then Ascii b0 b1 b2 b3 b4 true b6 b7 else c
  end.

Fixpoint lower (s : string) : string :=
  match s with EmptyString => EmptyString | String c r => String (lower_ascii c) (lower r) end.

Definition ch (n : nat) : ascii := ascii_of_nat n.
(* byte constants in normal form (the VM would otherwise recompute ascii_of_nat at every comparison) *)
Definition c9 : ascii := Eval compute in ascii_of_nat 9.
Definition c10 : ascii := Eval compute in ascii_of_nat 10.
Definition c11 : ascii := Eval compute in ascii_of_nat 11.
Definition c12 : ascii := Eval compute in ascii_of_nat 12.
Definition c13 : ascii := Eval compute in ascii_of_nat 13.
Definition c28 : ascii := Eval compute in ascii_of_nat 28.
Definition c29 : ascii := Eval compute in ascii_of_nat 29.
Definition c30 : ascii := Eval compute in ascii_of_nat 30.
Definition c31 : ascii := Eval compute in ascii_of_nat 31.
Definition c32 : ascii := Eval compute in ascii_of_nat 32.
Definition c35 : ascii := Eval compute in ascii_of_nat 35.
Definition c44 : ascii := Eval compute in ascii_of_nat 44.
Definition c93 : ascii := Eval compute in ascii_of_nat 93.
Definition c128 : ascii := Eval compute in ascii_of_nat 128.
Definition c129 : ascii := Eval compute in ascii_of_nat 129.
Definition c133 : ascii := Eval compute in ascii_of_nat 133.
Definition c154 : ascii := Eval compute in ascii_of_nat 154.
Definition c159 : ascii := Eval compute in ascii_of_nat 159.
Definition c160 : ascii := Eval compute in ascii_of_nat 160.
Definition c168 : ascii := Eval compute in ascii_of_nat 168.
Definition c169 : ascii := Eval compute in ascii_of_nat 169.
Definition c175 : ascii := Eval compute in ascii_of_nat 175.
Definition c194 : ascii := Eval compute in ascii_of_nat 194.
Definition c225 : ascii := Eval compute in ascii_of_nat 225.
Definition c226 : ascii := Eval compute in ascii_of_nat 226.
Definition c227 : ascii := Eval compute in ascii_of_nat 227.
Definition is (k c : ascii) : bool := Ascii.eqb c k.

(* one-byte white space: \t \n \v \f \r, FS GS RS US, space *)
Definition ws1 (c : ascii) : bool :=
  is c9 c || is c10 c || is c11 c || is c12 c || is c13 c || is c28 c || is c29 c || is c30 c || is c31 c || is c32 c.

(* third byte of E2 80 xx that is white space: U+2000..U+200A, U+2028, U+2029, U+202F *)
Definition ws_e280 (c : ascii) : bool :=
  match c with
  | Ascii b0 b1 b2 b3 b4 b5 b6 b7 =>
      (* 1000 0xxx, 1000 100x, 1000 1010 *)
      (b7 && negb b6 && negb b5 && negb b4 && (negb b3 || (negb b2 && (negb b1 || negb b0))))
  end || is c168 c || is c169 c || is c175 c.

(* number of bytes of the white-space character at the head of s (0: the head is not white space) *)
Definition ws_len (s : string) : nat :=
  match s with
  | EmptyString => 0
  | String c r =>
      if ws1 c then 1
      else if is c194 c then match r with String d _ => if is c133 d || is c160 d then 2 else 0 | _ => 0 end
      else if is c225 c then match r with String d (String e _) => if is c154 d && is c128 e then 3 else 0 | _ => 0 end
      else if is c226 c then
        match r with
        | String d (String e _) => if (is c128 d && ws_e280 e) || (is c129 d && is c159 e) then 3 else 0
        | _ => 0
        end
      else if is c227 c then match r with String d (String e _) => if is c128 d && is c128 e then 3 else 0 | _ => 0 end
      else 0
  end.

Fixpoint sdrop (n : nat) (s : string) : string :=
  match n, s with 0, _ => s | S k, String _ r => sdrop k r | S _, EmptyString => EmptyString end.
Fixpoint stake (n : nat) (s : string) : string :=
  match n, s with 0, _ => EmptyString | S k, String c r => String c (stake k r) | S _, EmptyString => EmptyString end.

Fixpoint srev_app (s acc : string) : string :=
  match s with EmptyString => acc | String c r => srev_app r (String c acc) end.
Definition srev (s : string) : string := srev_app s EmptyString.

(* ---------- search ---------- *)
Fixpoint prefixb (p s : string) : bool :=
  match p with
  | EmptyString => true
  | String a p' => match s with String b s' => Ascii.eqb a b && prefixb p' s' | EmptyString => false end
  end.

Fixpoint containsb (n s : string) : bool :=
  prefixb n s || match s with EmptyString => false | String _ r => containsb n r end.

Definition any_contains (needles : list string) (s : string) : bool := existsb (fun n => containsb n s) needles.

Definition suffixb (p s : string) : bool := prefixb (srev p) (srev s).

(* the text after the first occurrence of n *)
Fixpoint after_first (n s : string) : option string :=
  if prefixb n s then Some (sdrop (String.length n) s)
  else match s with EmptyString => None | String _ r => after_first n r end.

(* the text before the first occurrence of n (the whole text when there is none): s.split(n)[0] *)
Fixpoint before_first (n s : string) : string :=
  if prefixb n s then EmptyString
  else match s with EmptyString => EmptyString | String c r => String c (before_first n r) end.

(* ---------- strip ---------- *)
Fixpoint lstrip_fuel (fuel : nat) (s : string) : string :=
  match fuel with
  | 0 => s
  | S f => match ws_len s with 0 => s | k => lstrip_fuel f (sdrop k s) end
  end.
Definition lstrip (s : string) : string := lstrip_fuel (String.length s) s.

(* white-space character at the head of a REVERSED string *)
Definition ws_len_rev (s : string) : nat :=
  match s with
  | EmptyString => 0
  | String c r =>
      if ws1 c then 1
      else match r with
           | String d r2 =>
               if is c194 d && (is c133 c || is c160 c) then 2
               else match r2 with
                    | String e _ =>
                        if (is c225 e && is c154 d && is c128 c) || (is c226 e && is c128 d && ws_e280 c)
                           || (is c226 e && is c129 d && is c159 c) || (is c227 e && is c128 d && is c128 c)
                        then 3 else 0
                    | _ => 0
                    end
           | _ => 0
           end
  end.
Fixpoint lstrip_rev_fuel (fuel : nat) (s : string) : string :=
  match fuel with
  | 0 => s
  | S f => match ws_len_rev s with 0 => s | k => lstrip_rev_fuel f (sdrop k s) end
  end.
Definition rstrip (s : string) : string := srev (lstrip_rev_fuel (String.length s) (srev s)).
Definition strip (s : string) : string := rstrip (lstrip s).

(* ---------- split ---------- *)
(* s.split(c) for a one-character separator *)
Fixpoint split_char_aux (sep : ascii) (s : string) (cur : string) : list string :=
  match s with
  | EmptyString => [srev cur]
  | String c r => if Ascii.eqb c sep then srev cur :: split_char_aux sep r EmptyString else split_char_aux sep r (String c cur)
  end.
Definition split_char (sep : ascii) (s : string) : list string := split_char_aux sep s EmptyString.
Definition split_on (sep : string) (s : string) : list string :=
  match sep with String c EmptyString => split_char c s | _ => [s] end.

(* s.split(sep, maxsplit=1)[0] *)
Definition first_field (sep s : string) : string := before_first sep s.

(* the non-empty pieces of re.split(r"[,\s]+", s) *)
Fixpoint tokens_fuel (fuel : nat) (s cur : string) : list string :=
  match fuel with
  | 0 => []
  | S f =>
      match s with
      | EmptyString => match cur with EmptyString => [] | _ => [srev cur] end
      | String c r =>
          let flush := match cur with EmptyString => [] | _ => [srev cur] end in
          if is c44 c then flush ++ tokens_fuel f r EmptyString
          else match ws_len s with
               | 0 => tokens_fuel f r (String c cur)
               | k => flush ++ tokens_fuel f (sdrop k s) EmptyString
               end
      end
  end.
Definition tokens (s : string) : list string := tokens_fuel (S (String.length s)) s EmptyString.

(* ---------- splitlines ---------- *)
(* str.splitlines(): boundaries \n \r \r\n \v \f FS GS RS, U+0085, U+2028, U+2029 *)
Definition brk1 (c : ascii) : bool := is c10 c || is c11 c || is c12 c || is c28 c || is c29 c || is c30 c.

Fixpoint splitlines_aux (s cur : string) : list string :=
  match s with
  | EmptyString => match cur with EmptyString => [] | _ => [srev cur] end
  | String c r =>
      if brk1 c then srev cur :: splitlines_aux r EmptyString
      else if is c13 c then
        match r with
        | String d r2 => if is c10 d then srev cur :: splitlines_aux r2 EmptyString else srev cur :: splitlines_aux r EmptyString
        | EmptyString => [srev cur]
        end
      else if is c194 c then
        match r with
        | String d r2 => if is c133 d then srev cur :: splitlines_aux r2 EmptyString else splitlines_aux r (String c cur)
        | EmptyString => splitlines_aux r (String c cur)
        end
      else if is c226 c then
        match r with
        | String d (String e r3) =>
            if is c128 d && (is c168 e || is c169 e) then srev cur :: splitlines_aux r3 EmptyString else splitlines_aux r (String c cur)
        | _ => splitlines_aux r (String c cur)
        end
      else splitlines_aux r (String c cur)
  end.
Definition splitlines (s : string) : list string := splitlines_aux s EmptyString.

(* the line numbering of the analysers (ast, tree-sitter after universal-newline reading): \n, \r\n, \r only *)
Fixpoint split_newlines_aux (s cur : string) : list string :=
  match s with
  | EmptyString => match cur with EmptyString => [] | _ => [srev cur] end
  | String c r =>
      if is c10 c then srev cur :: split_newlines_aux r EmptyString
      else if is c13 c then
        match r with
        | String d r2 => if is c10 d then srev cur :: split_newlines_aux r2 EmptyString else srev cur :: split_newlines_aux r EmptyString
        | EmptyString => [srev cur]
        end
      else split_newlines_aux r (String c cur)
  end.
Definition split_newlines (s : string) : list string := split_newlines_aux s EmptyString.

(* ---------- the two regex templates ---------- *)
Definition prefix_lit (ci : bool) (lit s : string) : bool :=
  if ci then prefixb (lower lit) (lower (stake (String.length lit) s)) else prefixb lit s.

(* non-close-bracket characters followed by a close bracket : the text up to the first ], which must be non-empty and must be closed *)
Fixpoint until_rbracket (s cur : string) : option string :=
  match s with
  | EmptyString => None
  | String c r => if is c93 c then match cur with EmptyString => None | _ => Some (srev cur) end else until_rbracket r (String c cur)
  end.

(* re.search of the bracket template, group 1 : leftmost start *)
Fixpoint re_bracket (ci : bool) (lit s : string) : option string :=
  let here := if prefix_lit ci (lit ++ "[") s then until_rbracket (sdrop (S (String.length lit)) s) EmptyString else None in
  match here with
  | Some g => Some g
  | None => match s with EmptyString => None | String _ r => re_bracket ci lit r end
  end.

Fixpoint skip_ws_fuel (fuel : nat) (s : string) : string :=
  match fuel with 0 => s | S f => match ws_len s with 0 => s | k => skip_ws_fuel f (sdrop k s) end end.
Definition skip_ws (s : string) : string := skip_ws_fuel (String.length s) s.

(* a word : the longest run of characters that are neither white space nor '#'; returns (run reversed onto acc, rest) *)
Fixpoint word_fuel (fuel : nat) (s acc : string) : string * string :=
  match fuel with
  | 0 => (acc, s)
  | S f =>
      match s with
      | EmptyString => (acc, s)
      | String c r => if is c35 c then (acc, s) else match ws_len s with 0 => word_fuel f r (String c acc) | _ => (acc, s) end
      end
  end.

(* after a first word: greedily more (white space, word) pairs; acc holds the group so far, reversed *)
Fixpoint more_words_fuel (fuel : nat) (s acc : string) : string :=
  match fuel with
  | 0 => acc
  | S f =>
      let s1 := skip_ws s in
      if String.length s1 =? String.length s then acc
      else
        let gap := stake (String.length s - String.length s1) s in
        let '(acc2, rest) := word_fuel (String.length s1) s1 (srev_app gap acc) in
        if String.length rest =? String.length s1 then acc else more_words_fuel f rest acc2
  end.

Definition space_group (s : string) : option string :=
  let s1 := skip_ws s in
  if String.length s1 =? String.length s then None
  else
    let '(acc, rest) := word_fuel (String.length s1) s1 EmptyString in
    if String.length rest =? String.length s1 then None
    else Some (srev (more_words_fuel (String.length rest) rest acc)).

(* re.search of the space template, group 1 : leftmost start *)
Fixpoint re_space (ci : bool) (lit s : string) : option string :=
  let here := if prefix_lit ci lit s then space_group (sdrop (String.length lit) s) else None in
  match here with
  | Some g => Some g
  | None => match s with EmptyString => None | String _ r => re_space ci lit r end
  end.
