(* Model/Loc.v — the location theory of property C12 and the quirk-parametric model of where the
   violation builders put a finding.  No proofs in this file.

   Part 1: files as line lists; `line_ok` / `col_ok`; text <-> line list.
   Part 2: the conversions read from the source (Gen/LocGen.v): how a builder turns the parser
           position of its node into the reported line and column.
   Part 3: constructs as the renderer records them (header token position and node start position,
           both 0-based: a parser-position oracle), the model `model_line` / `model_col` under a
           quirk vector, and the specification `loc_ok`.

   What is NOT modelled: which constructs a linter flags (that is C01/C02/C03/C16/C17/C19) and the
   parser itself (positions are an oracle, validated by the correspondence check of C12). *)
From TL Require Import Lib.Base Lib.GenTypes Model.LocTypes Gen.LocGen.

(* ------------------------------------------------------------------ 1. files as line lists *)
Definition lfile := list string.
Definition nlines (f : lfile) : nat := List.length f.
(* the text of 1-based line `line` (empty beyond the file) *)
Definition line_text (f : lfile) (line : nat) : string := nth (line - 1) f "".
Definition line_ok (f : lfile) (line : nat) : bool := (1 <=? line) && (line <=? nlines f).
Definition col_ok (f : lfile) (line col : nat) : bool := col <=? String.length (line_text f line).

(* the line list of a text: split at LF; a final LF terminates the last line (no empty line after it) *)
Definition lf : ascii := ascii_of_nat 10.
Fixpoint lines_acc (acc : string) (s : string) : list string :=
  match s with
  | EmptyString => match acc with EmptyString => [] | _ => [acc] end
  | String c s' => if Ascii.eqb c lf then acc :: lines_acc EmptyString s' else lines_acc (acc ++ String c EmptyString) s'
  end.
Definition lines_of (s : string) : list string := lines_acc EmptyString s.

(* the text of a line list: every line terminated by LF *)
Fixpoint text_of (ls : list string) : string :=
  match ls with [] => EmptyString | l :: r => (l ++ String lf (text_of r))%string end.

Fixpoint lf_free (s : string) : bool :=
  match s with EmptyString => true | String c s' => negb (Ascii.eqb c lf) && lf_free s' end.

(* `needle in hay` *)
Fixpoint sprefix (p s : string) : bool :=
  match p with
  | EmptyString => true
  | String a p' => match s with EmptyString => false | String b s' => Ascii.eqb a b && sprefix p' s' end
  end.
Fixpoint occurs (needle hay : string) : bool :=
  sprefix needle hay || match hay with EmptyString => false | String _ h' => occurs needle h' end.

(* ------------------------------------------------------------------ 2. conversions *)
(* row0 is the 0-based row of the node; a 1-based parser (ast) reports row0 + 1 *)
Definition eval_line (e : lexpr) (row0 : nat) : nat :=
  match e with LBase1 off => (row0 + 1) + off | LBase0 off => row0 + off | LConst n => n end.
Definition eval_col (e : cexpr) (col0 : nat) : nat :=
  match e with CNode off => col0 + off | CConst n => n end.

(* the conversion yields the 1-based line of the node *)
Definition conv_ok (e : lexpr) : bool :=
  match e with LBase1 off => off =? 0 | LBase0 off => off =? 1 | LConst _ => false end.
Definition is_const_line (e : lexpr) : bool := match e with LConst _ => true | _ => false end.
Definition col_plain (e : cexpr) : bool := match e with CNode off => off =? 0 | CConst _ => true end.

Fixpoint lookup3 (k : string) (l : list (string * lexpr * cexpr)) : option (lexpr * cexpr) :=
  match l with
  | [] => None
  | (k', a, b) :: r => if String.eqb k k' then Some (a, b) else lookup3 k r
  end.
Definition builder (b : string) : option (lexpr * cexpr) := lookup3 b loc_builders.

(* functions in which a raw tree-sitter row is legitimately used 0-based (line-count arithmetic
   `end - start + 1`, index into `code.split("\n")`, position pairs compared with one another):
   none of these values reaches a Violation.  Hand-maintained; a raw use anywhere else breaks
   `row_sites_ok` (Proofs/LocBase.v). *)
Definition raw_row_allowed : list string := [
  "src/linters/blocking_async/rust_analyzer.py::RustBlockingAsyncAnalyzer._check_blocking_call";
  "src/linters/clone_abuse/rust_analyzer.py::RustCloneAnalyzer._find_clone_recursive";
  "src/linters/unwrap_abuse/rust_analyzer.py::RustUnwrapAnalyzer._find_unwrap_recursive";
  "src/linters/cqs/typescript_function_analyzer.py::_filter_duplicate_functions";
  "src/linters/cqs/typescript_function_analyzer.py::_get_function_child_positions";
  "src/linters/dry/typescript_statement_detector.py::_find_first_method_line";
  "src/linters/dry/typescript_statement_detector.py::_is_in_class_field_area";
  "src/linters/dry/typescript_statement_detector.py::_is_single_statement_pattern";
  "src/linters/dry/typescript_statement_detector.py::_matches_call_expression_pattern";
  "src/linters/dry/typescript_statement_detector.py::_node_overlaps_and_matches";
  "src/linters/srp/rust_analyzer.py::RustSRPAnalyzer._node_loc";
  "src/linters/srp/typescript_metrics_calculator.py::count_loc"].
(* in the three Rust analyzers the raw row is the argument of get_line_context(code, row): exactly one raw
   use next to the converted one *)
Definition row_use_ok (s : string * use) : bool :=
  match snd s with
  | UPlus k => k =? 1
  | URaw => smem (fst s) raw_row_allowed
  | UMinus _ | UArith => smem (fst s) raw_row_allowed
  end.
(* `lineno + 1` occurs only as the exclusive end of range(lineno, end_lineno + 1) *)
Definition lineno_use_allowed : list string := [
  "src/linters/dry/python_analyzer.py::PythonDuplicateAnalyzer._add_line_range";
  "src/linters/dry/single_statement_detector.py::SingleStatementDetector._add_node_to_index"].
Definition lineno_use_ok (s : string * use) : bool := smem (fst s) lineno_use_allowed.
Definition col_use_ok (s : string * use) : bool := match snd s with URaw => true | _ => false end.

(* SARIF regions are 1-based in both coordinates *)
Definition sarif_line (line : nat) : nat := line + fst sarif_region.
Definition sarif_col (col : nat) : nat := col + snd sarif_region.

(* ------------------------------------------------------------------ 3. constructs, quirks, model, specification *)
(* A construct as the renderer records it.  (k_hrow, k_hcol): 0-based row / column of the token the
   property names (the `def` / `function` / `fn` / `class` / `struct` keyword line, the literal, the
   method name of a call, the first line of a duplicated block, the line of a temporal phrase).
   (k_nrow, k_ncol): where the parser's node starts (differs when the node starts earlier: the receiver
   of a method chain, the header text of a file; a decorator in front of a TypeScript class - repaired in
   147bf8d: SRP now reports the `class` keyword child, so no builder works from that node start any more).  k_key identifies the
   construct in messages (function / class name, spelled value, ...). *)
Record construct := { k_builder : string; k_key : string; k_hrow : nat; k_hcol : nat; k_nrow : nat; k_ncol : nat }.

(* true = what the code does, false = what the property demands *)
Record lquirks := {
  q_rs_chain_start         : bool;  (* unwrap / clone: a method call is reported where its receiver chain starts *)
  q_ts_arrow_node_start    : bool;  (* nesting and CQS on TypeScript: `const g =` / `  (a) => {` is reported where the arrow function starts,
                                      one line below the declaration that carries the quoted name *)
  q_ts_console_chain_start : bool;  (* console.<m>() is reported where `console` stands, not where `.<m>(` is *)
  q_fh_header_relative     : bool;  (* file-header: temporal language is numbered inside the header text, not in the file *)
  q_col_const_unclamped    : bool;  (* builders with a constant column report it even on a shorter (empty) line *)
}.
Definition loc_ideal : lquirks := Build_lquirks false false false false false.

Definition use_node (q : lquirks) (b : string) : bool :=
  if String.eqb b "unwrap" || String.eqb b "clone" then q_rs_chain_start q
  else if String.eqb b "nesting.ts" || String.eqb b "cqs.ts" then q_ts_arrow_node_start q
  else if String.eqb b "print.ts" then q_ts_console_chain_start q
  else if String.eqb b "file-header.atemporal" then q_fh_header_relative q
  else false.

Definition node_row (q : lquirks) (c : construct) : nat := if use_node q (k_builder c) then k_nrow c else k_hrow c.
Definition node_col (q : lquirks) (c : construct) : nat := if use_node q (k_builder c) then k_ncol c else k_hcol c.

Definition model_line (q : lquirks) (c : construct) : nat :=
  match builder (k_builder c) with
  | Some (le, _) => eval_line le (node_row q c)
  | None => 0
  end.
Definition model_col (q : lquirks) (f : lfile) (c : construct) : nat :=
  match builder (k_builder c) with
  | Some (_, CNode off) => eval_col (CNode off) (node_col q c)
  | Some (_, CConst n) => if q_col_const_unclamped q then n else Nat.min n (String.length (line_text f (model_line q c)))
  | None => 0
  end.

(* the property for one reported position of construct c: the line is the construct's line, it exists,
   and the column lies within it *)
Definition loc_ok (f : lfile) (c : construct) (line col : nat) : bool :=
  (line =? k_hrow c + 1) && line_ok f line && col_ok f line col.

(* the parser-position oracle is within the file: the header token sits on an existing line, inside it;
   a constant-line builder describes the file as a whole (header row 0) *)
Definition wf_construct (f : lfile) (c : construct) : bool :=
  (k_hrow c <? nlines f) && (k_hcol c <=? String.length (nth (k_hrow c) f ""))
  && match builder (k_builder c) with
     | Some (LConst n, _) => k_hrow c + 1 =? n
     | Some _ => true
     | None => false
     end.

(* the construct has no separate node start *)
Definition plain_construct (c : construct) : bool := (k_nrow c =? k_hrow c) && (k_ncol c =? k_hcol c).
(* a constant column fits on the construct's line *)
Definition const_col_fits (f : lfile) (c : construct) : bool :=
  match builder (k_builder c) with
  | Some (_, CConst n) => n <=? String.length (nth (k_hrow c) f "")
  | _ => true
  end.
