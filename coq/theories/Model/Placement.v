(* Model/Placement.v — executable model of the file-placement linter (src/linters/file_placement)
   and the specification of property C18.

   The model is parametric in the regex engine:  [matches pattern path] stands for
   re.compile(pattern, IGNORECASE).search(path) and [valid pattern] for "re.compile(pattern) does not
   raise re.error"; both are Section variables, so every theorem holds for every regex engine.
   In the correspondence check the harness tabulates both for the finite pattern x path set of a case.

   Transcribed: DirectoryMatcher.find_matching_rule/_check_path_match/_check_root_match,
   RuleChecker.check_all_rules and its helpers, PatternMatcher.match_deny_patterns/
   match_allow_patterns/_extract_pattern_and_reason, PatternValidator.validate_config,
   PathResolver.get_relative_path/normalize_path_string (the string methods applied to str(path) are a generated
   list of operations, interpreted here), ViolationFactory messages.  All literals (message formats, default
   reasons, reason keys, keys and order of the checks, root key, depth arithmetic, comparison operator and
   start value of the best-depth search, validation order) are read from Gen/PlacementGen.v.
   No proofs in this file. *)
From Coq Require Import ZArith.
From TL Require Import Lib.Base Lib.GenTypes Model.PlacementTypes Gen.PlacementGen.

(* ------------------------------------------------------------------ quirks *)
(* true = "do what the code does", false = "do what the property demands". *)
Record pquirks := {
  q_global_on_covered        : bool;  (* global_deny / global_patterns are applied to files covered by a directory rule *)
  (* the next three were defects of the original tree, repaired by fix: commits (a23cd20, 12368d4, 423132c).
     true = follow the form found in the source (Gen: fp_prefix_form, fp_relative_resolved,
     fp_allow_dict_supported), false = the property's form.  With the repaired source both coincide (proved). *)
  q_prefix_without_separator : bool;  (* was: a key matches by bare startswith: `src` covers `src2/x` and `srcfile.py` *)
  q_path_relative_to_cwd     : bool;  (* was: a path given relative to the working directory is judged as if relative to the root *)
  q_allow_dict_unsupported   : bool;  (* was: documented allow items {pattern: ..} raise TypeError in validation (swallowed) *)
  q_trailing_slash_depth     : bool;  (* the depth of a key written with a trailing slash counts the empty last component:
                                         `lib/` ties with `lib/core` and, listed first, judges lib/core/x *)
  q_backslash_separator      : bool;  (* normalize_path_string turns every backslash of the root-relative path into `/` before
                                         matching (also on POSIX, where a backslash is an ordinary character of a file name):
                                         the root-level file `src\x.py` is judged by the rule of `src`, `^lib/` matches `lib\a.py` *)
}.
Definition ideal : pquirks := Build_pquirks false false false false false false.
Definition all_on : pquirks := Build_pquirks true true true true true true.

(* ------------------------------------------------------------------ abstract configuration *)
Inductive ditem := DStr (p : string) | DDict (p : string) (reason message : option string).
Inductive aitem := AStr (p : string) | ADict (p : string).
Record drule := { r_allow : option (list aitem); r_deny : option (list ditem) }.
Record config := {
  c_dirs  : option (list (string * drule));   (* "directories": insertion-ordered dict *)
  c_gdeny : option (list ditem);              (* "global_deny" *)
  c_gpat  : option drule }.                   (* "global_patterns": {allow, deny} *)

(* a file as handed to the linter: working directory relative to the project root ("" = the root),
   path relative to that directory, and whether it is handed over relative (else absolute) *)
Record fileq := { f_cwd : string; f_rest : string; f_relative : bool }.
Definition relpath (f : fileq) : string :=
  if String.eqb (f_cwd f) "" then f_rest f else (f_cwd f ++ "/" ++ f_rest f)%string.

Definition rep := (string * nat * nat * string)%type.   (* file_path, line, column, message *)
Inductive outcome := Rejected (p : string) | Crashed | Reports (l : list rep).

(* ------------------------------------------------------------------ strings *)
Fixpoint starts_with (pre s : string) : bool :=
  match pre with
  | EmptyString => true
  | String c pre' =>
    match s with
    | EmptyString => false
    | String c' s' => Ascii.eqb c c' && starts_with pre' s'
    end
  end.

Fixpoint str_contains (needle hay : string) : bool :=
  starts_with needle hay ||
  match hay with EmptyString => false | String _ h' => str_contains needle h' end.

Fixpoint count_char (c : ascii) (s : string) : nat :=
  match s with EmptyString => 0 | String a s' => (if Ascii.eqb a c then 1 else 0) + count_char c s' end.

(* str.split(sep) for a one-character separator *)
Fixpoint split_on (c : ascii) (s : string) : list string :=
  match s with
  | EmptyString => [EmptyString]
  | String a s' =>
    if Ascii.eqb a c then EmptyString :: split_on c s'
    else match split_on c s' with
         | [] => [String a EmptyString]
         | x :: xs => String a x :: xs
         end
  end.

(* a directory key without its trailing slashes (`lib/` and `lib` name the same directory) *)
Fixpoint rstrip_char (x : ascii) (s : string) : string :=       (* str.rstrip(x) for a one-character set *)
  match s with
  | EmptyString => EmptyString
  | String c s' =>
    let r := rstrip_char x s' in
    if Ascii.eqb c x && String.eqb r "" then EmptyString else String c r
  end.
Definition rstrip_slash (s : string) : string := rstrip_char "/" s.

(* ------------------------------------------------------------------ normalize_path_string *)
(* str.replace(a, b) for a non-empty a: leftmost non-overlapping occurrences *)
Fixpoint replace_go (a b : string) (skip : nat) (s : string) : string :=
  match s with
  | EmptyString => EmptyString
  | String c s' =>
    match skip with
    | S k => replace_go a b k s'
    | O => if starts_with a s then (b ++ replace_go a b (String.length a - 1) s')%string
           else String c (replace_go a b 0 s')
    end
  end.

Fixpoint char_in (c : ascii) (set : string) : bool :=
  match set with EmptyString => false | String a r => Ascii.eqb a c || char_in c r end.

Fixpoint lstrip_set (set s : string) : string :=
  match s with EmptyString => EmptyString | String c s' => if char_in c set then lstrip_set set s' else s end.

Fixpoint rstrip_set (set s : string) : string :=
  match s with
  | EmptyString => EmptyString
  | String c s' => let r := rstrip_set set s' in if char_in c set && String.eqb r "" then EmptyString else String c r
  end.

Fixpoint str_map (f : ascii -> ascii) (s : string) : string :=
  match s with EmptyString => EmptyString | String a r => String (f a) (str_map f r) end.

Definition ascii_lower (c : ascii) : ascii :=
  let n := nat_of_ascii c in if (65 <=? n) && (n <=? 90) then ascii_of_nat (n + 32) else c.

Fixpoint sdrop (n : nat) (s : string) : string :=
  match n, s with O, _ => s | S k, String _ s' => sdrop k s' | S _, EmptyString => EmptyString end.

Definition norm_step (o : norm_op) (s : string) : string :=
  match o with
  | NReplace a b => replace_go a b 0 s
  | NLstrip cs => lstrip_set cs s
  | NRstrip cs => rstrip_set cs s
  | NStrip cs => rstrip_set cs (lstrip_set cs s)
  | NLower => str_map ascii_lower s
  | NRemovePrefix p => if starts_with p s then sdrop (String.length p) s else s
  end.

Definition normalize (ops : list norm_op) (s : string) : string := fold_left (fun acc o => norm_step o acc) ops s.

(* the one operation that is the listed deviation: backslash -> path separator *)
Definition is_sep_replace (o : norm_op) : bool :=
  match o with NReplace a b => String.eqb a "\" && String.eqb b fp_path_sep | _ => false end.

Definition or_str (a b : string) : string := if String.eqb a "" then b else a.   (* Python `a or b` *)

Fixpoint first_some {A} (l : list (option A)) : option A :=
  match l with [] => None | Some x :: _ => Some x | None :: r => first_some r end.

Definition render (parts : list fpart) (rel matched reason pattern : string) : string :=
  sconcat (map (fun p => match p with
                         | FLit s => s | FRel => rel | FMatched => matched | FReason => reason
                         | FPattern => pattern | FErr => ""
                         end) parts).

(* the text of the ValueError up to the regex engine's own explanation *)
Fixpoint render_until_err (parts : list fpart) (pattern : string) : string :=
  match parts with
  | [] => ""
  | FErr :: _ => ""
  | p :: r => ((match p with FLit s => s | FPattern => pattern | _ => "" end) ++ render_until_err r pattern)%string
  end.

Section Engine.
  Variable valid : string -> bool.
  Variable matches : string -> string -> bool.

  (* ---------------------------------------------------------------- PatternMatcher *)
  Definition ditem_pattern (i : ditem) : string := match i with DStr p => p | DDict p _ _ => p end.
  Definition aitem_pattern (a : aitem) : string := match a with AStr p => p | ADict p => p end.

  Definition ditem_reason (i : ditem) : string :=
    match i with
    | DStr _ => fp_default_reason_str
    | DDict _ r m =>
      match first_some (map (fun k => if String.eqb k "reason" then r else if String.eqb k "message" then m else None)
                            fp_reason_keys) with
      | Some x => x
      | None => fp_default_reason_dict
      end
    end.

  Fixpoint match_deny (p : string) (l : list ditem) : option string :=
    match l with
    | [] => None
    | i :: r => if matches (ditem_pattern i) p then Some (ditem_reason i) else match_deny p r
    end.

  Definition match_allow (p : string) (l : list aitem) : bool :=
    existsb (fun a => matches (aitem_pattern a) p) l.

  (* ---------------------------------------------------------------- DirectoryMatcher *)
  (* the prefix test as written in the source *)
  Definition code_prefix_test (d p : string) : bool :=
    match fp_prefix_form with
    | PfBare => starts_with d p
    | PfRstripSep c sep => starts_with (rstrip_char c d ++ sep) p
    end.

  Definition prefix_test (q : pquirks) (d p : string) : bool :=
    if q_prefix_without_separator q then code_prefix_test d p else starts_with (rstrip_slash d ++ "/") p.

  Definition check_path_match (q : pquirks) (d p : string) : option Z :=
    if String.eqb d fp_root_key then
      (if String.eqb d fp_root_key2 && negb (str_contains fp_root_notin p) then Some fp_root_depth else None)
    else if prefix_test q d p
         then Some (Z.of_nat (List.length (split_on fp_split_sep (if q_trailing_slash_depth q then d else rstrip_slash d))))
    else None.

  Fixpoint find_loop (q : pquirks) (p : string) (dirs : list (string * drule))
           (best : option (string * drule)) (best_depth : Z) : option (string * drule) :=
    match dirs with
    | [] => best
    | (d, r) :: rest =>
      match check_path_match q d p with
      | Some depth =>
        if cmp_Z fp_best_cmp depth best_depth then find_loop q p rest (Some (d, r)) depth
        else find_loop q p rest best best_depth
      | None => find_loop q p rest best best_depth
      end
    end.

  Definition find_matching_rule (q : pquirks) (p : string) (dirs : list (string * drule)) : option (string * drule) :=
    find_loop q p dirs None fp_best_init.

  (* ---------------------------------------------------------------- RuleChecker *)
  Definition mk (rel msg : string) : rep := (rel, fp_line, fp_column, msg).

  (* from here on two strings travel together, as in check_all_rules(path_str, rel_path, ..): [ps] is the normalised
     string the patterns and the directory keys are tested against, [p] the root-relative path the report carries *)
  Definition deny_check (ps p : string) (l : option (list ditem)) (msg : string -> string) : option rep :=
    match l with
    | None => None
    | Some l => match match_deny ps l with Some reason => Some (mk p (msg reason)) | None => None end
    end.

  Definition allow_check (ps p : string) (l : option (list aitem)) (msg : string) : option rep :=
    match l with
    | None => None
    | Some l => if match_allow ps l then None else Some (mk p msg)
    end.

  Definition dir_deny_msg (p d reason : string) : string :=
    render fp_dir_deny_msg p d (or_str reason fp_dir_deny_fallback) "".
  Definition dir_allow_msg (p d : string) : string := render fp_dir_allow_msg p d "" "".
  Definition gdeny_msg (p reason : string) : string := or_str reason (render fp_gdeny_fallback_msg p "" "" "").
  Definition gallow_msg (p : string) : string := render fp_gallow_msg p "" "" "".

  (* one check of a {allow, deny} rule, selected by the key it reads *)
  Definition rule_check (k : string) (ps p : string) (r : drule) (dmsg : string -> string) (amsg : string) : option rep :=
    if String.eqb k "deny" then deny_check ps p (r_deny r) dmsg
    else if String.eqb k "allow" then allow_check ps p (r_allow r) amsg
    else None.

  Definition opt_list {A} (o : option A) : list A := match o with Some x => [x] | None => [] end.

  (* _check_directory_rules: the first violation among the checks, in source order *)
  Definition dir_part (q : pquirks) (ps p : string) (dirs : list (string * drule)) : list rep :=
    match find_matching_rule q ps dirs with
    | None => []
    | Some (d, r) =>
      if String.eqb d "" then []      (* `not matched_path` *)
      else opt_list (first_some (map (fun k => rule_check k ps p r (dir_deny_msg p d) (dir_allow_msg p d)) fp_dir_check_order))
    end.

  Definition gdeny_part (ps p : string) (l : list ditem) : list rep :=
    opt_list (deny_check ps p (Some l) (gdeny_msg p)).

  Definition gpat_part (ps p : string) (g : drule) : list rep :=
    opt_list (first_some (map (fun k => rule_check k ps p g (gdeny_msg p) (gallow_msg p)) fp_gpat_check_order)).

  Definition dirs_of (c : config) : list (string * drule) := match c_dirs c with Some l => l | None => [] end.

  Definition covered (q : pquirks) (p : string) (c : config) : bool :=
    match find_matching_rule q p (dirs_of c) with Some _ => true | None => false end.

  (* check_all_rules: the three blocks in source order; the code applies the global blocks to every file *)
  Definition part_by (q : pquirks) (ps p : string) (c : config) (k : string) : list rep :=
    let gate := q_global_on_covered q || negb (covered q ps c) in
    if String.eqb k "directories" then dir_part q ps p (dirs_of c)
    else if String.eqb k "global_deny" then
      match c_gdeny c with Some l => if gate then gdeny_part ps p l else [] | None => [] end
    else if String.eqb k "global_patterns" then
      match c_gpat c with Some g => if gate then gpat_part ps p g else [] | None => [] end
    else [].

  Definition check_all_n (q : pquirks) (ps p : string) (c : config) : list rep :=
    flat_map (part_by q ps p c) fp_checker_keys.

  (* the checker on a path that needs no normalisation *)
  Definition check_all (q : pquirks) (p : string) (c : config) : list rep := check_all_n q p p c.

  (* ---------------------------------------------------------------- PatternValidator *)
  Inductive vres := VOk | VInvalid (p : string) | VCrash.
  Definition vseq (a b : vres) : vres := match a with VOk => b | _ => a end.
  Definition vpat (p : string) : vres := if valid p then VOk else VInvalid p.

  Definition v_aitem (q : pquirks) (a : aitem) : vres :=
    match a with
    | AStr p => vpat p
    | ADict p => if q_allow_dict_unsupported q && negb fp_allow_dict_supported then VCrash else vpat p
    end.

  Definition v_list {A} (f : A -> vres) (l : option (list A)) : vres :=
    match l with None => VOk | Some l => fold_right (fun x acc => vseq (f x) acc) VOk l end.

  Definition v_rule (q : pquirks) (order : list string) (r : drule) : vres :=
    fold_right (fun k acc =>
                  vseq (if String.eqb k "allow" then v_list (v_aitem q) (r_allow r)
                        else if String.eqb k "deny" then v_list (fun i => vpat (ditem_pattern i)) (r_deny r)
                        else VOk) acc) VOk order.

  Definition v_block (q : pquirks) (c : config) (k : string) : vres :=
    if String.eqb k "directories" then
      fold_right (fun dr acc => vseq (v_rule q fp_vdir_order (snd dr)) acc) VOk (dirs_of c)
    else if String.eqb k "global_patterns" then
      match c_gpat c with Some g => v_rule q fp_vgpat_order g | None => VOk end
    else if String.eqb k "global_deny" then v_list (fun i => vpat (ditem_pattern i)) (c_gdeny c)
    else VOk.

  Definition validate (q : pquirks) (c : config) : vres :=
    fold_right (fun k acc => vseq (v_block q c k) acc) VOk fp_validate_order.

  (* ---------------------------------------------------------------- PathResolver + the whole run *)
  Definition eff_path (q : pquirks) (f : fileq) : string :=
    if q_path_relative_to_cwd q && negb fp_relative_resolved && f_relative f then f_rest f else relpath f.

  (* normalize_path_string: the generated operations; with the flag off, without the backslash replacement *)
  Definition norm_ops (q : pquirks) : list norm_op :=
    if q_backslash_separator q then fp_normalize_ops else filter (fun o => negb (is_sep_replace o)) fp_normalize_ops.
  Definition path_str (q : pquirks) (rel : string) : string := normalize (norm_ops q) rel.

  Definition run (q : pquirks) (c : config) (f : fileq) : outcome :=
    match validate q c with
    | VOk => Reports (check_all_n q (path_str q (eff_path q f)) (eff_path q f) c)
    | VInvalid p => Rejected p
    | VCrash => Crashed
    end.

  (* ================================================================ specification (property C18) *)
  (* a directory key contains a path: the path lies below that directory (a key may be written with or
     without a trailing slash); the key "/" stands for the files placed directly in the project root *)
  Definition contains (d p : string) : bool :=
    if String.eqb d "/" then negb (str_contains "/" p) else starts_with (rstrip_slash d ++ "/") p.

  (* the most specific containing key = the longest one (first listed among equal ones) *)
  Fixpoint spec_rule_loop (p : string) (dirs : list (string * drule)) (best : option (string * drule))
    : option (string * drule) :=
    match dirs with
    | [] => best
    | (d, r) :: rest =>
      if contains d p then
        match best with
        | None => spec_rule_loop p rest (Some (d, r))
        | Some (bd, _) => if String.length (rstrip_slash bd) <? String.length (rstrip_slash d)
                          then spec_rule_loop p rest (Some (d, r))
                          else spec_rule_loop p rest best
        end
      else spec_rule_loop p rest best
    end.
  Definition spec_rule (p : string) (dirs : list (string * drule)) : option (string * drule) :=
    spec_rule_loop p dirs None.

  Definition spec_reason (i : ditem) : string :=
    match i with
    | DStr _ => "File not allowed in this location"
    | DDict _ (Some r) _ => r
    | DDict _ None (Some m) => m
    | DDict _ None None => "File not allowed in this location"
    end.

  (* the first deny item whose pattern matches *)
  Definition spec_denied (p : string) (l : option (list ditem)) : option ditem :=
    match l with None => None | Some l => find (fun i => matches (ditem_pattern i) p) l end.

  (* an allow list is present and none of its patterns matches *)
  Definition spec_not_allowed (p : string) (l : option (list aitem)) : bool :=
    match l with None => false | Some l => forallb (fun a => negb (matches (aitem_pattern a) p)) l end.

  (* deny before allow *)
  Definition spec_judge (p : string) (r : drule) (dmsg : string -> string) (amsg : string) : list rep :=
    match spec_denied p (r_deny r) with
    | Some i => [(p, 1, 0, dmsg (spec_reason i))]
    | None => if spec_not_allowed p (r_allow r) then [(p, 1, 0, amsg)] else []
    end.

  Definition spec_dir_deny_msg (p d reason : string) : string :=
    ("File '" ++ p ++ "' not allowed in " ++ d ++ ": " ++ (if String.eqb reason "" then "Pattern denied" else reason))%string.
  Definition spec_dir_allow_msg (p d : string) : string :=
    ("File '" ++ p ++ "' does not match allowed patterns for " ++ d)%string.
  Definition spec_gdeny_msg (p reason : string) : string :=
    if String.eqb reason "" then ("File '" ++ p ++ "' matches denied pattern")%string else reason.
  Definition spec_gallow_msg (p : string) : string :=
    ("File '" ++ p ++ "' does not match any allowed patterns")%string.

  Definition spec_report (c : config) (p : string) : list rep :=
    match spec_rule p (dirs_of c) with
    | Some (d, r) => spec_judge p r (spec_dir_deny_msg p d) (spec_dir_allow_msg p d)
    | None =>
      (match c_gdeny c with Some l => spec_judge p (Build_drule None (Some l)) (spec_gdeny_msg p) "" | None => [] end)
      ++ (match c_gpat c with Some g => spec_judge p g (spec_gdeny_msg p) (spec_gallow_msg p) | None => [] end)
    end.

  Definition rule_patterns (r : drule) : list string :=
    (match r_allow r with Some l => map aitem_pattern l | None => [] end)
    ++ (match r_deny r with Some l => map ditem_pattern l | None => [] end).

  Definition all_patterns (c : config) : list string :=
    flat_map (fun dr => rule_patterns (snd dr)) (dirs_of c)
    ++ (match c_gdeny c with Some l => map ditem_pattern l | None => [] end)
    ++ (match c_gpat c with Some g => rule_patterns g | None => [] end).

  Inductive soutcome := SRejected | SCrashed | SReports (l : list rep).

  (* a configuration with a syntactically invalid pattern is rejected; otherwise the verdict is a function
     of the project-relative path *)
  Definition spec (c : config) (f : fileq) : soutcome :=
    if forallb valid (all_patterns c) then SReports (spec_report c (relpath f)) else SRejected.

  Definition forget (o : outcome) : soutcome :=
    match o with Rejected _ => SRejected | Crashed => SCrashed | Reports l => SReports l end.
End Engine.

(* domain: directory keys are not empty (an empty key is falsy in `not matched_path`) *)
Definition cfg_ok (c : config) : bool := forallb (fun dr => negb (String.eqb (fst dr) "")) (dirs_of c).
