(* Model/CfgCli.v — executable model of `thailint config set / get / reset` (src/cli/config.py,
   src/config.py, src/core/config_parser.py) as a state machine over the configuration file.
   State: the file as the list of (key, value) pairs a YAML/JSON loader yields, or None when the
   file does not exist.  Defaults, validators, conversion order, key normalisation and exit codes
   come from Gen/CfgToolGen.v.  No proofs in this file. *)
From TL Require Import Lib.Base Lib.GenTypes Model.CfgTypes Gen.CfgToolGen Model.CfgMerge.
From Coq Require Import ZArith DecimalString.
Definition show_abs (z : Z) : string := NilEmpty.string_of_uint (N.to_uint (Z.to_N (Z.abs z))).

(* ------------------------------------------------------------------ values *)
Fixpoint all_digits (s : string) : bool :=
  match s with String c r => is_digit c && all_digits r | EmptyString => true end.
Definition nonempty (s : string) : bool := match s with EmptyString => false | _ => true end.
Fixpoint digits_val (s : string) (acc : Z) : Z :=
  match s with String c r => digits_val r (acc * 10 + Z.of_N (N_of_ascii c - 48))%Z | EmptyString => acc end.
Fixpoint strip_zeros (s : string) : string :=   (* leading zeros *)
  match s with String "0" r => strip_zeros r | _ => s end.
Fixpoint rstrip_zeros (s : string) : string :=  (* trailing zeros *)
  match s with
  | EmptyString => EmptyString
  | String c r => match rstrip_zeros r with
                  | EmptyString => if Ascii.eqb c "0" then EmptyString else String c EmptyString
                  | r' => String c r'
                  end
  end.
Definition or0 (s : string) : string := match s with EmptyString => "0" | _ => s end.
Fixpoint split_dot (s : string) : option (string * string) :=
  match s with
  | EmptyString => None
  | String "." r => Some (EmptyString, r)
  | String c r => match split_dot r with Some (a, b) => Some (String c a, b) | None => None end
  end.
Definition split_sign (s : string) : bool * string :=
  match s with String "-" r => (true, r) | String "+" r => (false, r) | _ => (false, s) end.
Fixpoint leading_zeros (s : string) : nat := match s with String "0" r => S (leading_zeros r) | _ => 0 end.

(* int(text) on  [+-]?[0-9]+ *)
Definition conv_int (t : string) : option Z :=
  let '(neg, d) := split_sign t in
  if nonempty d && all_digits d then Some (if neg then (- digits_val d 0)%Z else digits_val d 0) else None.
(* float(text) on plain decimals  [+-]?[0-9]+.[0-9]+  that repr prints positionally and exactly:
   at most 15 significant digits, magnitude below 1e16, and not below 1e-4 unless zero *)
Definition conv_float (t : string) : option cval :=
  let '(neg, d) := split_sign t in
  match split_dot d with
  | Some (ip, fp) =>
    if nonempty ip && nonempty fp && all_digits ip && all_digits fp then
      let ip' := strip_zeros ip in let fp' := rstrip_zeros fp in
      let small_ok := nonempty ip' || negb (nonempty fp') || (leading_zeros fp' <=? 3) in
      if (String.length ip' + String.length fp' <=? 15) && small_ok then Some (VFloat neg (or0 ip') (or0 fp')) else None
    else None
  | None => None
  end.

Definition float_words : list string := ["inf"; "infinity"; "nan"].
Definition is_space (c : ascii) : bool := Ascii.eqb c " ".
Fixpoint all_printable (s : string) : bool :=
  match s with String c r => in_range 32 126 c && all_printable r | EmptyString => true end.
(* texts neither int() nor float() accepts: empty, blank, or starting (after spaces) with a letter / harmless punctuation,
   except the words float() knows *)
Definition safe_start (c : ascii) : bool :=
  is_letter c || smem (String c EmptyString) ["/"; "_"; ":"; "@"; "#"; "$"; "%"; "&"; "*"; "!"; "?"; "~"; "^"; "="; "<"; ">"; "|"; ";"; ","; "("; ")"; "["; "]"; "{"; "}"].
Definition plain_text (t : string) : bool :=
  all_printable t &&
  match lstrip t with
  | EmptyString => true
  | String c _ => safe_start c && negb (smem (lower (rstrip (lstrip t))) float_words)
  end.

(* _convert_value_type, on the texts of the modelled domain *)
Definition conv_domain (t : string) : bool :=
  smem (lower t) bool_words
  || match conv_int t with Some _ => true | None => false end
  || match conv_float t with Some _ => true | None => false end
  || plain_text t.
Fixpoint conv_by (order : list string) (t : string) : cval :=
  match order with
  | [] => VStr t
  | c :: r =>
    if String.eqb c "int" then match conv_int t with Some z => VInt z | None => conv_by r t end
    else if String.eqb c "float" then
      match conv_float t with
      | Some v => v
      | None => match conv_int t with Some z => VFloat (Z.ltb z 0) (show_abs z) "0" | None => conv_by r t end
      end
    else conv_by r t
  end.
Definition convert (t : string) : cval :=
  if smem (lower t) bool_words then VBool (String.eqb (lower t) true_word) else conv_by converter_order t.
(* the documented conversion (docs/cli-reference.md: `config set max_retries 5` sets a number, `true`/`false` a
   boolean): booleans, then integers, then decimals, else the text itself - the specification does not follow Gen *)
Definition convert_doc (t : string) : cval :=
  if smem (lower t) ["true"; "false"] then VBool (String.eqb (lower t) "true") else conv_by ["int"; "float"] t.

Definition show_Z (z : Z) : string :=
  if Z.ltb z 0 then ("-" ++ show_abs z)%string else show_abs z.
(* str(value) / click.echo(value) *)
Definition show (v : cval) : string :=
  match v with
  | VBool true => "True" | VBool false => "False"
  | VInt z => show_Z z
  | VFloat neg ip fp => ((if neg then "-" else "") ++ ip ++ "." ++ fp)%string
  | VStr s => s
  end.

Definition cval_eqb (a b : cval) : bool :=
  match a, b with
  | VBool x, VBool y => Bool.eqb x y
  | VInt x, VInt y => Z.eqb x y
  | VFloat n1 i1 f1, VFloat n2 i2 f2 => Bool.eqb n1 n2 && String.eqb i1 i2 && String.eqb f1 f2
  | VStr x, VStr y => String.eqb x y
  | _, _ => false
  end.

(* ------------------------------------------------------------------ validation (src/config.py) *)
Definition cmp_Z (c : cmp) (a b : Z) : bool :=
  match c with
  | CLe => Z.leb a b | CLt => Z.ltb a b | CGe => Z.leb b a | CGt => Z.ltb b a
  | CEq => Z.eqb a b | CNe => negb (Z.eqb a b)
  end.
(* a number as numerator / positive power of ten *)
Definition num_of (v : cval) : option (Z * Z) :=
  match v with
  | VBool b => Some ((if b then 1 else 0), 1)%Z
  | VInt z => Some (z, 1%Z)
  | VFloat neg ip fp => let n := digits_val (ip ++ fp) 0 in
                        Some ((if neg then (- n) else n)%Z, (10 ^ Z.of_nat (String.length fp))%Z)
  | VStr _ => None
  end.
(* value <c> bound *)
Definition cmp_bound (c : cmp) (v : cval) (b : Z) : option bool :=
  match num_of v with Some (n, sc) => Some (cmp_Z c n (b * sc)) | None => None end.
Definition is_int (v : cval) : bool := match v with VBool _ | VInt _ => true | _ => false end.

Definition has_key (k : string) (c : cfg) : bool := match lookup k c with Some _ => true | None => false end.
Definition check_member (k : string) (allowed : list string) (c : cfg) : bool :=
  match lookup k c with None => true | Some (VStr s) => smem s allowed | Some _ => false end.
(* `not isinstance(v, int) or v <bad> bound` -> error *)
Definition check_int_guard (k : string) (bad : cmp) (bound : Z) (c : cfg) : bool :=
  match lookup k c with
  | None => true
  | Some v => is_int v && match cmp_bound bad v bound with Some r => negb r | None => false end
  end.
(* `not isinstance(v, (int, float)) or v <bad> bound` -> error *)
Definition check_num_guard (k : string) (bad : cmp) (bound : Z) (c : cfg) : bool :=
  match lookup k c with
  | None => true
  | Some v => match cmp_bound bad v bound with Some r => negb r | None => false end
  end.
Definition check_app_name (c : cfg) : bool :=
  match lookup "app_name" c with
  | None => true
  | Some (VStr s) => nonempty (rstrip s)
  | Some _ => false
  end.
(* validate_config, parametric in the literals of its guards *)
Definition valid_with (req levels formats : list string) (rcmp : cmp) (rb : Z) (tcmp : cmp) (tb : Z) (c : cfg) : bool :=
  forallb (fun k => has_key k c) req && check_member "log_level" levels c
  && check_member "output_format" formats c && check_int_guard "max_retries" rcmp rb c
  && check_num_guard "timeout" tcmp tb c && check_app_name c.
(* ... as found in the source *)
Definition valid (c : cfg) : bool :=
  valid_with required_keys valid_log_levels valid_formats max_retries_bad_cmp max_retries_bound timeout_bad_cmp timeout_bound c.
(* ... as documented (error messages of src/config.py, docs/cli-reference.md): app_name and log_level are required;
   log_level is a logging level name; output_format is text, json or yaml; max_retries is a NON-NEGATIVE INTEGER
   (bad iff < 0); timeout is a POSITIVE NUMBER (bad iff <= 0); app_name is a non-empty string.
   The specification uses this one; it does not follow Gen. *)
Definition valid_doc (c : cfg) : bool :=
  valid_with ["app_name"; "log_level"] ["DEBUG"; "INFO"; "WARNING"; "ERROR"; "CRITICAL"] ["text"; "json"; "yaml"]
             CLt 0%Z CLe 0%Z c.

(* ------------------------------------------------------------------ load / save *)
(* _normalize_config_keys: first spelling keeps the position, last value wins *)
Definition normalize (c : cfg) : cfg := fold_left (fun acc kv => upd (norm (fst kv)) (snd kv) acc) c [].
(* merge_configs on flat configurations *)
Definition merge_cfg (base over : cfg) : cfg := fold_left (fun acc kv => upd (fst kv) (snd kv) acc) over base.

(* the configuration the root command hands to the subcommand; None = exit 2 ("Error loading configuration").
   explicit = `--config FILE` was given; otherwise the file is ./config.yaml and an invalid one is skipped silently *)
Definition load (explicit : bool) (f : option cfg) : option cfg :=
  match f with
  | None => Some default_config
  | Some kv => let m := merge_cfg default_config (normalize kv) in
               if valid m then Some m else if explicit then None else Some default_config
  end.

Inductive cmd := CSet (k t : string) | CGet (k : string) | CReset.
Record obs := { o_rc : nat; o_out : option string; o_file : option cfg }.

Definition ckey_set (q : cquirks) (k : string) : string := if q_cli_raw_key q && negb set_normalises_key then k else norm k.
Definition ckey_get (q : cquirks) (k : string) : string := if q_cli_raw_key q && negb get_normalises_key then k else norm k.

Definition step (q : cquirks) (explicit : bool) (f : option cfg) (c : cmd) : obs :=
  match load explicit f with
  | None => Build_obs load_error_exit None f
  | Some conf =>
    match c with
    | CSet k t =>
      let v := convert t in
      let conf' := upd (ckey_set q k) v conf in
      if valid conf' then Build_obs 0 (Some (set_msg_prefix ++ ckey_set q k ++ set_msg_mid ++ show v)%string) (Some conf')
      else Build_obs set_reject_exit None f
    | CGet k =>
      match lookup (ckey_get q k) conf with
      | Some v => Build_obs 0 (Some (show v)) f
      | None => Build_obs get_missing_exit None f
      end
    | CReset => Build_obs 0 None (Some default_config)
    end
  end.

Fixpoint run (q : cquirks) (explicit : bool) (f : option cfg) (cs : list cmd) : list obs :=
  match cs with
  | [] => []
  | c :: r => let o := step q explicit f c in o :: run q explicit (o_file o) r
  end.

(* ------------------------------------------------------------------ specification (on observed traces) *)
(* exp: what `config get` must print for the (normalised) keys set so far.
   Per step: a rejected set leaves the file unchanged; an accepted set leaves a file that validates and holds the
   accepted value under the key; a get of a key set earlier prints that value. *)
Definition file_eqb (a b : option cfg) : bool :=
  match a, b with
  | None, None => true
  | Some x, Some y => list_eqb (fun p r => String.eqb (fst p) (fst r) && cval_eqb (snd p) (snd r)) x y
  | _, _ => false
  end.
Definition opt_str_eqb (a b : option string) : bool :=
  match a, b with None, None => true | Some x, Some y => String.eqb x y | _, _ => false end.

Definition stored_ok (k : string) (v : cval) (f : option cfg) : bool :=
  match f with
  | Some c => valid_doc (merge_cfg default_config (normalize c)) &&
              match lookup (norm k) (normalize c) with Some w => cval_eqb w v | None => false end
  | None => false
  end.

Fixpoint spec_trace (exp : list (string * string)) (before : option cfg) (cs : list cmd) (os : list obs) : list bool :=
  match cs, os with
  | c :: cr, o :: or =>
    if o_rc o =? load_error_exit then file_eqb (o_file o) before :: spec_trace exp (o_file o) cr or else
    match c with
    | CSet k t =>
      if o_rc o =? 0 then stored_ok k (convert_doc t) (o_file o) :: spec_trace (upd (norm k) (show (convert_doc t)) exp) (o_file o) cr or
      else file_eqb (o_file o) before :: spec_trace exp (o_file o) cr or
    | CGet k =>
      (file_eqb (o_file o) before &&
       match lookup (norm k) exp with
       | Some s => (o_rc o =? 0) && opt_str_eqb (o_out o) (Some s)
       | None => true
       end) :: spec_trace exp (o_file o) cr or
    | CReset => true :: spec_trace [] (o_file o) cr or
    end
  | _, _ => []
  end.

Definition obs_eqb (a b : obs) : bool :=
  (o_rc a =? o_rc b) && opt_str_eqb (o_out a) (o_out b) && file_eqb (o_file a) (o_file b).
