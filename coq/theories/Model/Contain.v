(* Model/Contain.v — property C11, the part that is logic:
   (1) failure containment of the orchestrator (_safe_check_rule / _execute_rules / lint_files /
       _lint_file_worker / _extract_violations_from_future) with rules as PARTIAL functions;
   (2) the order in which the two cross-file rules compute and store evidence;
   (3) language detection on arbitrary names / contents.
   Executable, quirk-parametric, no proofs.  The `except` tables, the extension table, the shebang
   rule and the step orders come from Gen/ContainGen.v. *)
From TL Require Import Lib.Base Lib.GenTypes Model.ContainTypes Gen.ContainGen.

(* ------------------------------------------------------------------ exceptions *)
(* Failure kinds: subclasses of `Exception` (KeyboardInterrupt / SystemExit / GeneratorExit are
   process control, not rule failures, and are outside the model). *)
Inductive exc :=
| EValue | EUnicodeDecode | EUnicodeEncode | EJSONDecode
| ERuntime | ERecursion | ENotImplemented
| ESyntax | EIndentation
| EOS | EFileNotFound | EPermission
| EKey | EIndex
| EType | EAttribute | EAssertion | EMemory | EZeroDivision | EOverflow | EStopIteration | ENameErr.

Definition all_exc : list exc :=
  [EValue; EUnicodeDecode; EUnicodeEncode; EJSONDecode; ERuntime; ERecursion; ENotImplemented; ESyntax; EIndentation;
   EOS; EFileNotFound; EPermission; EKey; EIndex; EType; EAttribute; EAssertion; EMemory; EZeroDivision; EOverflow;
   EStopIteration; ENameErr].

(* method resolution order of the class (names, `object` omitted): CPython is the oracle, the harness
   compares this table with `cls.__mro__` on every run *)
Definition mro (e : exc) : list string :=
  match e with
  | EValue => ["ValueError"]
  | EUnicodeDecode => ["UnicodeDecodeError"; "UnicodeError"; "ValueError"]
  | EUnicodeEncode => ["UnicodeEncodeError"; "UnicodeError"; "ValueError"]
  | EJSONDecode => ["JSONDecodeError"; "ValueError"]
  | ERuntime => ["RuntimeError"]
  | ERecursion => ["RecursionError"; "RuntimeError"]
  | ENotImplemented => ["NotImplementedError"; "RuntimeError"]
  | ESyntax => ["SyntaxError"]
  | EIndentation => ["IndentationError"; "SyntaxError"]
  | EOS => ["OSError"]
  | EFileNotFound => ["FileNotFoundError"; "OSError"]
  | EPermission => ["PermissionError"; "OSError"]
  | EKey => ["KeyError"; "LookupError"]
  | EIndex => ["IndexError"; "LookupError"]
  | EType => ["TypeError"]
  | EAttribute => ["AttributeError"]
  | EAssertion => ["AssertionError"]
  | EMemory => ["MemoryError"]
  | EZeroDivision => ["ZeroDivisionError"; "ArithmeticError"]
  | EOverflow => ["OverflowError"; "ArithmeticError"]
  | EStopIteration => ["StopIteration"]
  | ENameErr => ["NameError"]
  end ++ ["Exception"; "BaseException"].

Definition exc_name (e : exc) : string := hd "" (mro e).

Definition exc_eqb (a b : exc) : bool := String.eqb (exc_name a) (exc_name b).

(* `except (A, B):` catches e iff one of the names is in e's MRO *)
Definition catches (names : list string) (e : exc) : bool := existsb (fun n => smem n (mro e)) names.

(* first matching clause of an except table; None = the exception propagates *)
Definition dispatch (hs : list handler) (e : exc) : option hact :=
  match find (fun h => catches (fst h) e) hs with
  | Some h => Some (snd h)
  | None => None
  end.

Definition hact_eqb (a b : hact) : bool :=
  match a, b with
  | HReraise, HReraise | HReturnEmpty, HReturnEmpty | HReturnNone, HReturnNone | HViolation, HViolation => true
  | _, _ => false
  end.

(* ------------------------------------------------------------------ quirks *)
Record cquirks := {
  q_value_error_escapes : bool;   (* _safe_check_rule re-raises ValueError (and its subclasses) before the catch-all *)
  q_finalize_unguarded : bool     (* rule.finalize() is called outside any try: a failing finalize() aborts the run *)
}.
Definition ideal : cquirks := {| q_value_error_escapes := false; q_finalize_unguarded := false |}.

(* table-shaped deviation: the table of the code, or the same table without its re-raising clauses *)
Definition check_handlers (q : cquirks) : list handler :=
  if q_value_error_escapes q then safe_check_handlers
  else filter (fun h => negb (hact_eqb (snd h) HReraise)) safe_check_handlers.

(* is the finalize loop of the named orchestrator method inside a try?  (Gen table; absent = no) *)
Definition guard_of (fn : string) : bool :=
  match find (fun g => String.eqb fn (fst g)) finalize_guards with Some g => snd g | None => false end.
(* faithful: what the source says about the named method; demanded: a failing finalize() costs that rule's cross-file findings only *)
Definition fin_guard (q : cquirks) (fn : string) : bool :=
  if q_finalize_unguarded q then guard_of fn else true.

(* ------------------------------------------------------------------ rules as partial functions *)
Inductive outcome (A : Type) := Ok (a : A) | Fail (e : exc).
Arguments Ok {A} a.
Arguments Fail {A} e.

Definition viol : Type := (string * string * nat)%type.          (* rule id, file, line *)
Definition evid : Type := (string * nat)%type.                   (* file, datum: what a cross-file rule remembers *)
Definition cell : Type := (string * string * list viol)%type.    (* file, rule id, what the rule reported for the file *)
Definition logrec : Type := (string * string * string * string)%type.   (* where, rule, file, exception class: hook H1 *)

Definition cell_path (c : cell) : string := fst (fst c).
Definition cell_viols (c : cell) : list viol := snd c.

Record rule := {
  r_id : string;
  r_res : string -> outcome (list viol);       (* what check() returns / raises on this file *)
  r_contrib : string -> list evid;             (* evidence check() has stored for this file when it returns or raises *)
  r_final : list evid -> outcome (list viol);  (* finalize() on the accumulated store *)
  r_cross : bool                               (* the rule overrides finalize() (a cross-file rule) *)
}.

(* a rule that keeps the inherited finalize() stores nothing *)
Definition wf_rule (r : rule) : Prop := r_cross r = false -> forall p, r_contrib r p = [].

Definition ok_or_nil {A} (o : outcome (list A)) : list A := match o with Ok l => l | Fail _ => [] end.

(* ------------------------------------------------------------------ the orchestrator, sequential *)
(* _safe_check_rule *)
Definition safe_check (q : cquirks) (r : rule) (p : string) : outcome (list viol) * list logrec :=
  match r_res r p with
  | Ok vs => (Ok vs, [])
  | Fail e =>
      match dispatch (check_handlers q) e with
      | Some HReturnEmpty => (Ok [], [("rule", r_id r, p, exc_name e)])
      | _ => (Fail e, [])
      end
  end.

(* _execute_rules / lint_file: rules in registry order, the first escaping exception aborts *)
Fixpoint lint_file (q : cquirks) (rules : list rule) (p : string) : outcome (list cell) * list logrec :=
  match rules with
  | [] => (Ok [], [])
  | r :: rs =>
      match safe_check q r p with
      | (Fail e, l) => (Fail e, l)
      | (Ok vs, l) =>
          match lint_file q rs p with
          | (Ok cs, l') => (Ok ((p, r_id r, vs) :: cs), l ++ l')
          | (Fail e, l') => (Fail e, l ++ l')
          end
      end
  end.

(* first loop of lint_files *)
Fixpoint lint_all (q : cquirks) (rules : list rule) (files : list string) : outcome (list cell) * list logrec :=
  match files with
  | [] => (Ok [], [])
  | p :: ps =>
      match lint_file q rules p with
      | (Fail e, l) => (Fail e, l)
      | (Ok cs, l) =>
          match lint_all q rules ps with
          | (Ok cs', l') => (Ok (cs ++ cs'), l ++ l')
          | (Fail e, l') => (Fail e, l ++ l')
          end
      end
  end.

Definition store_of (r : rule) (files : list string) : list evid := List.concat (map (r_contrib r) files).

(* second loop of lint_files: finalize every rule on what it has collected *)
Fixpoint finalize_all (guarded : bool) (rules : list rule) (stores : rule -> list evid)
  : outcome (list (string * list viol)) * list logrec :=
  match rules with
  | [] => (Ok [], [])
  | r :: rs =>
      match r_final r (stores r) with
      | Fail e =>
          if guarded then
            match finalize_all guarded rs stores with
            | (Ok fs, l) => (Ok ((r_id r, []) :: fs), ("finalize", r_id r, "None", exc_name e) :: l)
            | (Fail e', l) => (Fail e', ("finalize", r_id r, "None", exc_name e) :: l)
            end
          else (Fail e, [])
      | Ok vs =>
          match finalize_all guarded rs stores with
          | (Ok fs, l) => (Ok ((r_id r, vs) :: fs), l)
          | (Fail e', l) => (Fail e', l)
          end
      end
  end.

Inductive run_result :=
| Completed (cells : list cell) (fins : list (string * list viol))
| Crashed (e : exc).

(* Orchestrator.lint_files *)
Definition run (q : cquirks) (rules : list rule) (files : list string) : run_result * list logrec :=
  match lint_all q rules files with
  | (Fail e, l) => (Crashed e, l)
  | (Ok cs, l) =>
      match finalize_all (fin_guard q "lint_files") rules (fun r => store_of r files) with
      | (Fail e, l') => (Crashed e, l ++ l')
      | (Ok fs, l') => (Completed cs fs, l ++ l')
      end
  end.

(* ------------------------------------------------------------------ the orchestrator, parallel path *)
(* _lint_file_worker around lint_file, then _extract_violations_from_future around future.result(): an exception
   that both tables re-raise aborts the run; one that a table swallows costs the file ALL its cells *)
Definition par_file (q : cquirks) (rules : list rule) (p : string) : outcome (list cell) * list logrec :=
  match lint_file q rules p with
  | (Ok cs, l) => (Ok cs, l)
  | (Fail e, l) =>
      let dropped := map (fun r => (p, r_id r, @nil viol)) rules in
      match dispatch worker_handlers e with
      | Some HReturnEmpty => (Ok dropped, l ++ [("worker", "None", p, exc_name e)])
      | _ =>
          match dispatch future_handlers e with
          | Some HReturnEmpty => (Ok dropped, l ++ [("future", "None", "None", exc_name e)])
          | _ => (Fail e, l)
          end
      end
  end.

Fixpoint par_all (q : cquirks) (rules : list rule) (files : list string) : outcome (list cell) * list logrec :=
  match files with
  | [] => (Ok [], [])
  | p :: ps =>
      match par_file q rules p with
      | (Fail e, l) => (Fail e, l)
      | (Ok cs, l) =>
          match par_all q rules ps with
          | (Ok cs', l') => (Ok (cs ++ cs'), l ++ l')
          | (Fail e, l') => (Fail e, l ++ l')
          end
      end
  end.

(* what the parent's rule objects have stored when it finalizes: with _collect_cross_file_evidence the cross-file rules
   are run again in the parent over all files; without it the parent's rules never see a file *)
Definition par_store (r : rule) (files : list string) : list evid :=
  if par_parent_collects && r_cross r then store_of r files else [].

(* lint_files_parallel above the worker threshold *)
Definition run_par (q : cquirks) (rules : list rule) (files : list string) : run_result * list logrec :=
  match par_all q rules files with
  | (Fail e, l) => (Crashed e, l)
  | (Ok cs, l) =>
      match (if par_parent_collects then lint_all q (filter r_cross rules) files else (Ok [], [])) with
      | (Fail e, l1) => (Crashed e, l ++ l1)
      | (Ok _, l1) =>
          match finalize_all (fin_guard q "_finalize_rules") rules (fun r => par_store r files) with
          | (Fail e, l2) => (Crashed e, l ++ l1 ++ l2)
          | (Ok fs, l2) => (Completed cs fs, l ++ l1 ++ l2)
          end
      end
  end.

(* ------------------------------------------------------------------ what the property demands *)
Definition spec_cells (rules : list rule) (files : list string) : list cell :=
  flat_map (fun p => map (fun r => (p, r_id r, ok_or_nil (r_res r p))) rules) files.

Definition spec_fins (rules : list rule) (files : list string) : list (string * list viol) :=
  map (fun r => (r_id r, ok_or_nil (r_final r (store_of r files)))) rules.

Definition spec_run (rules : list rule) (files : list string) : run_result :=
  Completed (spec_cells rules files) (spec_fins rules files).

(* every failing (rule, file) pair, in execution order: what hook H1 must show *)
Definition spec_log (rules : list rule) (files : list string) : list logrec :=
  flat_map (fun p => flat_map (fun r => match r_res r p with
                                        | Fail e => [("rule", r_id r, p, exc_name e)]
                                        | Ok _ => []
                                        end) rules) files.

(* exit status of a linter command *)
Definition flat_viols (cs : list cell) (fs : list (string * list viol)) : list viol :=
  flat_map cell_viols cs ++ flat_map snd fs.

Definition exit_code (r : run_result) : nat :=
  match r with
  | Crashed _ => cli_error_exit
  | Completed cs fs => match flat_viols cs fs with [] => 0 | _ => 1 end
  end.

(* ------------------------------------------------------------------ cross-file rules: compute / store order *)
Definition held_lookup (n : string) (held : list (string * list evid)) : list evid :=
  match find (fun h => String.eqb n (fst h)) held with Some h => snd h | None => [] end.

(* runs the steps of check(); returns whether it raised and what is in the store afterwards *)
Fixpoint run_ops (ops : list xop) (an : string -> outcome (list evid))
         (held : list (string * list evid)) (stored : list evid) : outcome unit * list evid :=
  match ops with
  | [] => (Ok tt, stored)
  | XPre n :: rest =>
      match an n with Fail e => (Fail e, stored) | Ok _ => run_ops rest an held stored end
  | XCompute n :: rest =>
      match an n with Fail e => (Fail e, stored) | Ok ev => run_ops rest an ((n, ev) :: held) stored end
  | XStore n :: rest => run_ops rest an held (stored ++ held_lookup n held)
  | XComputeStore n :: rest =>
      match an n with Fail e => (Fail e, stored) | Ok ev => run_ops rest an held (stored ++ ev) end
  end.

(* a cross-file rule given by its step list and, per file, its named analyses *)
Definition staged_rule (id : string) (ops : list xop) (an : string -> string -> outcome (list evid))
           (fin : list evid -> outcome (list viol)) : rule :=
  {| r_id := id;
     r_res := fun p => match fst (run_ops ops (an p) [] []) with Ok _ => Ok [] | Fail e => Fail e end;
     r_contrib := fun p => snd (run_ops ops (an p) [] []);
     r_final := fin;
     r_cross := true |}.

(* ------------------------------------------------------------------ language detection *)
Definition is_dot (c : ascii) : bool := Ascii.eqb c "."%char.

Definition lower_ascii (c : ascii) : ascii :=
  let n := nat_of_ascii c in if (65 <=? n) && (n <=? 90) then ascii_of_nat (n + 32) else c.

(* the part of l from its last dot on; None when l has no dot *)
Fixpoint suffix_aux (l : list ascii) : option (list ascii) :=
  match l with
  | [] => None
  | c :: t => match suffix_aux t with
              | Some s => Some s
              | None => if is_dot c then Some (c :: t) else None
              end
  end.

(* pathlib's PurePath.suffix of a final path component: i = name.rfind("."); 0 < i < len(name)-1 *)
Definition suffix_chars (name : list ascii) : list ascii :=
  match name with
  | [] => []
  | _ :: t => match suffix_aux t with
              | Some (d :: (_ :: _) as r) => d :: r
              | _ => []
              end
  end.

Definition ext_of (name : string) : string :=
  let s := suffix_chars (list_ascii_of_string name) in
  string_of_list_ascii (if detect_ext_lowered then map lower_ascii s else s).

Fixpoint assoc (k : string) (l : list (string * string)) : option string :=
  match l with
  | [] => None
  | (a, b) :: t => if String.eqb k a then Some b else assoc k t
  end.

(* read_text() translates \r\n and \r to \n before `.split(first_line_sep)[0]`: with the separator "\n"
   the first line ends at the first CR or LF *)
Definition is_eol (c : ascii) : bool := (nat_of_ascii c =? 10) || (nat_of_ascii c =? 13).
Fixpoint take_line (l : list ascii) : list ascii :=
  match l with [] => [] | c :: t => if is_eol c then [] else c :: take_line t end.
Definition first_line (content : string) : string := string_of_list_ascii (take_line (list_ascii_of_string content)).

Fixpoint prefixb (p s : string) : bool :=
  match p, s with
  | EmptyString, _ => true
  | String a p', String b s' => Ascii.eqb a b && prefixb p' s'
  | _, EmptyString => false
  end.
Fixpoint containsb (needle s : string) : bool :=
  prefixb needle s || match s with EmptyString => false | String _ s' => containsb needle s' end.

(* _parse_shebang_language *)
Definition shebang_lang (line : string) : option string :=
  if prefixb shebang_prefix line then
    match find (fun nl => containsb (fst nl) line) shebang_langs with
    | Some nl => Some (snd nl)
    | None => None
    end
  else None.

(* detect_language.  name = final path component; present = the path exists; content = the file's bytes;
   decodes = the bytes are valid UTF-8 (decoder = oracle) *)
Definition detect (name : string) (present : bool) (decodes : bool) (content : string) : string :=
  match assoc (ext_of name) extension_map with
  | Some l => l
  | None =>
      if (negb shebang_requires_no_ext || String.eqb (ext_of name) "")
         && present && cmp_nat shebang_size_cmp (String.length content) shebang_size_bound then
        match (if decodes then shebang_lang (first_line content) else None) with
        | Some l => l
        | None => unknown_language
        end
      else unknown_language
  end.

Definition detect_range : list string := map snd extension_map ++ map snd shebang_langs ++ [unknown_language].
