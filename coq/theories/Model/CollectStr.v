(* Model/CollectStr.v — the string / path primitives that the generated layer Gen/CollectGen.v and the
   collection model (C14) are expressed in.  Each mirrors one Python primitive used by
   src/orchestrator/core.py, src/linter_config/ignore.py and pattern_utils.py; each is validated
   against CPython on generated strings by the leaf level of the C14 correspondence check.
   Strings are handled as lists of characters (la / sa convert).  No proofs in this file. *)
From TL Require Import Lib.Base.

Definition la (s : string) : list ascii := list_ascii_of_string s.
Definition sa (l : list ascii) : string := string_of_list_ascii l.

Definition aeqb (a b : ascii) : bool := Ascii.eqb a b.

(* ---------- prefixes / suffixes : str.startswith, str.endswith *)
Fixpoint lprefix (p s : list ascii) : bool :=
  match p with
  | [] => true
  | c :: p' => match s with [] => false | d :: s' => aeqb c d && lprefix p' s' end
  end.

Definition starts_with (s p : string) : bool := lprefix (la p) (la s).
Definition ends_with (s suf : string) : bool := lprefix (rev (la suf)) (rev (la s)).

Definition is_empty (s : string) : bool := match s with EmptyString => true | _ => false end.
Definition nonempty (s : string) : bool := negb (is_empty s).

(* ---------- str.rstrip(chars), str.strip() *)
Fixpoint ldropwhile (f : ascii -> bool) (l : list ascii) : list ascii :=
  match l with [] => [] | c :: r => if f c then ldropwhile f r else l end.

Definition amem (c : ascii) (l : list ascii) : bool := existsb (aeqb c) l.

Definition rstrip_chars (s chars : string) : string :=
  sa (rev (ldropwhile (fun c => amem c (la chars)) (rev (la s)))).

(* Python's str.strip() on ASCII text: \t \n \v \f \r, \x1c-\x1f and the blank *)
Definition is_ws (c : ascii) : bool :=
  let n := nat_of_ascii c in ((9 <=? n) && (n <=? 13)) || ((28 <=? n) && (n <=? 32)).

Definition strip_ws (s : string) : string :=
  sa (rev (ldropwhile is_ws (rev (ldropwhile is_ws (la s))))).

(* ---------- joining and splitting paths *)
Definition slash : ascii := "/"%char.
Definition dot : ascii := "."%char.

Fixpoint ljoin (l : list (list ascii)) : list ascii :=
  match l with
  | [] => []
  | [x] => x
  | x :: r => x ++ slash :: ljoin r
  end.

(* the string of a PurePosixPath built from a non-empty list of plain components *)
Definition pjoin (comps : list string) : string := sa (ljoin (map la comps)).

(* split at every "/" (result is never empty) *)
Fixpoint lsplit (cur : list ascii) (s : list ascii) : list (list ascii) :=
  match s with
  | [] => [rev cur]
  | c :: r => if aeqb c slash then rev cur :: lsplit [] r else lsplit (c :: cur) r
  end.

Definition lnil (l : list ascii) : bool := match l with [] => true | _ => false end.
Definition is_dot (l : list ascii) : bool := match l with [c] => aeqb c dot | _ => false end.

(* PurePosixPath(path).parts : empty and "." components vanish, a leading "/" is a part of its own *)
Definition path_parts (path : string) : list string :=
  let l := la path in
  (match l with c :: _ => if aeqb c slash then ["/"] else [] | [] => [] end)
  ++ map sa (filter (fun x => negb (lnil x) && negb (is_dot x)) (lsplit [] l)).

(* str(Path(path)) *)
Definition path_norm (path : string) : string :=
  match path_parts path with
  | [] => "."
  | "/" :: r => String slash (pjoin r)
  | r => pjoin r
  end.

(* ---------- PurePath.suffix of a single name:  i = name.rfind("."); name[i:] if 0 < i < len-1 else "" *)
Fixpoint span_nodot (l : list ascii) : list ascii * list ascii :=
  match l with
  | [] => ([], [])
  | c :: r => if aeqb c dot then ([], l) else let '(a, b) := span_nodot r in (c :: a, b)
  end.

Definition name_suffix (name : string) : string :=
  let '(ext_rev, rest) := span_nodot (rev (la name)) in
  match rest with
  | _dot :: before =>
      if lnil ext_rev || lnil before then "" else sa (dot :: rev ext_rev)
  | [] => ""
  end.

(* Path.suffix of a path given by its parts *)
Definition parts_suffix (parts : list string) : string := name_suffix (last parts "").

(* ---------- the gates of Orchestrator.lint_file, in source order *)
(* GHard: _is_hardcoded_excluded on the path inside the project; GHardAbs: on the path as given (parents included) *)
Inductive gate := GHard | GHardAbs | GIgnored | GOther.
Definition gate_eqb (a b : gate) : bool :=
  match a, b with GHard, GHard | GHardAbs, GHardAbs | GIgnored, GIgnored | GOther, GOther => true | _, _ => false end.

(* pattern[k:] *)
Definition sdrop (k : nat) (s : string) : string := sa (skipn k (la s)).

Fixpoint str_eq_list (a b : list string) : bool :=
  match a, b with
  | [], [] => true
  | x :: a', y :: b' => String.eqb x y && str_eq_list a' b'
  | _, _ => false
  end.
