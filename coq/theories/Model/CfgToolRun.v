(* Model/CfgToolRun.v — judging correspondence cases of C20 inside the kernel's VM.
   judge_init: one `init-config` run on an existing file (and its repetition);
   judge_hist: one history of config set/get/reset commands;
   judge_conv / judge_extract / judge_mergefn: unit level (value conversion, section extraction, text splice). *)
From TL Require Import Lib.Base Lib.GenTypes Model.CfgTypes Gen.CfgToolGen Model.CfgMerge Model.CfgCli.

Definition with_flag (i : nat) (q : cquirks) : cquirks :=
  match i with
  | 0 => Build_cquirks false (q_append_to_flow_root q) (q_insert_mid_entry q) (q_cli_raw_key q)
  | 1 => Build_cquirks (q_missing_by_raw_key q) false (q_insert_mid_entry q) (q_cli_raw_key q)
  | 2 => Build_cquirks (q_missing_by_raw_key q) (q_append_to_flow_root q) false (q_cli_raw_key q)
  | _ => Build_cquirks (q_missing_by_raw_key q) (q_append_to_flow_root q) (q_insert_mid_entry q) false
  end.

(* candidates: the claimed vector, the claimed vector with one flag switched off, the ideal *)
Definition init_candidates (q : cquirks) : list cquirks := q :: map (fun i => with_flag i q) [0; 1; 2] ++ [ideal].
Definition hist_candidates (q : cquirks) : list cquirks := [q; with_flag 3 q; ideal].

Definition all_true (l : list bool) : bool := forallb (fun b => b) l.

(* result: [7 specification bits of the observed run] ++ [ideal model meets the specification on E]
           ++ [observed run = model c, for each candidate c] ++ [E is in the modelled subset; so is R] *)
Definition judge_init (q : cquirks) (preset : string) (E : list string)
           (rc : nat) (names : list string) (R : list string) (rc2 : nat) (R2 : list string) : list bool :=
  match lookup preset presets with
  | None => []
  | Some reps =>
    let secs := preset_sections reps in
    let rE := analyse E in
    let rR := if lines_eqb R E then rE else analyse R in
    let rT := analyse (gen_content reps) in
    (* a candidate reproduces the observation when its first run gives rc/names/R and its second run, started from that
       same R, gives rc2/R2 *)
    let same (c : cquirks) :=
        let r := init_from c secs E rE in
        (rc =? result_rc r) && lines_eqb names (result_names r) && lines_eqb R (result_file E r) &&
        (* whether a file with re-combined entries still parses is the YAML parser's call: no prediction then *)
        (if known_entries_r rE rR rT then
           let r2 := init_from c secs R rR in (rc2 =? result_rc r2) && lines_eqb R2 (result_file R r2)
         else true) in
    let ri := init_from ideal secs E rE in
    let Ri := result_file E ri in
    let rRi := if lines_eqb Ri R then rR else if lines_eqb Ri E then rE else analyse Ri in
    let ri2 := init_from ideal secs Ri rRi in
    spec_bits_r E R R2 rE rR rT
    ++ [all_true (spec_bits_r E Ri (result_file Ri ri2) rE rRi rT)]
    ++ map same (init_candidates q)
    ++ [struct_r rE; struct_r rR]
  end.

(* result: [specification bits per step of the observed trace; [ideal model trace meets the specification];
            [observed trace = model c trace, per candidate]; [every set text is in conv_domain]] *)
Definition judge_hist (q : cquirks) (explicit : bool) (f0 : option cfg) (cs : list cmd) (os : list obs) : list (list bool) :=
  let same (c : cquirks) := list_eqb obs_eqb os (run c explicit f0 cs) in
  [ spec_trace [] f0 cs os;
    [all_true (spec_trace [] f0 cs (run ideal explicit f0 cs))];
    map same (hist_candidates q);
    (* are all texts in the domain on which the model predicts int()/float()? *)
    [forallb (fun c => match c with CSet _ t => conv_domain t | _ => true end) cs] ].

Definition judge_conv (t : string) (v : cval) : list bool := [conv_domain t; cval_eqb (convert t) v].

Definition sec_eqb (a b : string * list string) : bool := String.eqb (fst a) (fst b) && lines_eqb (snd a) (snd b).
Definition judge_extract (ls : list string) (impl : list (string * list string)) : list bool :=
  [list_eqb sec_eqb impl (extract ls)].

Definition judge_mergefn (q : cquirks) (E : list string) (texts : list (list string)) (impl : list string) : list bool :=
  [lines_eqb impl (merge_lines q E (join_texts section_join_newlines texts))].
