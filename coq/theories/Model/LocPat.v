(* Model/LocPat.v — C12: location models of pattern linters.  No proofs in this file.

   (1) Python pattern linters (lbyl, method-property, stateless-class, collection-pipeline).  Which nodes a detector
       selects is C19's business and stays an ORACLE here (`sel`); what is modelled is the step from the selected node to
       the reported position: the node is of the class(es) read from the source (Gen/LocPatGen.v: pat_sites), the line
       and column are computed from THAT node's lineno / col_offset by the generated expressions, the quoted name is
       its name.  Abstract input: the image of the Python parse tree (Model/Embed.v).

   (2) The TypeScript console detector (print_statements/typescript_analyzer.py) in full: _collect_console_calls,
       _extract_console_method, _is_console_object, _get_matching_method, _find_object_node and find_child_by_type,
       transcribed over the image of the tree-sitter tree; node types, the object name and the default method set come
       from Gen (the source shape itself is template-checked by the translator). *)
From TL Require Import Lib.Base Lib.GenTypes Model.LocTypes Gen.LocGen Gen.LocPatGen Model.Loc Model.Embed.

(* ------------------------------------------------------------------ (1) Python pattern linters *)
Definition prep := (nat * nat * string)%type.          (* line, column, name of the node *)
Definition prep_eqb (a b : prep) : bool :=
  match a, b with (l1, c1, n1), (l2, c2, n2) => (l1 =? l2) && (c1 =? c2) && String.eqb n1 n2 end.

Record psite := { ps_classes : list string; ps_line : lexpr; ps_col : cexpr }.

Fixpoint lookup_site (k : string) (l : list (string * list string * lexpr * cexpr)) : option psite :=
  match l with
  | [] => None
  | (k', cl, le, ce) :: r => if String.eqb k k' then Some {| ps_classes := cl; ps_line := le; ps_col := ce |} else lookup_site k r
  end.
Definition site_of (linter : string) : option psite := lookup_site linter pat_sites.

(* ast line numbers are 1-based: the 0-based row of a node is lineno - 1 *)
Definition pat_emit (s : psite) (sel : ast -> bool) (t : ast) : list prep :=
  if smem (ncls t) (ps_classes s) && sel t
  then [(eval_line (ps_line s) (line (ninfo t) - 1), eval_col (ps_col s) (col (ninfo t)), nsval t)]
  else [].

Fixpoint pat_walk (s : psite) (sel : ast -> bool) (t : ast) : list prep :=
  match t with Node i ks => pat_emit s sel (Node i ks) ++ flat_map (pat_walk s sel) ks end.
Definition pat_reports (s : psite) (sel : ast -> bool) (file : list ast) : list prep := flat_map (pat_walk s sel) file.

(* judging the implementation: every reported (line, column, quoted name - "" when the message quotes none) is what the
   model emits for some node of the file when the selection oracle accepts everything *)
Definition pat_hit (s : psite) (file : list ast) (r : prep) : bool :=
  let '(l, c, n) := r in
  existsb (fun m => let '(l', c', n') := m in (l =? l') && (c =? c') && (String.eqb n "" || String.eqb n n')) (pat_reports s (fun _ => true) file).
Definition judge_pat (linter : string) (file : list ast) (rs : list prep) : list bool :=
  match site_of linter with
  | None => map (fun _ => false) rs
  | Some s => map (pat_hit s file) rs
  end.

(* ------------------------------------------------------------------ (2) the TypeScript console detector *)
(* image of a tree-sitter node: type, start row / column (0-based), text (only kept for leaves), children *)
Inductive tnode := TN (ty : string) (row col : nat) (text : string) (kids : list tnode).
Definition tty (n : tnode) : string := match n with TN ty _ _ _ _ => ty end.
Definition trow (n : tnode) : nat := match n with TN _ r _ _ _ => r end.
Definition tcol (n : tnode) : nat := match n with TN _ _ c _ _ => c end.
Definition ttext (n : tnode) : string := match n with TN _ _ _ t _ => t end.
Definition tkids (n : tnode) : list tnode := match n with TN _ _ _ _ ks => ks end.

(* find_child_by_type *)
Definition first_child (ty : string) (n : tnode) : option tnode := find (fun k => String.eqb (tty k) ty) (tkids n).

(* _extract_console_method *)
Definition console_method (methods : list string) (n : tnode) : option string :=
  match first_child console_member_type n with
  | None => None
  | Some f =>
    match first_child console_object_type f with          (* _find_object_node / _is_console_object *)
    | None => None
    | Some o =>
      if String.eqb (ttext o) console_object_name then
        match first_child console_property_type f with     (* _get_matching_method *)
        | None => None
        | Some m => if smem (ttext m) methods then Some (ttext m) else None
        end
      else None
    end
  end.

Definition crep := (nat * nat * string)%type.           (* line, column, method *)
Definition console_line : lexpr := match builder "print.ts" with Some (le, _) => le | None => LConst 0 end.
Definition console_col : cexpr := match builder "print.ts" with Some (_, ce) => ce | None => CConst 0 end.

(* _collect_console_calls *)
Fixpoint console_collect (methods : list string) (n : tnode) : list crep :=
  match n with
  | TN ty row col text ks =>
    (if String.eqb ty console_call_type then
       match console_method methods (TN ty row col text ks) with
       | Some m => [(eval_line console_line row, eval_col console_col col, m)]
       | None => []
       end
     else []) ++ flat_map (console_collect methods) ks
  end.

Definition judge_console (methods : list string) (root : tnode) (impl : list crep) : list bool :=
  [ms_eqb prep_eqb impl (console_collect methods root)].

(* short constructors for the harness *)
Definition PN (cls : string) (l c : nat) (name : string) : ast := Node (mkI "" cls l c name "") [].
