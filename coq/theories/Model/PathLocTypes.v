(* Model/PathLocTypes.v — the small types the generated layer Gen/PathLocGen.v is expressed in
   (property C09: path-spelling and project-location independence).  Definitions only. *)
From TL Require Import Lib.Base.

(* which string / component list a path predicate of the source looks at (read off the source by the translator) *)
Inductive pscope :=
| ScGivenParts      (* `file_path.parts` of the path exactly as it reached lint_file *)
| ScProjectRelParts (* parts of the path re-rooted at the project root (the shape of proposed_fixes/C09-exclusion-inside-project.diff) *)
| ScGivenStr        (* `str(file_path)` of the path as given *)
| ScGivenName       (* `file_path.name` / last component *)
| ScResolvedStr.    (* `str(file_path.resolve())`: the absolute, normalised spelling *)

(* how a per-linter ignore list is applied to a path (one constructor per idiom found in the source) *)
Inductive ikind :=
| INone                 (* the linter has no path ignore list *)
| ISubstr               (* any(p in str(path) for p in patterns) *)
| IMatchOrSubstr        (* Path(path).match(p) or p in str(path) *)
| IFnmatchOrSubstr      (* fnmatch(str(path), p) or p in str(path) *)
| IFileHeader           (* file-header: Path.match(p) | `**/d/**` with d in path.parts | `**/f` with name == f or str.endswith(f) | p in str(path) *)
| IFpDirPrefix.         (* file-placement: str(relative path).startswith(directory key)  (a match makes the rule APPLY) *)

(* a test-file exemption: true when any listed test succeeds *)
Record tspec := {
  t_str_contains : list string;            (* m in str(path) *)
  t_str_starts : list string;              (* str(path).startswith(m) *)
  t_name_starts : list string;             (* name.startswith(m) *)
  t_name_contains : list string;           (* m in name *)
  t_name_ends : list string;               (* name.endswith(m) *)
  t_name_starts_ends : list (string * string) (* name.startswith(a) and name.endswith(b) *)
}.

Definition t_none : tspec := Build_tspec [] [] [] [] [] [].

Inductive lang := LPy | LTs | LRs | LOther.

(* the path-dependent decisions of one linter command *)
Record cmdsig := {
  cs_name : string;
  cs_ikind : ikind;
  cs_ignore_from_config : bool;      (* true: the list comes from the project's config section (default when absent: cs_default_ignore) *)
  cs_default_ignore : list string;
  cs_test_py : tspec;
  cs_test_ts : tspec;
  cs_test_rs : tspec;
  cs_cwd_parser : bool               (* the rule object calls get_ignore_parser() without a project root *)
}.

(* project-root markers in search order: (name, must-be-a-directory) *)
Definition marker := (string * bool)%type.
