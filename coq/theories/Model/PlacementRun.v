(* Model/PlacementRun.v — judging correspondence cases of C18 inside the kernel's VM.
   The regex engine is given as two finite tables (tabulated by the harness with Python's re):
   mt : (pattern, path) -> re.search(pattern, path, IGNORECASE) is not None,  vt : pattern -> re.compile succeeds.
   For one configuration and a list of (file, implementation outcome) the harness gets back, per file,
   [impl = spec ; model ideal = spec ; impl = model q for each candidate q]. *)
From Coq Require Import ZArith.
From TL Require Import Lib.Base Lib.GenTypes Model.PlacementTypes Gen.PlacementGen Model.Placement Model.PlacementSource.

Definition tbl_matches (t : list (string * string * bool)) (pat s : string) : bool :=
  match find (fun e => String.eqb pat (fst (fst e)) && String.eqb s (snd (fst e))) t with
  | Some e => snd e
  | None => false
  end.

Definition tbl_valid (t : list (string * bool)) (pat : string) : bool :=
  match find (fun e => String.eqb pat (fst e)) t with Some e => snd e | None => true end.

Definition with_flag (i : nat) (q : pquirks) : pquirks :=
  let off (k : nat) (b : bool) := if i =? k then false else b in
  Build_pquirks (off 0 (q_global_on_covered q)) (off 1 (q_prefix_without_separator q)) (off 2 (q_path_relative_to_cwd q))
                (off 3 (q_allow_dict_unsupported q)) (off 4 (q_trailing_slash_depth q)) (off 5 (q_backslash_separator q)).

(* candidates: the claimed vector, the claimed vector with one flag switched off, the ideal *)
Definition candidates (q : pquirks) : list pquirks := q :: map (fun i => with_flag i q) [0;1;2;3;4;5] ++ [ideal].

(* what the harness observed: a ValueError with its text, a swallowed internal failure, or the violations *)
Inductive ioutcome := IRejected (msg : string) | ICrashed | IReports (l : list rep).

Definition rep_eqb (a b : rep) : bool :=
  match a, b with
  | (f1, l1, c1, m1), (f2, l2, c2, m2) => String.eqb f1 f2 && (l1 =? l2) && (c1 =? c2) && String.eqb m1 m2
  end.

Fixpoint reps_eqb (a b : list rep) : bool :=
  match a, b with
  | [], [] => true
  | x :: xs, y :: ys => rep_eqb x y && reps_eqb xs ys
  | _, _ => false
  end.

Definition agrees_model (i : ioutcome) (o : outcome) : bool :=
  match i, o with
  | IRejected msg, Rejected p => starts_with (render_until_err fp_invalid_msg p) msg
  | ICrashed, Crashed => true
  | IReports a, Reports b => reps_eqb a b
  | _, _ => false
  end.

Definition agrees_spec (i : ioutcome) (s : soutcome) : bool :=
  match i, s with
  | IRejected _, SRejected => true
  | IReports a, SReports b => reps_eqb a b
  | _, _ => false
  end.

Definition soutcome_eqb (a b : soutcome) : bool :=
  match a, b with
  | SRejected, SRejected => true
  | SCrashed, SCrashed => true
  | SReports x, SReports y => reps_eqb x y
  | _, _ => false
  end.

(* compact tables of the correspondence check: the patterns of the rule set once, and per file one row of
   booleans (aligned with the pattern list) for each of the strings the file can be judged under: its
   root-relative path, the path as handed over, and what the implementation's normalize_path_string makes of
   either (the harness calls the real function and passes the resulting strings along with their rows) *)
Fixpoint lookup (pat : string) (pats : list string) (row : list bool) (dflt : bool) : bool :=
  match pats, row with
  | p :: ps, b :: bs => if String.eqb pat p then b else lookup pat ps bs dflt
  | _, _ => dflt
  end.

Definition row_matches (pats : list string) (s1 : string) (r1 : list bool) (s2 : string) (r2 : list bool)
           (pat s : string) : bool :=
  if String.eqb s s1 then lookup pat pats r1 false
  else if String.eqb s s2 then lookup pat pats r2 false else false.

(* one observed file: the file, rows for relpath / rest, the two normalised strings with their rows, the outcome *)
Definition frun := (fileq * list bool * list bool * (string * list bool) * (string * list bool) * ioutcome)%type.

Definition rows_matches (pats : list string) (f : fileq) (r1 r2 : list bool) (n1 n2 : string * list bool)
           (pat s : string) : bool :=
  if String.eqb s (relpath f) then lookup pat pats r1 false
  else if String.eqb s (f_rest f) then lookup pat pats r2 false
  else if String.eqb s (fst n1) then lookup pat pats (snd n1) false
  else if String.eqb s (fst n2) then lookup pat pats (snd n2) false else false.

Definition judge (q : pquirks) (pats : list string) (vrow : list bool)
           (c : config) (runs : list frun) : list (list bool) :=
  let valid := fun pat => lookup pat pats vrow true in
  map (fun fi => let '(f, r1, r2, n1, n2, i) := fi in
         let matches := rows_matches pats f r1 r2 n1 n2 in
         let s := spec valid matches c f in
         agrees_spec i s
         :: soutcome_eqb (forget (run valid matches ideal c f)) s
         :: map (fun cq => agrees_model i (run valid matches cq c f)) (candidates q))
      runs.

(* ---------------------------------------------------------------- cases with a rule-set source (config file + --rules) *)
Definition swith_flag (i : nat) (q : squirks) : squirks :=
  Build_squirks (if i =? 0 then false else q_rules_toplevel_ignored q) (if i =? 1 then false else q_rules_do_not_override_file q).

(* candidates: the claimed vectors, each of the eight flags switched off alone, the ideal *)
Definition candidates_src (q : pquirks) (sq : squirks) : list (pquirks * squirks) :=
  (q, sq) :: map (fun i => (with_flag i q, sq)) [0;1;2;3;4;5] ++ map (fun i => (q, swith_flag i sq)) [0;1] ++ [(ideal, sideal)].

Definition judge_src (q : pquirks) (sq : squirks) (pats : list string) (vrow : list bool)
           (s : source) (runs : list frun) : list (list bool) :=
  let valid := fun pat => lookup pat pats vrow true in
  map (fun fi => let '(f, r1, r2, n1, n2, i) := fi in
         let matches := rows_matches pats f r1 r2 n1 n2 in
         let sp := spec_src valid matches s f in
         agrees_spec i sp
         :: soutcome_eqb (forget (run_src valid matches ideal sideal s f)) sp
         :: map (fun cq => agrees_model i (run_src valid matches (fst cq) (snd cq) s f)) (candidates_src q sq))
      runs.
