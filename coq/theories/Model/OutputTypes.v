(* Model/OutputTypes.v — the types the generated layer Gen/OutputGen.v is expressed in (C06):
   expressions over one violation (leaves), dict-literal templates of the JSON / SARIF renderers,
   f-string parts of the text renderer, the dispatch of format_violations.  Definitions only. *)
From TL Require Import Lib.Base.
From Coq Require Import ZArith.

(* the attributes of src.core.types.Violation a renderer reads (severity through `.severity.name`) *)
Inductive vfield := FRule | FFile | FLine | FCol | FMsg | FSev.

(* an expression over one violation: v.f | _sanitize_string(e) | e + k *)
Inductive leaf :=
| LField (f : vfield)
| LSan (l : leaf)
| LPlus (l : leaf) (k : Z).

(* top-level entries of the JSON document *)
Inductive jtop := JTViolations | JTTotal.

(* a dict / list literal of SarifFormatter: constants, self attributes, locals, nested literals,
   self._m(violation), self._m(violations), [self._m(v) for v in violations] *)
Inductive tmpl :=
| TStr (s : string)
| TLeaf (l : leaf)
| TSelf (name : string)
| TLocal (name : string)
| TObj (fields : list (string * tmpl))
| TArr (items : list tmpl)
| TCallOne (m : string)
| TCallAll (m : string)
| TMapAll (m : string).

(* value of a `self.X`: a constant found in the class, or the installed package version *)
Inductive selfattr := SConst (s : string) | SEnvVersion.

(* parts of an f-string of the text renderer *)
Inductive fpart := PLit (s : string) | PLeaf (l : leaf) | PLocal (name : string) | PLen.

Inductive renderer := RText | RJson | RSarif.

(* _create_rules: one rule per first occurrence of a rule id, or one per violation *)
Inductive rules_mode := RulesFirstOccurrence | RulesEvery.
