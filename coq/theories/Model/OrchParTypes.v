(* Model/OrchParTypes.v — the types the generated layer Gen/OrchParGen.v is expressed in (C07):
   Python values carried by the fields of a Violation, the transformations and dictionary accesses
   used by Violation.to_dict / from_dict, and the rule-id filters of the CLI commands. *)
From TL Require Import Lib.Base.

(* a value of a Violation field as it crosses the process boundary (pickled, so types are kept) *)
Inductive pyval :=
| VStr (s : string)                   (* str *)
| VPath (s : string)                  (* pathlib.Path *)
| VInt (neg : bool) (n : nat)         (* int *)
| VNone
| VEnum (cls member : string)         (* an Enum member, e.g. Severity.ERROR *)
| VOther (repr : string).             (* anything else, by type name and repr *)

(* what to_dict / from_dict do to a field value *)
Inductive vtrans :=
| TId                                 (* self.f            /  data[k]            *)
| TEnumValue                          (* self.f.value                             *)
| TEnumOfValue.                       (*                      Severity(data[k])   *)

Inductive daccess := DIndex (* data[k]: KeyError when absent *) | DGet (* data.get(k): None when absent *).

(* `v.rule_id.startswith(p)` / `p in v.rule_id` *)
Inductive rfilter := FStartsWith (p : string) | FContains (p : string).

(* how `--format json` shows a field: as is, through str(), or the name of the Enum member *)
Inductive jtrans := JId | JStr | JEnumName.

(* which rule instances of its registry the parent's evidence loop (_collect_cross_file_evidence) feeds:
   those whose class overrides finalize (`type(r).finalize is not BaseLintRule.finalize`), or all of them *)
Inductive psel := SelOverridesFinalize | SelAll.
