(* Model/PrintStmt.v — executable model of the Python side of src/linters/print_statements
   (PythonPrintStatementAnalyzer.find_print_calls / is_in_main_block and the guard in
   PrintStatementRule._try_create_python_violation), as a walker in the sense of Model/Embed.v:
     summary  = "some proper ancestor is an `if __name__ == "__main__":` statement"
     emit     = a print call (print(...) or builtins.print(...)) unless scripts are allowed and the summary is set.
   Class names, identifiers, the compared constant, the operator count, rule id, message and the default
   of allow_in_scripts come from Gen/EmbedGen.v.  Leaf tests look at position-erased subtrees only.
   Inline ignore directives (C04) are outside this model: inputs carry none.  No proofs in this file. *)
From TL Require Import Lib.Base Lib.GenTypes Gen.EmbedGen Model.Embed.

(* positions forgotten: what the leaf tests are allowed to see *)
Definition erase_info (i : info) : info := mkI (role i) (cls i) 0 0 (sval i) (ckind i).
Fixpoint erase (t : ast) : ast := match t with Node i ks => Node (erase_info i) (map erase ks) end.

Definition is_cls (c : string) (t : ast) : bool := String.eqb (ncls t) c.
Definition named (c s : string) (t : ast) : bool := String.eqb (ncls t) c && String.eqb (nsval t) s.

(* _is_simple_print / _is_builtins_print / is_print_call *)
Definition is_simple_print (call : ast) : bool :=
  match field "func" call with [f] => named pr_simple_cls pr_simple_id f | _ => false end.
Definition is_builtins_print (call : ast) : bool :=
  match field "func" call with
  | [f] => named pr_attr_cls pr_attr_name f
           && match field "value" f with [b] => named pr_base_cls pr_base_id b | _ => false end
  | _ => false
  end.
Definition is_print_call (call : ast) : bool := is_simple_print call || is_builtins_print call.

(* _is_main_comparison on the Compare node *)
Definition is_main_comparison (c : ast) : bool :=
  match field "left" c with [l] => named main_left_cls main_left_id l | _ => false end
  && (List.length (field "ops" c) =? main_ops_len)
  && match field "ops" c with o :: _ => is_cls main_op_cls o | [] => false end
  && (List.length (field "comparators" c) =? main_cmps_len)
  && match field "comparators" c with
     | k :: _ => named main_cmp_cls main_cmp_value k && String.eqb (nckind k) "str"
     | [] => false
     end.
(* is_main_if_block *)
Definition is_main_if (t : ast) : bool :=
  is_cls main_if_cls t
  && match field "test" t with [c] => is_cls main_test_cls c && is_main_comparison c | _ => false end.

Definition pr_step (s : bool) (t : ast) : bool :=
  s || (is_cls main_if_cls t && is_main_if (erase t)).

Definition pr_emit (allow_in_scripts : bool) (s : bool) (t : ast) : list rep :=
  if is_cls pr_call_cls t && is_print_call (erase t) && negb (allow_in_scripts && s)
  then [(line (ninfo t), col (ninfo t), "", "")] else [].

(* the reports of rule pr_rule_id on a module body: (line, column) of every offending call *)
Definition print_reports (allow_in_scripts : bool) (file : list ast) : list rep :=
  detectF pr_step (pr_emit allow_in_scripts) false file.

Definition print_default (file : list ast) : list rep := print_reports pr_allow_in_scripts_default file.

(* ------------------------------------------------------------------ contexts the locality theorem covers *)
(* no wrapper is a call, and an `if` wrapper carries a test that is not `__name__ == "__main__"` *)
Definition nonmain_test (pre : list ast) : bool :=
  match filter (fun k => String.eqb (nrole k) "test") pre with
  | c :: _ => negb (is_cls main_test_cls (erase c) && is_main_comparison (erase c))
  | [] => false
  end.
Definition pr_wrap_ok (i : info) (pre : list ast) : bool :=
  negb (String.eqb (cls i) pr_call_cls) && (negb (String.eqb (cls i) main_if_cls) || nonmain_test pre).
Fixpoint pr_ctx_ok (c : ctx) : bool :=
  match c with
  | Hole => true
  | Wrap i pre _ _ _ c' => pr_wrap_ok i pre && pr_ctx_ok c'
  | Seq _ _ c' _ => pr_ctx_ok c'
  end.

