(* Model/LocTsPat.v — C12: location model of TypeScript pattern linters (string-concat-in-loop, CQS).  No proofs in this file.

   As for the Python pattern linters (Model/LocPat.v part 1): which nodes a detector selects is an ORACLE (`sel`; for CQS that is
   C19's business); what is modelled is the step from the selected node to the reported position: the node is of the tree-sitter
   type(s) read from the source (Gen/LocTsPatGen.v: ts_pat_sites), line and column are computed from THAT node's start_point by the
   generated expressions.  Abstract input: the image of the tree-sitter tree (Model/LocPat.v: tnode). *)
From TL Require Import Lib.Base Lib.GenTypes Model.LocTypes Gen.LocGen Gen.LocPatGen Model.Loc Model.Embed Model.LocPat Gen.LocTsPatGen.

Definition tsite_of (linter : string) : option psite := lookup_site linter ts_pat_sites.

Definition tpos := (nat * nat)%type.          (* reported line, column *)

Definition tpat_emit (s : psite) (sel : tnode -> bool) (n : tnode) : list tpos :=
  if smem (tty n) (ps_classes s) && sel n
  then [(eval_line (ps_line s) (trow n), eval_col (ps_col s) (tcol n))]
  else [].

Fixpoint tpat_walk (s : psite) (sel : tnode -> bool) (n : tnode) : list tpos :=
  match n with
  | TN ty row col text ks => tpat_emit s sel (TN ty row col text ks) ++ flat_map (tpat_walk s sel) ks
  end.

(* judging the implementation: every reported (line, column) is what the model emits for some node of the tree when the selection
   oracle accepts everything *)
Definition tpat_hit (s : psite) (root : tnode) (r : tpos) : bool :=
  existsb (fun m => (fst r =? fst m) && (snd r =? snd m)) (tpat_walk s (fun _ => true) root).
Definition judge_tpat (linter : string) (root : tnode) (rs : list tpos) : list bool :=
  match tsite_of linter with
  | None => map (fun _ => false) rs
  | Some s => map (tpat_hit s root) rs
  end.
