(* Model/OrchParRules.v — the orchestrator at the level of RULE INSTANCES (C07): what Model/OrchPar.v takes as the
   abstract tables perfile / collect / report is computed here from a registry of stateful rule objects, following
   Orchestrator.lint_file, _execute_rules, _safe_check_rule, lint_files, _collect_cross_file_evidence and _finalize_rules.
   A rule instance carries its own state (DRYRule._storage, StringlyTypedRule._storage, caches ...): check(context) reports
   for the file AND may change that state; finalize() reports from it.  In the sequential run ONE set of instances sees all
   files one after the other; under --parallel every task builds a fresh Orchestrator (fresh instances) for ONE file, and
   the parent feeds its own instances in _collect_cross_file_evidence before _finalize_rules.  No proofs here. *)
From TL Require Import Lib.Base Lib.GenTypes Model.OrchParTypes Gen.OrchParGen Model.OrchPar.

(* what rule.check(context) does, as _safe_check_rule sees it *)
Inductive coutcome :=
| COk (vs : list violation)          (* returns a list *)
| CRaiseConfig                       (* raises an exception _safe_check_rule re-raises (Gen check_reraises: ValueError) *)
| CRaiseOther.                       (* raises an exception _safe_check_rule swallows (Gen check_swallows): logged, [] *)

Definition vs_of (o : coutcome) : list violation := match o with COk vs => vs | _ => [] end.
Definition raises (o : coutcome) : bool := match o with CRaiseConfig => true | _ => false end.

Section Rules.
  Variables file rstate : Type.

  (* a rule class: the state of a new instance, check, and finalize when the class overrides it
     (None = it inherits BaseLintRule.finalize, whose body is Gen base_finalize_result) *)
  Record rule := {
    r_init : rstate;
    r_check : rstate -> file -> coutcome * rstate;
    r_finalize : option (rstate -> list violation)
  }.

  Definition inst : Type := rule * rstate.                 (* a rule object in a registry *)
  Definition fresh (rules : list rule) : list inst := map (fun r => (r, r_init r)) rules.   (* RuleRegistry after discovery *)

  Definition overrides (r : rule) : bool := match r_finalize r with Some _ => true | None => false end.
  Definition fin_inst (i : inst) : list violation :=
    match r_finalize (fst i) with Some g => g (snd i) | None => base_finalize_result end.

  (* _finalize_rules / the finalize loop of lint_files: every registered instance in registry order *)
  Definition finalize_all (is : list inst) : list violation := List.concat (map fin_inst is).

  (* _execute_rules(rules, context) where `rules` are the instances of the registry that `sel` picks (all of them in
     lint_file): in order, each through _safe_check_rule; a re-raised exception aborts the call (None) *)
  Fixpoint exec_rules (sel : rule -> bool) (is : list inst) (f : file) : option (list violation * list inst) :=
    match is with
    | [] => Some ([], [])
    | (r, s) :: rest =>
      if sel r then
        let '(o, s') := r_check r s f in
        if raises o then None
        else match exec_rules sel rest f with
             | None => None
             | Some (vs, rest') => Some (vs_of o ++ vs, (r, s') :: rest')
             end
      else match exec_rules sel rest f with
           | None => None
           | Some (vs, rest') => Some (vs, (r, s) :: rest')
           end
    end.

  Definition all_rules (r : rule) : bool := true.

  (* lint_file: the two skip tests (Gen lint_file_skip_tests), then every registered rule *)
  Variable excluded ignored : file -> bool.
  Definition visible (f : file) : bool := negb (excluded f || ignored f).

  Variable rules : list rule.                              (* the rule classes discovery finds, in registry order *)

  (* the registry of an Orchestrator: empty until _ensure_rules_discovered runs (None), then one instance per class *)
  Definition registry : Type := option (list inst).
  Definition ensure (o : registry) : list inst := match o with Some is => is | None => fresh rules end.
  Definition list_all (o : registry) : list inst := match o with Some is => is | None => [] end.

  (* lint_file: the two skip tests, then discovery (_get_rules_for_file) and every registered rule *)
  Definition lint_file (o : registry) (f : file) : option (list violation * registry) :=
    if excluded f then Some ([], o)
    else if ignored f then Some ([], o)
    else match exec_rules all_rules (ensure o) f with
         | None => None
         | Some (vs, is') => Some (vs, Some is')
         end.

  (* the file loop of lint_files / lint_directory *)
  Fixpoint lint_loop (o : registry) (files : list file) : option (list violation * registry) :=
    match files with
    | [] => Some ([], o)
    | f :: fs =>
      match lint_file o f with
      | None => None
      | Some (vs, o') => match lint_loop o' fs with None => None | Some (ws, o'') => Some (vs ++ ws, o'') end
      end
    end.

  (* lint_files on a new Orchestrator: its finalize loop runs over registry.list_all() WITHOUT discovery - when no file
     got as far as the rules the registry is still empty *)
  Definition rseq_run (files : list file) : option (list violation) :=
    match lint_loop None files with
    | None => None
    | Some (vs, o) => Some (vs ++ finalize_all (list_all o))
    end.

  (* _lint_file_worker: new Orchestrator, lint_file, to_dict *)
  Definition rworker (q : pquirks) (f : file) : option (list pydict) :=
    worker_result q (option_map fst (lint_file None f)).

  (* _collect_cross_file_evidence (after _ensure_rules_discovered): the instances the selection picks (Gen parent_rule_selection) are run on every file
     the loop does not skip; what they return is discarded; a re-raised exception leaves the loop *)
  Definition selected (r : rule) : bool :=
    match parent_rule_selection with SelOverridesFinalize => overrides r | SelAll => true end.

  Variable parent_sees : file -> bool.       (* the raw-path skip test a source with parent_exclusion_like_lint_file = false uses *)
  Definition parent_visits (q : pquirks) (f : file) : bool := if parent_restricts q then parent_sees f else visible f.

  Fixpoint evidence_loop (q : pquirks) (is : list inst) (files : list file) : option (list inst) :=
    match files with
    | [] => Some is
    | f :: fs =>
      if parent_visits q f
      then match exec_rules selected is f with None => None | Some (_, is') => evidence_loop q is' fs end
      else evidence_loop q is fs
    end.

  Definition parent_phase (q : pquirks) (files : list file) : option (list violation) :=
    if crossfile_lost q then Some (finalize_all (fresh rules))
    else option_map finalize_all (evidence_loop q (fresh rules) files).

  (* lint_files_parallel on a new Orchestrator *)
  Definition rpar_run (q : pquirks) (mw : option nat) (cpu : nat) (sched : list nat) (files : list file)
    : option (list violation) :=
    match files with
    | [] => Some []
    | _ =>
      if below_threshold file mw cpu files then rseq_run files
      else match mapM (rworker q) files with
           | None => None
           | Some futs =>
             match parent_phase q files with
             | None => None
             | Some fin => Some (List.concat (apply_sched sched (map extract futs)) ++ fin)
             end
           end
    end.

  (* ---------- the abstract tables of Model/OrchPar.v, computed from the rules ---------- *)
  (* what the rules the selection picks report for f from new instances (None = one of them raises) *)
  Fixpoint rules_out (sel : rule -> bool) (rs : list rule) (f : file) : option (list violation) :=
    match rs with
    | [] => Some []
    | r :: rest =>
      if sel r then
        let o := fst (r_check r (r_init r) f) in
        if raises o then None else option_map (app (vs_of o)) (rules_out sel rest f)
      else rules_out sel rest f
    end.

  Definition r_perfile (f : file) : option (list violation) :=
    if visible f then rules_out all_rules rules f else Some [].

  Definition step_inst (sel : rule -> bool) (f : file) (i : inst) : inst :=
    if sel (fst i) then (fst i, snd (r_check (fst i) (snd i) f)) else i.

  Definition feed (sel : rule -> bool) (visits : file -> bool) (is : list inst) (files : list file) : list inst :=
    fold_left (fun is f => if visits f then map (step_inst sel f) is else is) files is.

  (* the evidence of a file is the file itself; the report is finalize of instances that were fed the files in order *)
  Definition r_report (files : list file) : list violation := finalize_all (feed all_rules visible (fresh rules) files).
End Rules.
