(* Model/NestingRun.v — judging one correspondence case inside the kernel's VM.
   For an abstract file, a language and a list of (limit, implementation output) the harness
   gets back, per limit:  [impl = spec ; model ideal = spec ; impl = model q for each candidate q]. *)
From TL Require Import Lib.Base Lib.GenTypes Gen.NestingGen Model.Skel Model.Nesting.

Definition with_flag (i : nat) (q : nquirks) : nquirks :=
  match i with
  | 0 => Build_nquirks false (q_py_table_from_code q) (q_ts_elseif_nests q) (q_rs_elseif_nests q) (q_rs_table_from_code q)
  | 1 => Build_nquirks (q_py_start_from_code q) false (q_ts_elseif_nests q) (q_rs_elseif_nests q) (q_rs_table_from_code q)
  | 2 => Build_nquirks (q_py_start_from_code q) (q_py_table_from_code q) false (q_rs_elseif_nests q) (q_rs_table_from_code q)
  | 3 => Build_nquirks (q_py_start_from_code q) (q_py_table_from_code q) (q_ts_elseif_nests q) false (q_rs_table_from_code q)
  | _ => Build_nquirks (q_py_start_from_code q) (q_py_table_from_code q) (q_ts_elseif_nests q) (q_rs_elseif_nests q) false
  end.

(* candidates: the claimed vector, the claimed vector with one flag switched off, the ideal *)
Definition candidates (q : nquirks) : list nquirks := q :: map (fun i => with_flag i q) [0;1;2;3;4] ++ [ideal].

Definition same (a b : list nrep) : bool := ms_eqb nrep_eqb a b.

Definition judge (q : nquirks) (l : lang) (file : list tree) (runs : list (nat * list nrep)) : list (list bool) :=
  map (fun r => let '(limit, impl) := r in
         same impl (spec_report limit file)
         :: same (report l ideal limit file) (spec_report limit file)
         :: map (fun c => same impl (report l c limit file)) (candidates q))
      runs.

Definition depths (q : nquirks) (l : lang) (file : list tree) : list (nat * nat) :=
  map (fun f => (doc_depth (fn_body f),
                 match l with Py => py_calc q (fn_body f) | Ts => ts_calc q f | Rs => rs_calc q f end))
      (file_functions file).
