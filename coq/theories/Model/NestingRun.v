(* Model/NestingRun.v — judging one correspondence case inside the kernel's VM.
   For an abstract file, a language and a list of (limit, implementation output) the harness
   gets back, per limit:  [impl = spec ; model ideal = spec ; impl = model q for each candidate q]. *)
From TL Require Import Lib.Base Lib.GenTypes Gen.NestingGen Model.Skel Model.Nesting Model.NestingDisc.

Definition with_flag (i : nat) (q : nquirks) : nquirks :=
  let '(Build_nquirks a b c d e f) := q in
  match i with
  | 0 => Build_nquirks false b c d e f
  | 1 => Build_nquirks a false c d e f
  | 2 => Build_nquirks a b false d e f
  | 3 => Build_nquirks a b c false e f
  | 4 => Build_nquirks a b c d false f
  | _ => Build_nquirks a b c d e false
  end.

(* candidates: the claimed vector, the claimed vector with one flag switched off, the ideal *)
Definition candidates (q : nquirks) : list nquirks := q :: map (fun i => with_flag i q) [0;1;2;3;4;5] ++ [ideal].

Definition same (a b : list nrep) : bool := ms_eqb nrep_eqb a b.

Definition judge (q : nquirks) (l : lang) (file : list tree) (runs : list (nat * list nrep)) : list (list bool) :=
  map (fun r => let '(limit, impl) := r in
         same impl (spec_report limit file)
         :: same (report_d l ideal limit file) (spec_report limit file)
         :: map (fun c => same impl (report_d l c limit file)) (candidates q))
      runs.

(* the limit chain: for a nesting section, an optional command-line value and a language name the harness sends
   what the code resolved; answer [impl = documented precedence ; model = documented precedence ; impl = model] *)
Definition judge_limit (s : nsection) (cli : option nat) (language : string) (impl : nat) : list bool :=
  [impl =? spec_limit s cli language; effective_limit s cli language =? spec_limit s cli language;
   impl =? effective_limit s cli language].

Definition depths (q : nquirks) (l : lang) (file : list tree) : list (nat * nat) :=
  map (fun f => (doc_depth (fn_body f),
                 match l with Py => py_calc q (fn_body f) | Ts => ts_calc q f | Rs => rs_calc q f end))
      (file_functions file).
