(* Model/CfgTypes.v — value type of the CLI configuration (src/config.py) used by Gen/CfgToolGen.v
   and the C20 models.  Definitions only. *)
From TL Require Import Lib.Base.
From Coq Require Import ZArith.

(* a configuration value as `config set` produces it (bool | int | float | str).  A float is kept as
   the decimal text Python's repr prints for it: sign, integer digits without leading zeros,
   fraction digits without trailing zeros (both non-empty). *)
Inductive cval :=
| VBool (b : bool)
| VInt (z : Z)
| VFloat (neg : bool) (ip fp : string)
| VStr (s : string).

Definition cfg := list (string * cval).
