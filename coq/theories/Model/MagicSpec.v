(* Model/MagicSpec.v — what property C02 and docs/magic-numbers-linter.md demand, stated on the
   abstract input (no parser, no analyzer): which literals of a file must be reported.
   Every constant here is written down from the documentation, not read from the code. *)
From Coq Require Import ZArith.
From TL Require Import Lib.Base Lib.GenTypes Gen.MagicGen Model.MagicNum Model.Magic.

(* ------------------------------------------------------------------ documented constants *)
(* docs "Allowed numbers" + the header of config.py (common ports) *)
Definition doc_default_allowed : list num :=
  map (fun z => (z, 0%Z)) [-1; 0; 1; 2; 3; 4; 5; 10; 100; 1000; 21; 22; 80; 443; 3000; 5000; 8080; 8443]%Z.
Definition doc_default_max_small : Z := 10%Z.

(* a key of the language's sub-section overrides the top-level key, which overrides the default *)
Definition spec_pick {A} (lang top : option A) (dflt : A) : A :=
  match lang, top with Some x, _ => x | None, Some y => y | None, None => dflt end.

Definition spec_allowed (cfg : mconfig) : list num :=
  map norm (spec_pick (match c_lang cfg with Some (la, _) => la | None => None end) (c_allowed cfg) doc_default_allowed).
Definition spec_max_small (cfg : mconfig) : Z :=
  spec_pick (match c_lang cfg with Some (_, lm) => lm | None => None end) (c_max_small cfg) doc_default_max_small.

(* UPPER_CASE: upper-case letters, digits and underscores, starting with a letter, at least two characters *)
Definition doc_upper_name (name : string) : bool :=
  re_const_name (chars name) && (2 <=? String.length name).
Definition has_lower (name : string) : bool := existsb is_lower_char (chars name).

(* the UPPER_CASE convention for constant names: at least two characters, at least one letter, no lower-case letter
   (digits and underscores anywhere: MAX_SIZE, _POOL_SIZE, __CACHE_SLOTS, V2_LIMIT, MAX_) *)
Definition spec_upper_name (name : string) : bool :=
  existsb is_upper_char (chars name) && negb (existsb is_lower_char (chars name)) && (2 <=? String.length name).

(* test files: test_*.py, *_test.py; *.test.ts, *.spec.ts (and test_* / *_test.* names, tests/ and test/
   directories); Rust has no test-file rule (test code is marked by attributes) *)
Definition spec_is_test_file (l : mlang) (path : string) : bool :=
  match l with
  | MPy => prefix_l (chars "test_") (basename path) || ends_with (chars "_test.py") (basename path)
  | MTs => ts_doc_is_test path
  | MRs => false
  end.

(* #[test], #[<path>::test] and #[cfg(test)] mark test code *)
Definition spec_test_attr (a : string) : bool :=
  String.eqb a "#[test]" || ends_with (chars "::test]") (chars a) || String.eqb a "#[cfg(test)]".
Definition spec_scope_is_test (sc : scope) : bool :=
  existsb spec_test_attr (sc_attrs sc)
  || match sc_mod_attrs sc with Some attrs => existsb (String.eqb "#[cfg(test)]") attrs | None => false end.

(* constants-definition modules (Python): *_codes.py, *_constants.py, constants.py; at least ten
   module-level UPPER_CASE = <number> assignments; a dict display with at least five integer keys *)
Definition spec_def_name (path : string) : bool :=
  let base := map lower_char (basename path) in
  ends_with (chars "_codes.py") base || list_eqb base (chars "constants.py") || ends_with (chars "_constants.py") base.

Definition lit_is_numeric (l : lit) : bool := match l with LInt _ _ _ _ | LFloat _ _ _ _ => true | _ => false end.

Definition spec_upper_defs (f : file) : nat :=
  sum_nat (map (fun sc => match sc_kind sc with
                          | STop => List.length (filter (fun s => match s_ctx s, s_lits s with
                                                                   | CUpper, [l] => lit_is_numeric l && doc_upper_name (s_name s)
                                                                   | _, _ => false
                                                                   end) (sc_sites sc))
                          | _ => 0
                          end) (f_scopes f)).

Definition spec_has_int_dict (f : file) : bool :=
  existsb (fun sc => existsb (fun s => match s_ctx s with
                                       | CDictKeys => 5 <=? List.length (filter lit_is_int (s_lits s))
                                       | _ => false
                                       end) (sc_sites sc)) (f_scopes f).

Definition spec_is_definition_file (f : file) : bool :=
  spec_def_name (f_name f) || (10 <=? spec_upper_defs f) || spec_has_int_dict f.

(* positions that are constant definitions in the documented sense *)
Definition ctx_is_const_def (c : ctx) : bool :=
  match c with CUpper | CUpperNeg | CUpperAnn | CUpperTuple | CUpperBinop | CRsStatic | CTsEnum => true | _ => false end.

(* small integer inside range() / enumerate(); string repetition *)
Definition spec_usage_exempt (cfg : mconfig) (c : ctx) (l : lit) (v : Z) : bool :=
  match c with
  | CRange | CEnumerate | CEnumerateKw => lit_is_int l && (0 <=? v)%Z && (v <=? spec_max_small cfg)%Z
  | CStrRepeatL | CStrRepeatR => lit_is_int l
  | _ => false
  end.

Definition lit_int_value (l : lit) : Z :=
  match l with LInt r gs _ _ => digits_val (Z.of_nat (base_of r)) 0 (List.concat gs) | _ => 0%Z end.

Definition spec_file_exempt (lg : mlang) (f : file) : bool :=
  spec_is_test_file lg (f_name f) || match lg with MPy => spec_is_definition_file f | _ => false end.

Definition spec_site_exempt (lg : mlang) (cfg : mconfig) (sc : scope) (s : site) (l : lit) : bool :=
  match lg with MRs => spec_scope_is_test sc | _ => false end
  || ctx_is_const_def (s_ctx s)
  || match lg with MPy => spec_usage_exempt cfg (s_ctx s) l (lit_int_value l) | _ => false end.

(* the reports the property demands for one literal: none, or one naming its value on its line *)
Definition spec_lit (lg : mlang) (cfg : mconfig) (file_exempt : bool) (sc : scope) (s : site) (l : lit) : list mrep :=
  match lit_value l with
  | None => []                                              (* not a numeric literal: never reported *)
  | Some v =>
    if nmem v (spec_allowed cfg) then []
    else if file_exempt || spec_site_exempt lg cfg sc s l then []
    else [(s_line s, RNum v)]
  end.

Definition spec_report (lg : mlang) (cfg : mconfig) (f : file) : list mrep :=
  flat_map (fun sc => flat_map (fun s => flat_map (spec_lit lg cfg (spec_file_exempt lg f) sc s) (s_lits s)) (sc_sites sc))
           (f_scopes f).

(* the section switches: `enabled: false` switches the linter off; a file matching an `ignore` pattern is skipped.
   How a pattern matches a path (right-anchored glob segments, or the pattern occurring in the path) is the transcribed
   matcher of Model/Magic.v: the documentation gives examples only ("tests/**", "**/*_constants.py", "config/*.py"). *)
Definition spec_lint (lg : mlang) (cfg : mconfig) (f : file) : list mrep :=
  match c_enabled cfg with
  | Some false => []
  | _ => if existsb (fun p => path_match p (f_name f) || contains (chars p) (chars (f_name f))) (c_ignore cfg) then []
         else spec_report lg cfg f
  end.

(* line-level ignores (docs/how-to-ignore-violations.md): `thailint: ignore[rules]` suppresses the line's violations of the
   named rules (the linter name or the full rule id), the bare `thailint: ignore` all of them *)
Definition spec_suppresses (d : directive) : bool :=
  match d_rules d with
  | None => false
  | Some [] => true
  | Some rs => existsb (fun r => String.eqb r "magic-numbers" || String.eqb r "magic-numbers.numeric-literal") rs
  end.

Definition spec_lint_d (lg : mlang) (cfg : mconfig) (f : file) (ds : dirs) : list mrep :=
  filter (fun r => negb (suppressed_at spec_suppresses ds (fst r))) (spec_lint lg cfg f).

Definition dir_pool : list directive :=
  [mk_dir "thailint: ignore[magic-numbers]" (Some ["magic-numbers"]);
   mk_dir "thailint: ignore[magic-numbers] - Industry standard timeout" (Some ["magic-numbers"]);
   mk_dir "thailint: ignore[nesting]" (Some ["nesting"]);
   mk_dir "thailint: ignore[nesting,magic-numbers]" (Some ["nesting"; "magic-numbers"]);
   mk_dir "thailint: ignore[magic-numbers, dry]" (Some ["magic-numbers"; "dry"]);
   mk_dir "thailint: ignore[magic-numbers.numeric-literal]" (Some ["magic-numbers.numeric-literal"]);
   mk_dir "thailint: ignore" (Some []);
   mk_dir "just a note about 42" None].

Definition directive_eqb (a b : directive) : bool :=
  String.eqb (d_text a) (d_text b)
  && match d_rules a, d_rules b with
     | None, None => true
     | Some x, Some y => (List.length x =? List.length y) && forallb (fun p => String.eqb (fst p) (snd p)) (combine x y)
     | _, _ => false
     end.
Definition dirs_good (ds : dirs) : bool := forallb (fun ld : nat * directive => existsb (directive_eqb (snd ld)) dir_pool) ds.

Definition ignore_pool : list string :=
  ["tests/**"; "**/*_constants.py"; "*.ts"; "case.py"; "case"; "util/*.py"; "**/helpers.py"; "**/case.py"; "src/*"; "tests/";
   "generated/**"; "*/case.rs"; "??se.py"; "*.js"; "legacy"].

Definition cfg_good (cfg : mconfig) : bool := forallb (fun p => smem p ignore_pool) (c_ignore cfg).

(* ------------------------------------------------------------------ admissible inputs *)
(* File names: ANY path for TypeScript / JavaScript and Rust; for Python any path whose last segment is <stem>.py with no
   dot inside the stem (so `a_test.py.py`, on which "contains _test.py" and the documented `*_test.py` differ, is outside). *)
Definition dot_free (s : list ascii) : bool := negb (existsb (Ascii.eqb c_dot) s).
Definition py_base_ok (b : list ascii) : bool :=
  ends_with (chars ".py") b && dot_free (firstn (List.length b - List.length (chars ".py")) b).
Definition name_good (lg : mlang) (name : string) : bool :=
  match lg with MPy => py_base_ok (basename name) | _ => true end.

(* names the generator always includes (plain, test-named, constants modules, look-alikes) *)
Definition name_pool (lg : mlang) : list string :=
  match lg with
  | MPy => ["/case.py"; "/util/helpers.py"; "/test_case.py"; "/case_test.py"; "/tests/helper.py"; "/constants.py";
            "/app_constants.py"; "/status_codes.py"; "/contest.py"; "/latest_results.py"]
  | MTs => ["/case.ts"; "/case.js"; "/src/util.ts"; "/case.test.ts"; "/case.spec.ts"; "/case.test.js"; "/test_case.ts";
            "/case_test.ts"; "/tests/case.ts"; "/test/case.js"; "/constants.ts"; "/contest_data.ts"; "/src/latest_results.ts"]
  | MRs => ["/case.rs"; "/src/util.rs"; "/test_case.rs"; "/tests/case.rs"; "/constants.rs"]
  end.

Definition fn_attr_pool : list string := ["#[test]"; "#[tokio::test]"; "#[inline]"; "#[allow(dead_code)]"; "#[cfg(test)]"].
Definition mod_attr_pool : list string := ["#[cfg(test)]"; "#[allow(dead_code)]"].

(* Rust's literal suffixes *)
Definition int_suffixes : list string := ["u8"; "u16"; "u32"; "u64"; "u128"; "usize"; "i8"; "i16"; "i32"; "i64"; "i128"; "isize"].
Definition float_suffixes : list string := ["f32"; "f64"].

Definition digits_ok (base : nat) (ds : list nat) : bool :=
  match ds with [] => false | _ => forallb (fun d => d <? base) ds end.

Definition no_leading_zero (ds : list nat) : bool :=
  match ds with 0 :: _ :: _ => false | _ => true end.

Definition suffix_in (sfx : string) (table : list string) : bool :=
  smem sfx table || existsb (fun s => String.eqb sfx ("_" ++ s)) table.

Definition lit_ok (lg : mlang) (l : lit) : bool :=
  match l with
  | LInt r gs _ sfx =>
    match gs with [] => false | _ => forallb (digits_ok (base_of r)) gs end
    && match r with RDec => no_leading_zero (List.concat gs) | _ => true end
    && match lg with
       | MPy => String.eqb sfx ""
       | MTs => String.eqb sfx "" || String.eqb sfx "n"
       | MRs => match r with RHexU | ROctU | RBinU => false | _ => true end        (* Rust has lower-case prefixes only *)
                && (String.eqb sfx "" || suffix_in sfx int_suffixes
                    || match r with RDec => suffix_in sfx float_suffixes | _ => false end)
       end
  | LFloat ip fp ex sfx =>
    match ip with
    | [] => match lg, fp with MRs, _ => false | _, [] => false | _, _ => true end      (* .5 (Python, TypeScript / JavaScript) *)
    | _ => digits_ok 10 ip
    end && no_leading_zero ip
    && match fp with [] => true | _ => digits_ok 10 fp end
    && match ex with Some (_, ds) => digits_ok 10 ds | None => true end
    && match fp, ex with [], None => false | _, _ => true end
    && match lg with MRs => String.eqb sfx "" || suffix_in sfx float_suffixes | _ => String.eqb sfx "" end
  | _ => true
  end.

Definition ctx_ok (lg : mlang) (k : skind) (c : ctx) : bool :=
  match lg, c with
  | MPy, (CTsEnum | CRsStatic | CMacro | CTsField | CRsEnum) => false
  | MTs, (CRange | CEnumerate | CEnumerateKw | CStrRepeatL | CStrRepeatR | CDictKeys | CRsStatic | CDecorator | CKwarg | CMacro | CRsEnum) => false
  | MRs, (CDefault | CUpperAnn | CRange | CEnumerate | CEnumerateKw | CStrRepeatL | CStrRepeatR | CDictKeys | CTsEnum
          | CInterp | CDecorator | CKwarg | CTsField) => false
  | _, _ => true
  end
  && match c with
     | CReturn => match k with SFunc | SMethod | SNested => true | _ => false end
     | CTsEnum => match k with STop => true | _ => false end
     | _ => true
     end
  && match lg, k with
     | MRs, STop => match c with CUpper | CUpperNeg | CUpperTuple | CUpperBinop | CRsStatic | CRsEnum => true | _ => false end
     | MRs, SClass => match c with CUpper | CUpperNeg | CUpperTuple | CUpperBinop | CRsStatic => true | _ => false end
     | MTs, SClass => match c with CTsField => true | _ => false end
     | MTs, _ => match c with CTsField => false | _ => true end
     | _, _ => true
     end.

Definition single_lit_ctx (c : ctx) : bool :=
  match c with CArg | CElts | CUpperTuple | CUpperBinop | CTsEnum | CDictKeys | CRange | CDecorator | CNested | CMacro | CRsEnum => false | _ => true end.

(* a constant-definition context binds an UPPER_CASE name, every other context a name that is not UPPER_CASE (so `N = 5`,
   `Max_val = 5`, `_ = 5`, `_1 = 5` are ordinary assignments); Rust const / static items are exempt whatever their name *)
Definition name_ok (lg : mlang) (c : ctx) (name : string) : bool :=
  match lg with
  | MRs => true
  | _ => if ctx_is_const_def c then match c with CTsEnum => true | _ => spec_upper_name name end
         else match c with CTsField => true | _ => false end || negb (spec_upper_name name) && negb (String.eqb name "range") && negb (String.eqb name "enumerate")
  end.

Definition site_good (lg : mlang) (k : skind) (s : site) : bool :=
  ctx_ok lg k (s_ctx s) && name_ok lg (s_ctx s) (s_name s)
  && match s_lits s with [] => false | [_] => true | _ => negb (single_lit_ctx (s_ctx s)) end
  && match s_ctx s with
     | CMatch => forallb lit_is_numeric (s_lits s)                 (* a pattern `case True` is no constant *)
     | CUpperBinop => forallb lit_is_numeric (s_lits s) && (List.length (s_lits s) <=? 2)     (* NAME = L * L: one product *)
     | _ => true
     end
  && forallb (lit_ok lg) (s_lits s).

Definition scope_good (lg : mlang) (sc : scope) : bool :=
  forallb (site_good lg (sc_kind sc)) (sc_sites sc)
  && match lg with
     | MRs => forallb (fun a => smem a fn_attr_pool) (sc_attrs sc)
              && match sc_mod_attrs sc with Some attrs => forallb (fun a => smem a mod_attr_pool) attrs | None => true end
              && match sc_kind sc with STop | SClass => match sc_attrs sc with [] => true | _ => false end | _ => true end
     | _ => match sc_attrs sc, sc_mod_attrs sc with [], None => true | _, _ => false end
     end.

Definition file_good (lg : mlang) (f : file) : bool :=
  name_good lg (f_name f) && forallb (scope_good lg) (f_scopes f).
