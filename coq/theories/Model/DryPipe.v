(* Model/DryPipe.v — the DRY pipeline as one function of its leaf parameters (C03).
   The faithful model (Model/Dry.v) instantiates the parameters from Gen/DryGen.v (what the source says,
   quirk flags on or off); the reference (Model/DrySpec.v) instantiates them with hand-written constants
   (what the property and docs/dry-linter.md say).  Skeleton transcribed from:
     python_analyzer.py / typescript_analyzer.py  _tokenize_with_line_numbers, _normalize_and_filter_line,
                                                  _rolling_hash_with_tracking
     cache.py / cache_query.py                    code_blocks rows, GROUP BY hash HAVING COUNT, ORDER BY file_path, start_line
     violation_generator.py                       _collect_violations, _meets_min_occurrences
     deduplicator.py / violation_filter.py        deduplicate_blocks, deduplicate_violations, filter_overlapping
     violation_builder.py                         build_violation, _get_location_refs, _build_message
   hash(snippet) is modelled as the snippet itself (injective hash: trusted, see MANIFEST).
   No proofs in this file. *)
From TL Require Import Lib.Base Lib.GenTypes Model.DryBase.

(* ------------------------------------------------------------------ abstract input *)
Inductive dlang := DPy | DTs.                       (* DTs: .ts and .js (same analyzer) *)
Inductive cmt := CNone | CLine (t : string) | CBlock (t : string).
Record aline := { a_doc : bool;                      (* part of a docstring / JSDoc block (parser oracle) *)
                  a_indent : string; a_code : string; a_cmt : cmt }.
Record afile := { f_lang : dlang; f_lines : list aline }.

Record row := { r_file : nat; r_start : nat; r_end : nat; r_snip : string }.
Record viol := { v_file : nat; v_line : nat; v_col : nat; v_count : nat; v_occ : nat;
                 v_refs : list (nat * nat * nat) }.

(* ------------------------------------------------------------------ parameters *)
Record aparams := {                                  (* stage A: text -> stored rows, per language *)
  p_norm : aline -> string;                          (* normalize_line on the rendered line *)
  p_skip : string -> bool -> bool * bool;            (* should_skip_import_line *)
  p_first_line : nat;
  p_guard : cmp; p_off : nat;                        (* `if len < W: return []`, range(len - W + off) *)
  p_sep : string; p_wstart : winidx; p_wend : winidx }.

Record bparams := {                                  (* stage B: rows -> reported violations *)
  p_dup_cmp : cmp; p_dup_min : nat;                  (* HAVING COUNT cmp min *)
  p_blocks_overlap : nat -> nat -> nat -> nat -> bool;
  p_meets : nat -> nat -> bool;
  p_line_count : nat -> nat -> nat; p_column : nat;
  p_is_other : bool -> nat -> nat -> nat -> nat -> bool;
  p_viol_overlap : nat -> nat -> nat -> nat -> bool }. (* line1 line2 count1 count2 ; 1 = the later violation *)

(* ------------------------------------------------------------------ generic combinators *)
(* `for x in l: if not any(ovl(x, k) for k in kept): kept.append(x)` ; result = the newly kept, in order *)
Fixpoint greedy {A} (ovl : A -> A -> bool) (kept : list A) (l : list A) : list A :=
  match l with
  | [] => []
  | x :: xs => if existsb (ovl x) kept then greedy ovl kept xs else x :: greedy ovl (x :: kept) xs
  end.

(* sorted(l, key=...) : stable insertion sort *)
Fixpoint insert_by {A} (key : A -> nat) (x : A) (l : list A) : list A :=
  match l with
  | [] => [x]
  | y :: ys => if key x <=? key y then x :: l else y :: insert_by key x ys
  end.
Definition isort {A} (key : A -> nat) (l : list A) : list A := fold_right (insert_by key) [] l.

(* ------------------------------------------------------------------ stage A *)
Section StageA.
  Variable P : aparams.

  Fixpoint tokenize_from (n : nat) (st : bool) (ls : list aline) : list (nat * string) :=
    match ls with
    | [] => []
    | l :: rest =>
      if a_doc l then tokenize_from (S n) st rest
      else let t := p_norm P l in
           if str_empty t then tokenize_from (S n) st rest
           else let r := p_skip P t st in
                if snd r then tokenize_from (S n) (fst r) rest
                else (n, t) :: tokenize_from (S n) (fst r) rest
    end.
  Definition tokenize (ls : list aline) : list (nat * string) := tokenize_from (p_first_line P) false ls.

  Fixpoint windows_from (W cnt : nat) (s : list (nat * string)) : list (list (nat * string)) :=
    match cnt with 0 => [] | S c => firstn W s :: windows_from W c (tl s) end.
  Definition window_list (W : nat) (s : list (nat * string)) : list (list (nat * string)) :=
    if cmp_nat (p_guard P) (List.length s) W then [] else windows_from W (List.length s - W + p_off P) s.

  Definition mk_row (fi : nat) (w : list (nat * string)) : row :=
    {| r_file := fi; r_start := fst (win_pick (0, "") w (p_wstart P)); r_end := fst (win_pick (0, "") w (p_wend P));
       r_snip := join (p_sep P) (map snd w) |}.
  Definition file_rows (W fi : nat) (ls : list aline) : list row := map (mk_row fi) (window_list W (tokenize ls)).
End StageA.

(* files are listed in file_path order; r_file is the position in that list *)
Fixpoint rows_from (PA : dlang -> aparams) (W i : nat) (files : list afile) : list row :=
  match files with
  | [] => []
  | f :: fs => file_rows (PA (f_lang f)) W i (f_lines f) ++ rows_from PA W (S i) fs
  end.
Definition all_rows (PA : dlang -> aparams) (W : nat) (files : list afile) : list row := rows_from PA W 0 files.

(* ------------------------------------------------------------------ stage B *)
Section StageB.
  Variable B : bparams.

  Definition same_snip (s : string) (r : row) : bool := String.eqb (r_snip r) s.
  Definition blocks_of (s : string) (rows : list row) : list row := filter (same_snip s) rows.
  Definition snip_count (s : string) (rows : list row) : nat := List.length (blocks_of s rows).
  Definition is_dup (rows : list row) (r : row) : bool := cmp_nat (p_dup_cmp B) (snip_count (r_snip r) rows) (p_dup_min B).
  Definition dup_snips (rows : list row) : list string := nodup string_dec (map r_snip (filter (is_dup rows) rows)).

  (* deduplicate_blocks: rows arrive ordered by (file, start); grouping by file = same-file test *)
  Definition blk_ovl (b k : row) : bool :=
    (r_file b =? r_file k) && p_blocks_overlap B (r_start b) (r_end b) (r_start k) (r_end k).
  Definition places (s : string) (rows : list row) : list row := greedy blk_ovl [] (blocks_of s rows).

  Definition loc_of (d : row) : nat * nat * nat := (r_file d, r_start d, r_end d).
  Definition mk_viol (ps : list row) (b : row) : viol :=
    {| v_file := r_file b; v_line := r_start b; v_col := p_column B;
       v_count := p_line_count B (r_start b) (r_end b); v_occ := List.length ps;
       v_refs := map loc_of (filter (fun d => p_is_other B (r_file d =? r_file b) (r_start d) (r_end d) (r_start b) (r_end b)) ps) |}.

  Definition viols_of_snip (k : nat) (rows : list row) (s : string) : list viol :=
    let ps := places s rows in if p_meets B (List.length ps) k then map (mk_viol ps) ps else [].
  Definition raw_viols (k : nat) (rows : list row) : list viol := flat_map (viols_of_snip k rows) (dup_snips rows).

  Definition v_ovl (v1 v2 : viol) : bool := p_viol_overlap B (v_line v1) (v_line v2) (v_count v1) (v_count v2).
  Definition viol_files (raw : list viol) : list nat := nodup Nat.eq_dec (map v_file raw).
  Definition in_file (f : nat) (v : viol) : bool := v_file v =? f.
  Definition dedup_file (raw : list viol) (f : nat) : list viol := greedy v_ovl [] (isort v_line (filter (in_file f) raw)).
  Definition dedup_viols (raw : list viol) : list viol := flat_map (dedup_file raw) (viol_files raw).

  Definition report (k : nat) (rows : list row) : list viol := dedup_viols (raw_viols k rows).
End StageB.

Definition pipeline (PA : dlang -> aparams) (B : bparams) (W k : nat) (files : list afile) : list viol :=
  report B k (all_rows PA W files).

(* ------------------------------------------------------------------ stage C: suppression *)
(* violation_generator.py _filter_ignored (dry.ignore path patterns), _filter_inline_ignored (inline_ignore.py:
   `# dry: ignore-block` / `# dry: ignore-next`), _filter_shared_ignored (linter_config/ignore.py: thailint
   ignore-file / ignore / ignore-next-line / ignore-start .. ignore-end).  Which directive a source line carries is
   decided on the comment text for a fixed table of spellings (the spelling -> directive relation is property
   C04's subject; here it is validated by correspondence for exactly these spellings). *)
Inductive dkind := KDryBlock | KDryNext | KFile | KLine | KNextLine | KStart | KEnd.
Definition dkind_eqb (a b : dkind) : bool :=
  match a, b with
  | KDryBlock, KDryBlock | KDryNext, KDryNext | KFile, KFile | KLine, KLine | KNextLine, KNextLine | KStart, KStart | KEnd, KEnd => true
  | _, _ => false
  end.

Definition spellings : list (string * dkind) :=
  [(" dry: ignore-block", KDryBlock); (" dry: ignore-next", KDryNext);
   (" thailint: ignore-file dry", KFile); (" thailint: ignore-file[dry]", KFile);
   (" thailint: ignore dry", KLine); (" thailint: ignore[dry]", KLine);
   (" thailint: ignore-next-line[dry]", KNextLine);
   (" thailint: ignore-start dry", KStart); (" thailint: ignore-end", KEnd)].

Fixpoint lookup_spelling (t : string) (tbl : list (string * dkind)) : option dkind :=
  match tbl with [] => None | (s, k) :: r => if String.eqb t s then Some k else lookup_spelling t r end.

(* the dry: forms are searched behind a `#` only, so they exist in Python comments only *)
Definition directive_of (l : dlang) (a : aline) : option dkind :=
  if a_doc a then None else
  match a_cmt a with
  | CLine t => match lookup_spelling t spellings with
               | Some KDryBlock => match l with DPy => Some KDryBlock | DTs => None end
               | Some KDryNext => match l with DPy => Some KDryNext | DTs => None end
               | r => r
               end
  | _ => None
  end.

Record sparams := {
  s_block_off : nat; s_block_len : nat; s_next_off : nat;   (* (i + 1, min (i + 10) total) ; (i + 1, i + 1) *)
  s_range_overlap : nat -> nat -> nat -> nat -> bool;       (* line end_line ign_start ign_end *)
  s_viol_end : nat -> nat -> nat;                           (* start_line line_count *)
  s_header_lines : nat }.

(* (line number, directive, the line has no code) for every directive line of a file *)
Fixpoint dirs_from (l : dlang) (n : nat) (ls : list aline) : list (nat * dkind * bool) :=
  match ls with
  | [] => []
  | a :: rest => match directive_of l a with
                 | Some k => (n, k, str_empty (a_code a)) :: dirs_from l (S n) rest
                 | None => dirs_from l (S n) rest
                 end
  end.
Definition file_dirs (f : afile) : list (nat * dkind * bool) := dirs_from (f_lang f) 1 (f_lines f).
(* len(content.split("\n")) for the rendered text, which ends with a newline *)
Definition total_lines (f : afile) : nat := S (List.length (f_lines f)).

Section StageC.
  Variable S : sparams.

  Definition dir_suppresses (total line count : nat) (d : nat * dkind * bool) : bool :=
    let '(i, k, _) := d in
    match k with
    | KDryBlock => s_range_overlap S line (s_viol_end S line count) (i + s_block_off S) (Nat.min (i + s_block_len S) total)
    | KDryNext => s_range_overlap S line (s_viol_end S line count) (i + s_next_off S) (i + s_next_off S)
    | KFile => i <=? s_header_lines S
    | KLine => i =? line
    | KNextLine => (1 <? line) && (i =? line - 1)
    | KStart | KEnd => false
    end.

  (* _check_block_ignore: the state when the violation's line is reached *)
  Fixpoint in_block (line : nat) (st : bool) (ds : list (nat * dkind * bool)) : bool :=
    match ds with
    | [] => st
    | (i, k, empty) :: r =>
      if line <=? i then st
      else match k with
           | KStart => in_block line (if empty then true else st) r
           | KEnd => in_block line (if empty then false else st) r
           | _ => in_block line st r
           end
    end.
  Definition marker_at (line : nat) (ds : list (nat * dkind * bool)) : bool :=
    existsb (fun d => let '(i, k, empty) := d in (i =? line) && empty && (dkind_eqb k KStart || dkind_eqb k KEnd)) ds.

  Definition suppressed_in_file (f : afile) (line count : nat) : bool :=
    let ds := file_dirs f in
    existsb (dir_suppresses (total_lines f) line count) ds || (in_block line false ds && negb (marker_at line ds)).

  Definition path_ignored (patterns : list string) (path : string) : bool := existsb (fun p => str_contains p path) patterns.

  Definition suppressed (patterns paths : list string) (files : list afile) (fi line count : nat) : bool :=
    path_ignored patterns (nth fi paths "") || suppressed_in_file (nth fi files {| f_lang := DPy; f_lines := [] |}) line count.

  Definition v_suppressed (patterns paths : list string) (files : list afile) (v : viol) : bool :=
    suppressed patterns paths files (v_file v) (v_line v) (v_count v).

  Definition unsuppressed (patterns paths : list string) (files : list afile) (R : list viol) : list viol :=
    filter (fun v => negb (v_suppressed patterns paths files v)) R.
End StageC.

(* ------------------------------------------------------------------ equality tests used by the judge *)
Definition ref_eqb (a b : nat * nat * nat) : bool :=
  let '(f1, s1, e1) := a in let '(f2, s2, e2) := b in (f1 =? f2) && (s1 =? s2) && (e1 =? e2).
Fixpoint list_eqb {A} (eqb : A -> A -> bool) (a b : list A) : bool :=
  match a, b with [], [] => true | x :: xs, y :: ys => eqb x y && list_eqb eqb xs ys | _, _ => false end.
Definition viol_eqb (a b : viol) : bool :=
  (v_file a =? v_file b) && (v_line a =? v_line b) && (v_col a =? v_col b) && (v_count a =? v_count b)
  && (v_occ a =? v_occ b) && list_eqb ref_eqb (v_refs a) (v_refs b).
Definition row_eqb (a b : row) : bool :=
  (r_file a =? r_file b) && (r_start a =? r_start b) && (r_end a =? r_end b) && String.eqb (r_snip a) (r_snip b).
