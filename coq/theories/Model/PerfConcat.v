(* Model/PerfConcat.v — executable model of the Python string-concatenation-in-loop detector
   (src/linters/performance/python_analyzer.py: PythonStringConcatAnalyzer, and the de-duplication
   step of StringConcatLoopRule._analyze_python_string_concat), quirk-parametric.

   The code is NOT of the walker shape of Model/Embed.v:
     q_concat_global_names = true   the sets of "string" / "non-string" variable names are collected from
                                    every assignment of the whole file (ast.walk over the module);
                                    false: from the assignments of the enclosing scope only
                                    (module / def / class / lambda body, not entering nested scopes)
     q_concat_dedup_by_name = true  the candidate list of the whole file is de-duplicated by variable name;
                                    false: one report per loop and variable ("One violation per loop",
                                    docs/performance-linter.md), i.e. emitted at the loop node
     q_concat_name_table = true     a variable counts as a string when its lower-cased NAME is in the code's table
                                    STRING_VARIABLE_PATTERNS; false: when it is one of the names the documentation
                                    lists (docs/performance-linter.md "Variables named: ..."), so that renaming any
                                    other identifier cannot change the verdict
   With the first two flags off the detector is a walker (cl_step / cl_emit).  Class names, field lists, the name
   table, loop type words, rule id and message format come from Gen/EmbedGen.v.  No proofs in this file. *)
From TL Require Import Lib.Base Lib.GenTypes Gen.EmbedGen Model.Embed Model.PrintStmt.

Record cquirks := mkCQ { q_concat_global_names : bool; q_concat_dedup_by_name : bool; q_concat_name_table : bool }.
Definition c_ideal : cquirks := mkCQ false false false.

(* ------------------------------------------------------------------ small helpers *)
Definition lower_ascii (a : ascii) : ascii :=
  let n := nat_of_ascii a in if (65 <=? n) && (n <=? 90) then ascii_of_nat (n + 32) else a.
Fixpoint lower (s : string) : string :=
  match s with EmptyString => EmptyString | String a r => String (lower_ascii a) (lower r) end.

Fixpoint assoc (k : string) (l : list (string * string)) : option string :=
  match l with [] => None | (a, b) :: r => if String.eqb k a then Some b else assoc k r end.

(* (true, x): x was assigned a string; (false, x): a list / dict / set / number *)
Definition entry := (bool * string)%type.
Definition in_strs (x : string) (l : list entry) : bool := existsb (fun e => fst e && String.eqb (snd e) x) l.
Definition in_nons (x : string) (l : list entry) : bool := existsb (fun e => negb (fst e) && String.eqb (snd e) x) l.

(* _is_string_value / _is_non_string_value *)
Definition is_string_value (v : ast) : bool :=
  (is_cls sc_str_const_cls v && String.eqb (nckind v) "str") || is_cls sc_fstring_cls v.
Definition is_non_string_value (v : ast) : bool :=
  smem (ncls v) sc_nonstring_classes || (is_cls sc_num_const_cls v && smem (nckind v) sc_num_kinds).

Definition name_targets (c : string) (ts : list ast) : list string := map nsval (filter (is_cls c) ts).

(* value and Name targets of an Assign / AnnAssign statement (AnnAssign without value: nothing) *)
Definition assigned (asg ann tcls anntcls : string) (e : ast) : option (ast * list string) :=
  if is_cls asg e then
    match field "value" e with [v] => Some (v, name_targets tcls (field "targets" e)) | _ => None end
  else if is_cls ann e then
    match field "value" e, field "target" e with
    | [v], [x] => Some (v, name_targets anntcls [x])
    | _, _ => None
    end
  else None.

(* _process_assignment_node / _classify_variable on one node *)
Definition cl_node (t : ast) : list entry :=
  if is_cls sc_assign_cls t || is_cls sc_annassign_cls t then
    match assigned sc_assign_cls sc_annassign_cls sc_target_cls sc_target_cls (erase t) with
    | Some (v, xs) => if is_string_value v then map (pair true) xs
                      else if is_non_string_value v then map (pair false) xs else []
    | None => []
    end
  else [].

(* _identify_string_variables: ast.walk over everything *)
Fixpoint classify_all (t : ast) : list entry :=
  match t with Node i ks => cl_node (Node i ks) ++ flat_map classify_all ks end.

(* the scoped variant: assignments of one scope, nested scopes not entered *)
Definition scope_classes : list string := ["FunctionDef"; "AsyncFunctionDef"; "ClassDef"; "Lambda"].
Definition is_scope (t : ast) : bool := smem (ncls t) scope_classes.
Fixpoint classify_sc (t : ast) : list entry :=
  match t with
  | Node i ks => if is_scope (Node i ks) then [] else cl_node (Node i ks) ++ flat_map classify_sc ks
  end.
Definition classify_scF (ts : list ast) : list entry := flat_map classify_sc ts.

(* _collect_string_assigns: string (re)assignments directly in a loop body, through if / try only *)
Definition own_resets (t : ast) : list string :=
  if is_cls sc_reset_assign_cls t || is_cls sc_reset_annassign_cls t then
    match assigned sc_reset_assign_cls sc_reset_annassign_cls sc_reset_target_cls sc_reset_ann_target_cls (erase t) with
    | Some (v, xs) => if is_string_value v then xs else []
    | None => []
    end
  else [].
Fixpoint csa (t : ast) : list string :=
  match t with
  | Node i ks =>
    own_resets (Node i ks)
    ++ (if is_cls sc_if_cls (Node i ks) then
          flat_map (fun k => if smem (nrole k) sc_if_fields then csa k else []) ks
        else if is_cls sc_try_cls (Node i ks) then
          flat_map (fun k => if smem (nrole k) sc_try_fields then csa k
                             else if String.eqb (nrole k) sc_try_handlers_field then
                               match k with
                               | Node _ hks => flat_map (fun h => if String.eqb (nrole h) sc_handler_body_field then csa h else []) hks
                               end
                             else []) ks
        else [])
  end.
(* _find_vars_reset_in_loop *)
Definition resets (loop : ast) : list string :=
  if smem (ncls loop) sc_reset_loop_classes then flat_map csa (field "body" loop) else [].

(* _get_loop_type *)
Definition loop_type (t : ast) : option string := assoc (ncls t) sc_loop_types.

(* _is_add_aug_assign_in_loop / _process_aug_assign: the variable and the added value *)
Definition aug_parts (e : ast) : option (string * ast) :=
  if is_cls sc_aug_cls e then
    match field "op" e, field "target" e, field "value" e with
    | [o], [x], [v] => if is_cls sc_aug_op_cls o && is_cls sc_aug_target_cls x then Some (nsval x, v) else None
    | _, _, _ => None
    end
  else None.
Definition is_str_call (v : ast) : bool :=
  is_cls sc_call_cls v && match field "func" v with [f] => named sc_call_func_cls sc_str_func f | _ => false end.
Definition is_string_binop (v : ast) : bool :=
  is_cls sc_binop_cls v
  && match field "op" v, field "left" v, field "right" v with
     | [o], [l], [r] => is_cls sc_binop_op_cls o && (is_string_value l || is_string_value r)
     | _, _, _ => false
     end.
(* _is_likely_string_variable *)
Definition name_table (q : cquirks) : list string := if q_concat_name_table q then sc_patterns else sc_doc_patterns.
Definition likely (q : cquirks) (sets : list entry) (x : string) (v : ast) : bool :=
  if in_nons x sets then false
  else in_strs x sets || smem (lower x) (name_table q)
       || is_string_value v || is_str_call v || is_string_binop v.

(* a candidate at this node, inside a loop of type l whose body resets the names in reset *)
Definition cand_here (q : cquirks) (sets : list entry) (l : string) (reset : list string) (t : ast) : list rep :=
  if is_cls sc_aug_cls t then
    match aug_parts (erase t) with
    | Some (x, v) => if negb (smem x reset) && likely q sets x v then [(line (ninfo t), col (ninfo t), l, x)] else []
    | None => []
    end
  else [].

(* which name sets are in force below node t *)
Definition enter (q : cquirks) (sets : list entry) (t : ast) : list entry :=
  if q_concat_global_names q then sets else if is_scope t then classify_scF (nkids t) else sets.

(* ------------------------------------------------------------------ the traversal of the code *)
(* _find_concat_in_loops: pre-order, the innermost loop decides type and reset set *)
Fixpoint walkc (q : cquirks) (sets : list entry) (lt : option string) (reset : list string) (t : ast) : list rep :=
  match t with
  | Node i ks =>
    let t0 := Node i ks in
    let lt' := match loop_type t0 with Some x => Some x | None => lt end in
    let reset' := match loop_type t0 with Some _ => resets t0 | None => reset end in
    let sets' := enter q sets t0 in
    (match lt' with Some l => cand_here q sets' l reset' t0 | None => [] end)
    ++ flat_map (walkc q sets' lt' reset') ks
  end.

(* deduplicate_violations: first report per variable name *)
Fixpoint nodup_name (seen : list string) (l : list rep) : list rep :=
  match l with
  | [] => []
  | r :: rs => if smem (snd r) seen then nodup_name seen rs else r :: nodup_name (snd r :: seen) rs
  end.

(* ------------------------------------------------------------------ the walker (one report per loop and variable) *)
(* candidates whose innermost loop is the one we started from: nested loops are not entered *)
Fixpoint cw (q : cquirks) (sets : list entry) (l : string) (reset : list string) (t : ast) : list rep :=
  match t with
  | Node i ks =>
    let t0 := Node i ks in
    match loop_type t0 with
    | Some _ => []
    | None => let sets' := enter q sets t0 in cand_here q sets' l reset t0 ++ flat_map (cw q sets' l reset) ks
    end
  end.
Definition cl_step (q : cquirks) (sets : list entry) (t : ast) : list entry := enter q sets t.
Definition cl_emit (q : cquirks) (sets : list entry) (t : ast) : list rep :=
  match loop_type t with
  | Some l => nodup_name [] (flat_map (cw q sets l (resets t)) (nkids t))
  | None => []
  end.

(* ------------------------------------------------------------------ the rule *)
Definition sets0 (q : cquirks) (file : list ast) : list entry :=
  if q_concat_global_names q then flat_map classify_all file else classify_scF file.

Definition concat_reports (q : cquirks) (file : list ast) : list rep :=
  if q_concat_dedup_by_name q then nodup_name [] (flat_map (walkc q (sets0 q file) None []) file)
  else detectF (cl_step q) (cl_emit q) (sets0 q file) file.

(* PerformanceViolationBuilder.create_string_concat_violation: the message *)
Definition concat_message (r : rep) : string :=
  match r with
  | (_, _, lt, x) =>
    sconcat (map (fun p => if String.eqb (fst p) "lit" then snd p
                           else if String.eqb (snd p) "loop_type" then lt else x) sc_message)
  end.

(* ------------------------------------------------------------------ contexts the locality theorem covers *)
(* wrappers are not loops and not assignments, their own parts contain neither loops nor assignments of the
   scope; filler statements are closed: every top-level filler statement is a def / class *)
Fixpoint loop_free (t : ast) : bool :=
  match t with
  | Node i ks => match loop_type (Node i ks) with Some _ => false | None => forallb loop_free ks end
  end.
Definition quiet (ks : list ast) : bool :=
  forallb loop_free ks && match classify_scF ks with [] => true | _ :: _ => false end.
Definition cc_wrap_ok (i : info) (pre post : list ast) : bool :=
  match assoc (cls i) sc_loop_types with Some _ => false | None => true end
  && negb (String.eqb (cls i) sc_assign_cls || String.eqb (cls i) sc_annassign_cls)
  && quiet pre && quiet post.
Fixpoint cc_ctx_ok (c : ctx) : bool :=
  match c with
  | Hole => true
  | Wrap i pre post _ _ c' => cc_wrap_ok i pre post && cc_ctx_ok c'
  | Seq pre _ c' post => forallb is_scope pre && forallb is_scope post && cc_ctx_ok c'
  end.
