(* Model/CollectRun.v — judging one C14 correspondence case inside the kernel's VM.
   A case is a project tree, the typed ignore sources, the components in front of the
   project-relative paths, and a list of observations; an observation is either a directory run
   (recursive?, target relative to the root, the set of file paths the implementation reported)
   or a run over explicitly named files.  Per observation the harness gets back
   [impl = spec ; model ideal = spec ; impl = model c for every candidate c]. *)
From TL Require Import Lib.Base Lib.GenTypes Model.CollectStr Model.Glob Gen.CollectGen Model.Collect Model.CollectSpec.

(* the vector q with flag i toggled: a former defect switched on, or a still-listed one switched off *)
Definition with_flag (i : nat) (q : cquirks) : cquirks :=
  let f (k : nat) (b : bool) := if Nat.eqb i k then negb b else b in
  Build_cquirks (f 0 (q_excl_above_root q)) (f 1 (q_excl_filename q)) (f 2 (q_dirpat_prefix q)) (f 3 (q_dirpat_filename q))
                (f 4 (q_doublestar_needs_dir q)) (f 5 (q_ti_shadows_config q)) (f 6 (q_json_ignore_unused q)) (f 7 (q_ignore_cwd_spelling q)).

(* candidates: the claimed vector, the claimed vector with one flag toggled, the ideal *)
Definition candidates (q : cquirks) : list cquirks := q :: map (fun i => with_flag i q) [0;1;2;3;4;5;6;7] ++ [ideal].

(* the directory at rel inside t *)
Fixpoint subtree (fuel : nat) (t : tree) (rel : list string) : option tree :=
  match rel with
  | [] => Some t
  | n :: rest =>
    match fuel with
    | 0 => None
    | S fuel' =>
      match find (fun c => match c with Dir m _ => String.eqb m n | File _ => false end) (children t) with
      | Some c => subtree fuel' c rest
      | None => None
      end
    end
  end.

Definition subset (a b : list string) : bool := forallb (fun x => smem x b) a.
Definition same_set (a b : list string) : bool := subset a b && subset b a.

Inductive obs :=
| ODir (recursive : bool) (rel : list string) (impl : list string)
| ODirPar (recursive : bool) (rel : list string) (impl : list string)     (* through lint_directory_parallel / --parallel *)
| OFiles (ps : list (list string)) (impl : list string)
| OMixed (recursive parallel : bool) (files : list (list string)) (dirs : list (list string)) (impl : list string).   (* one run, several targets *)

Definition dirs_of (t : tree) (dirs : list (list string)) : option (list (list string * tree)) :=
  fold_right (fun rel acc => match subtree 64 t rel, acc with Some d, Some l => Some ((rel, d) :: l) | _, _ => None end) (Some []) dirs.

Definition out (l : list (list string)) : list string := map pjoin l.

Definition model_out (q : cquirks) (abs : list string) (sp : spelling) (t : tree) (S : tsources) (o : obs) : list string :=
  match o with
  | ODir r rel _ => match subtree 64 t rel with
                    | Some d => out (run_dir q r abs sp rel d (render_sources S))
                    | None => ["<no such directory>"]
                    end
  | ODirPar r rel _ => match subtree 64 t rel with
                       | Some d => out (run_dir_par q r abs sp rel d (render_sources S))
                       | None => ["<no such directory>"]
                       end
  | OFiles ps _ => out (run_files q abs sp (render_sources S) ps)
  | OMixed r par fs ds _ => match dirs_of t ds with
                            | Some l => out (run_paths q r par abs sp (render_sources S) fs l)
                            | None => ["<no such directory>"]
                            end
  end.

Definition spec_out (t : tree) (S : tsources) (o : obs) : list string :=
  match o with
  | ODir r rel _ | ODirPar r rel _ =>
                    match subtree 64 t rel with
                    | Some d => out (spec_dir r rel d S)
                    | None => ["<no such directory>"]
                    end
  | OFiles ps _ => out (spec_files S ps)
  | OMixed r _ fs ds _ => match dirs_of t ds with
                          | Some l => out (spec_paths r S fs l)
                          | None => ["<no such directory>"]
                          end
  end.

Definition impl_out (o : obs) : list string := match o with ODir _ _ i | ODirPar _ _ i => i | OFiles _ i => i | OMixed _ _ _ _ i => i end.

(* the domain hypotheses of the theorems, checked on the generated input *)
Definition in_domain (t : tree) (S : tsources) (o : obs) : bool :=
  tsources_ok S &&
  match o with
  | ODir _ rel _ | ODirPar _ rel _ => rel_ok rel && match subtree 64 t rel with Some d => target_ok d | None => false end
  | OFiles ps _ => forallb path_ok ps
  | OMixed _ _ fs ds _ => forallb path_ok fs
                          && forallb (fun rel => rel_ok rel && match subtree 64 t rel with Some d => target_ok d | None => false end) ds
  end.

Definition judge (q : cquirks) (abs : list string) (sp : spelling) (t : tree) (S : tsources) (os : list obs) : list (list bool) :=
  map (fun o =>
         let spo := spec_out t S o in
         same_set (impl_out o) spo
         :: same_set (model_out ideal abs sp t S o) spo
         :: in_domain t S o
         :: map (fun c => same_set (impl_out o) (model_out c abs sp t S o)) (candidates q))
      os.

(* leaf level: primitives against CPython *)
Definition leaf_fnm (l : list (string * string)) : list bool := map (fun x => fnm (fst x) (snd x)) l.
Definition leaf_matches (q : cquirks) (l : list (string * string)) : list bool := map (fun x => matches q (fst x) (snd x)) l.
Definition b2nat (b : bool) : nat := if b then 1 else 0.
