(* Model/Edit.v — the meaning-preserving edits of property C13 as an algebra on line lists.
   A file is the list of pieces `content.split("\n")` yields (FileLintContext.file_lines; the same list every
   text-level step of the linters starts from).  An edit maps a piece list to a piece list and comes with
   `shift e : nat -> nat`, the movement of 1-based line numbers.  Definitions only. *)
From TL Require Import Lib.Base Model.PyStr.

(* ---------- list surgery ---------- *)
(* insert x before index k (0-based); k beyond the end appends *)
Fixpoint ins {A : Type} (k : nat) (x : A) (l : list A) : list A :=
  match k, l with
  | 0, _ => x :: l
  | S k', y :: r => y :: ins k' x r
  | S _, [] => [x]
  end.

(* apply f to the element at index k *)
Fixpoint upd {A : Type} (k : nat) (f : A -> A) (l : list A) : list A :=
  match k, l with
  | _, [] => []
  | 0, y :: r => f y :: r
  | S k', y :: r => y :: upd k' f r
  end.

(* apply f to every element but the last one *)
Fixpoint map_init {A : Type} (f : A -> A) (l : list A) : list A :=
  match l with
  | [] => []
  | [x] => [x]
  | x :: r => f x :: map_init f r
  end.

(* line v (1-based) after a line was inserted before index k: the lines at or below the new line move down *)
Definition shift_ins (k v : nat) : nat := if k <? v then S v else v.

(* ---------- pieces of text ---------- *)
Definition cr : string := String c13 EmptyString.
Definition nl : string := String c10 EmptyString.
Definition c239 : ascii := Eval compute in ascii_of_nat 239.
Definition c187 : ascii := Eval compute in ascii_of_nat 187.
Definition c191 : ascii := Eval compute in ascii_of_nat 191.
(* U+FEFF in UTF-8 *)
Definition bom : string := String c239 (String c187 (String c191 EmptyString)).

Definition is_blank_char (c : ascii) : bool := is c32 c || is c9 c.     (* indentation characters *)
Fixpoint all_of (p : ascii -> bool) (s : string) : bool :=
  match s with EmptyString => true | String c r => p c && all_of p r end.

(* the text after the leading run of spaces and tabs *)
Fixpoint body_of (s : string) : string :=
  match s with
  | EmptyString => EmptyString
  | String c r => if is_blank_char c then body_of r else s
  end.
Definition set_indent (w s : string) : string := (w ++ body_of s)%string.

(* drop one trailing CR *)
Fixpoint drop_cr (s : string) : string :=
  match s with
  | EmptyString => EmptyString
  | String c r => match r with EmptyString => if is c13 c then EmptyString else s | _ => String c (drop_cr r) end
  end.
Definition strip_bom (s : string) : string := if prefixb bom s then sdrop 3 s else s.

(* ---------- the edits ---------- *)
Inductive edit :=
| InsLine (k : nat) (x : string)     (* a new line before index k: blank, comment, or (at the end) unrelated code *)
| TrailWS (k : nat) (w : string)     (* white space appended to line k *)
| SetIndent (k : nat) (w : string)   (* the leading spaces / tabs of line k replaced by w (re-indentation, line by line) *)
| ToCRLF                             (* every "\n" becomes "\r\n": every piece but the last gains a CR *)
| ToLF
| AddBOM
| DropBOM.

Definition apply (e : edit) (ls : list string) : list string :=
  match e with
  | InsLine k x => ins k x ls
  | TrailWS k w => upd k (fun l => (l ++ w)%string) ls
  | SetIndent k w => upd k (set_indent w) ls
  | ToCRLF => map_init (fun l => (l ++ cr)%string) ls
  | ToLF => map_init drop_cr ls
  | AddBOM => match ls with [] => [bom] | l :: r => (bom ++ l)%string :: r end
  | DropBOM => match ls with [] => [] | l :: r => strip_bom l :: r end
  end.

Definition shift (e : edit) (v : nat) : nat :=
  match e with InsLine k _ => shift_ins k v | _ => v end.

Definition apply_all (es : list edit) (ls : list string) : list string := fold_left (fun acc e => apply e acc) es ls.
Definition shift_all (es : list edit) (v : nat) : nat := fold_left (fun acc e => shift e acc) es v.

(* the text of a piece list *)
Fixpoint join_nl (l : list string) : string :=
  match l with [] => EmptyString | [x] => x | x :: r => (x ++ String c10 (join_nl r))%string end.

(* `content.split("\n")` *)
Definition pieces (content : string) : list string := split_char c10 content.

(* every "\n" of a text replaced by "\r\n" *)
Fixpoint to_crlf (s : string) : string :=
  match s with
  | EmptyString => EmptyString
  | String c r => if is c10 c then String c13 (String c10 (to_crlf r)) else String c (to_crlf r)
  end.

Fixpoint strs_eqb (a b : list string) : bool :=
  match a, b with
  | [], [] => true
  | x :: a', y :: b' => String.eqb x y && strs_eqb a' b'
  | _, _ => false
  end.
