(* Model/Skel.v — language-independent control-flow skeletons (the abstract input of C01,
   reused by C05/C12/C13/C19) and the documented notion of nesting depth.  No proofs. *)
From TL Require Import Lib.Base.

Inductive fkind := FDef | FAsyncDef | FArrow | FMethod | FFnExpr | FGen
                   | FArrowExpr.   (* arrow function with an expression body: `(a) => (b) => { ... }`,
                                      `(rows) => rows.map((x) => { ... })`; its children are the functions
                                      inside the expression; it has no statements of its own *)

(* function-like nodes that have a body of statements and are therefore judged *)
Definition judged (fk : fkind) : bool := match fk with FArrowExpr => false | _ => true end.

Inductive kind :=
| KSimple
| KIf | KElif | KElse                 (* KElif / KElse are trailing children of a KIf *)
| KFor | KForIn | KAsyncFor | KWhile | KDoWhile | KWith | KAsyncWith
| KTry | KHandler | KFinally          (* KHandler / KFinally are trailing children of a KTry *)
| KSwitch | KCase                     (* switch / match; KCase children of a KSwitch *)
| KLoop | KClosure | KAsyncBlock
| KClass                              (* class / impl container of methods *)
| KFn (fk : fkind) (name : string) (line col : nat).

Inductive tree := T (k : kind) (cs : list tree).

Definition tkind (t : tree) : kind := match t with T k _ => k end.
Definition tkids (t : tree) : list tree := match t with T _ cs => cs end.

(* induction principle that reaches through the list of children *)
Section TreeInd.
  Variable P : tree -> Prop.
  Hypothesis H : forall k cs, Forall P cs -> P (T k cs).
  Fixpoint tree_ind' (t : tree) : P t :=
    match t with
    | T k cs =>
      H k cs ((fix go (l : list tree) : Forall P l :=
                 match l with
                 | [] => Forall_nil P
                 | x :: xs => Forall_cons x (tree_ind' x) (go xs)
                 end) cs)
    end.
End TreeInd.

(* a control structure in the sense of the nesting documentation *)
Definition counts (k : kind) : bool :=
  match k with
  | KIf | KFor | KForIn | KAsyncFor | KWhile | KDoWhile | KWith | KAsyncWith
  | KTry | KSwitch | KLoop | KClosure | KAsyncBlock => true
  | _ => false
  end.

(* number of control structures on the deepest path through t (an if/elif/else chain is one
   KIf node, its branches are non-counting children) *)
Fixpoint nest (t : tree) : nat :=
  match t with T k cs => b2n (counts k) + maxl (map nest cs) end.

(* documented depth of a function with body cs: 1 for the body plus one per enclosing
   control structure of the deepest statement *)
Definition doc_depth (body : list tree) : nat := 1 + maxl (map nest body).

(* every function-like node of a file, outermost first *)
Record fninfo := { fn_kind : fkind; fn_name : string; fn_line : nat; fn_col : nat; fn_body : list tree }.

Fixpoint functions_of (t : tree) : list fninfo :=
  match t with
  | T k cs =>
    (match k with
     | KFn fk name line col => [{| fn_kind := fk; fn_name := name; fn_line := line; fn_col := col; fn_body := cs |}]
     | _ => []
     end) ++ flat_map functions_of cs
  end.

Definition file_functions (file : list tree) : list fninfo := flat_map functions_of file.

(* one reported function: header line, column, name, stated depth *)
Definition nrep := (nat * nat * string * nat)%type.
Definition nrep_eqb (a b : nrep) : bool :=
  match a, b with (l1, c1, n1, d1), (l2, c2, n2, d2) =>
    (l1 =? l2) && (c1 =? c2) && String.eqb n1 n2 && (d1 =? d2) end.

(* the specification of `thailint nesting` on a file: exactly the functions whose documented
   depth exceeds the limit, each with that depth *)
Definition spec_report (limit : nat) (file : list tree) : list nrep :=
  flat_map (fun f => let d := doc_depth (fn_body f) in
                     if judged (fn_kind f) && (limit <? d) then [(fn_line f, fn_col f, fn_name f, d)] else [])
           (file_functions file).

(* wrap the deepest statement of a body in one more structure k *)
Fixpoint deepest_index (l : list nat) : nat :=
  match l with
  | [] => 0
  | x :: xs => if maxl xs <=? x then 0 else S (deepest_index xs)
  end.

Section UpdAt.
  Context {A : Type} (f : A -> A).
  Fixpoint upd_at (l : list A) (j : nat) : list A :=
    match l with
    | [] => []
    | x :: xs => match j with O => f x :: xs | S j' => x :: upd_at xs j' end
    end.
End UpdAt.

Fixpoint wrap_deepest (k : kind) (t : tree) : tree :=
  match t with
  | T k0 [] => T k [T k0 []]
  | T k0 cs => T k0 (upd_at (wrap_deepest k) cs (deepest_index (map nest cs)))
  end.

Definition wrap_body (k : kind) (body : list tree) : list tree :=
  match body with
  | [] => [T k []]
  | _ => upd_at (wrap_deepest k) body (deepest_index (map nest body))
  end.
