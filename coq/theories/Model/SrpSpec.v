(* Model/SrpSpec.v — the specification of `thailint srp` (property C16) and the domain of admissible
   inputs.  Written from the property statement and docs/srp-linter.md only: every literal in this
   file (key names, defaults 7 / 200, keyword list, message texts, comment markers) is the documented
   one; nothing is read from the generated layer.  No proofs. *)
From TL Require Import Lib.Base Model.SrpTypes.

(* ------------------------------------------------------------------ configuration *)
Definition lang_key (l : lang) : string :=
  match l with Py => "python" | Ts => "typescript" | Js => "javascript" | Rs => "rust" end.
Definition ext_of (l : lang) : string :=
  match l with Py => ".py" | Ts => ".ts" | Js => ".js" | Rs => ".rs" end.

(* the file extensions of each language *)
Definition ext_ok (l : lang) (e : string) : bool :=
  match l with
  | Py => String.eqb e ".py"
  | Ts => String.eqb e ".ts" || String.eqb e ".tsx"
  | Js => String.eqb e ".js" || String.eqb e ".jsx"
  | Rs => String.eqb e ".rs"
  end.

Definition spec_section (c : config) : section := match lookup "srp" c with Some s => s | None => [] end.

(* "Configuration Priority": language-specific setting, then top-level setting, then built-in default *)
Definition spec_threshold (key : string) (dflt : nat) (s : section) (l : lang) : nat :=
  match (match sec_sub (lang_key l) s with Some ls => lookup key ls | None => None end) with
  | Some n => n
  | None => match sec_nat key s with Some n => n | None => dflt end
  end.
Definition spec_mm := spec_threshold "max_methods" 7.
Definition spec_ml := spec_threshold "max_loc" 200.
Definition spec_check (s : section) : bool := match sec_bool "check_keywords" s with Some b => b | None => true end.
Definition spec_enabled (s : section) : bool := match sec_bool "enabled" s with Some b => b | None => true end.
Definition spec_keywords (s : section) : list string :=
  match sec_strs "keywords" s with Some l => l | None => ["Manager"; "Handler"; "Processor"; "Utility"; "Helper"] end.

(* ------------------------------------------------------------------ the three metrics *)
(* "Count public methods (excluding properties and private methods)": property getters, setters / deleters and
   cached properties are the parts of a property, not methods of the public interface; private = name starts with _
   (which covers dunder methods); a constructor is the TS/JS counterpart of __init__; methods
   declared private / protected / #private are not public; static, class and async methods count *)
Definition public_method (m : member) : bool :=
  match m_kind m with
  | MPlain | MAsync | MStatic | MClassM | MPublicKw | MPubFn => negb (starts_with "_" (m_name m))
  | MProperty | MSetter | MCachedProp | MCtor | MPrivateKw | MProtectedKw | MHashPrivate | MField => false
  end.
Definition spec_methods (ms : list member) : nat := List.length (filter public_method ms).

(* "Count lines of code (excluding blank lines and comments)" over the source lines of the node *)
Definition is_code (l : line) : bool := match l_kind l with LCode | LStrHash => true | _ => false end.
Definition extent (lines : list line) (start len : nat) : list line := firstn len (skipn (start - 1) lines).
Definition spec_loc (lines : list line) (start len : nat) : nat := List.length (filter is_code (extent lines start len)).

(* "its name contains a configured responsibility keyword" *)
Definition spec_keyword (kws : list string) (name : string) : bool := existsb (fun kw => contains kw name) kws.

(* ------------------------------------------------------------------ verdict and message *)
Definition methods_text (mc mm : nat) : string := sconcat [show_nat mc; " methods (max: "; show_nat mm; ")"].
Definition lines_text (loc ml : nat) : string := sconcat [show_nat loc; " lines (max: "; show_nat ml; ")"].
Definition keyword_text : string := "responsibility keyword in name".

Definition spec_issues (mm ml : nat) (check : bool) (mc loc : nat) (kw : bool) : list string :=
  (if mm <? mc then [methods_text mc mm] else [])
  ++ (if ml <? loc then [lines_text loc ml] else [])
  ++ (if check && kw then [keyword_text] else []).

Definition spec_message (name : string) (issues : list string) : string :=
  sconcat ["Class '"; name; "' may violate SRP: "; join ", " issues].

(* one class / struct: at most one violation, at the position of the class, naming exactly the
   exceeded criteria with the counts *)
Definition spec_unit_rep (name : string) (line col : nat) (mm ml : nat) (check : bool) (mc loc : nat) (kw : bool) : list rep :=
  match spec_issues mm ml check mc loc kw with
  | [] => []
  | issues => [(line, col, spec_message name issues)]
  end.

(* a Rust struct's impl blocks: same module, self type = the struct *)
Definition own_impl (s : rstruct) (i : rimpl) : bool := String.eqb (s_name s) (i_self i) && path_eqb (s_path s) (i_path i).

Definition spec_class_rep (s : section) (f : sfile) (c : cls) : list rep :=
  spec_unit_rep (c_name c) (c_line c) (c_col c) (spec_mm s (f_lang f)) (spec_ml s (f_lang f)) (spec_check s)
                (spec_methods (c_members c)) (spec_loc (f_lines f) (c_line c - c_deco c) (c_len c))
                (spec_keyword (spec_keywords s) (c_name c)).

Definition spec_struct_rep (s : section) (f : sfile) (st : rstruct) : list rep :=
  let impls := filter (own_impl st) (f_impls f) in
  spec_unit_rep (s_name st) (s_line st) (s_col st) (spec_mm s (f_lang f)) (spec_ml s (f_lang f)) (spec_check s)
                (list_sum (map (fun i => spec_methods (i_members i)) impls))
                (spec_loc (f_lines f) (s_line st) (s_len st) + list_sum (map (fun i => spec_loc (f_lines f) (i_line i) (i_len i)) impls))
                (spec_keyword (spec_keywords s) (s_name st)).

Definition spec_report (c : config) (f : sfile) : list rep :=
  let s := spec_section c in
  if negb (spec_enabled s) then []
  else match f_lang f with
       | Rs => flat_map (spec_struct_rep s f) (f_structs f)
       | _ => flat_map (spec_class_rep s f) (f_classes f)
       end.

(* ------------------------------------------------------------------ admissible inputs *)
Definition comment_marker (l : lang) : string := match l with Py => "#" | _ => "//" end.
Definition block_marker : string := "/*".

(* the kind of a line agrees with its text (after strip); ASCII only (str.strip also removes non-ASCII spaces) *)
Definition line_good (l : lang) (x : line) : bool :=
  ascii_only (l_raw x) &&
  match l_kind x with
  | LBlank => String.eqb (l_text x) ""
  | LComment => starts_with (comment_marker l) (l_text x)
  | LBlockComment => match l with Py => false | _ => starts_with block_marker (l_text x) end
  | LCode => negb (String.eqb (l_text x) "") && negb (starts_with (comment_marker l) (l_text x))
             && match l with Py => true | _ => negb (starts_with block_marker (l_text x)) end
  | LStrHash => match l with Py => starts_with "#" (l_text x) | _ => false end
  end.

Definition mkind_ok (l : lang) (k : mkind) : bool :=
  match l, k with
  | Py, (MPlain | MAsync | MStatic | MClassM | MProperty | MSetter | MCachedProp | MField) => true
  | Ts, (MPlain | MAsync | MStatic | MProperty | MSetter | MCtor | MPublicKw | MPrivateKw | MProtectedKw | MHashPrivate | MField) => true
  | Js, (MPlain | MAsync | MStatic | MProperty | MSetter | MCtor | MHashPrivate | MField) => true
  | Rs, (MPlain | MAsync | MStatic | MField | MPubFn) => true
  | _, _ => false
  end.

Definition is_ctor (k : mkind) : bool := match k with MCtor => true | _ => false end.

Definition member_good (l : lang) (m : member) : bool :=
  mkind_ok l (m_kind m) && negb (String.eqb (m_name m) "")
  && match l with Ts | Js => Bool.eqb (is_ctor (m_kind m)) (String.eqb (m_name m) "constructor") | _ => true end.

Definition ckind_ok (l : lang) (k : ckind) : bool :=
  match l, k with
  | _, CPlain => true
  | (Ts | Js), (CExport | CExportDefault | CExprNamed) => true
  | Ts, (CAbstract | CExportAbstract) => true
  | _, _ => false
  end.

(* a node occupying source lines start .. start+len-1 of a file with n lines *)
Definition span_good (n start len : nat) : bool := (1 <=? start) && (1 <=? len) && (start + len - 1 <=? n).

(* the class node starts c_deco lines above the keyword line (decorators; TypeScript only) *)
Definition cls_good (l : lang) (n : nat) (c : cls) : bool :=
  ckind_ok l (c_kind c) && negb (String.eqb (c_name c) "") && span_good n (c_line c - c_deco c) (c_len c)
  && match l with Ts => true | _ => c_deco c =? 0 end
  && forallb (member_good l) (c_members c).

Definition struct_good (n : nat) (s : rstruct) : bool :=
  negb (String.eqb (s_name s) "") && span_good n (s_line s) (s_len s).

Definition traitref_good (t : traitref) : bool :=
  match t with TNone => true | TSimple t => negb (String.eqb t "") | TScoped p t => negb (String.eqb t "") end.

Definition impl_good (n : nat) (i : rimpl) : bool :=
  negb (String.eqb (i_self i) "") && traitref_good (i_trait i) && span_good n (i_line i) (i_len i)
  && forallb (member_good Rs) (i_members i).

Definition file_good (f : sfile) : bool :=
  ext_ok (f_lang f) (f_ext f)
  && forallb (line_good (f_lang f)) (f_lines f)
  && match f_lang f with
     | Rs => forallb (struct_good (List.length (f_lines f))) (f_structs f) && forallb (impl_good (List.length (f_lines f))) (f_impls f)
     | l => forallb (cls_good l (List.length (f_lines f))) (f_classes f)
     end.

(* configurations on which the model is validated against the implementation (the theorems do not
   need this): documented key types, thresholds >= 1 (SRPConfig rejects the others) *)
Definition cval_good (k : string) (v : cval) : bool :=
  match v with
  | VNat n => (String.eqb k "max_methods" || String.eqb k "max_loc") && (1 <=? n)
  | VBool _ => String.eqb k "check_keywords" || String.eqb k "enabled"
  | VStrs _ => String.eqb k "keywords"
  | VSec kv => (String.eqb k "python" || String.eqb k "typescript" || String.eqb k "javascript" || String.eqb k "rust")
               && forallb (fun e => (String.eqb (fst e) "max_methods" || String.eqb (fst e) "max_loc") && (1 <=? snd e)) kv
  end.
Definition config_good (c : config) : bool :=
  forallb (fun e => forallb (fun kv => cval_good (fst kv) (snd kv)) (snd e)) c.

(* ------------------------------------------------------------------ defect classes (for the confinement theorems) *)
Definition is_lang (l : lang) (f : sfile) : bool :=
  match l, f_lang f with Py, Py | Ts, Ts | Js, Js | Rs, Rs => true | _, _ => false end.
Definition is_tsjs (f : sfile) : bool := is_lang Ts f || is_lang Js f.

(* no # line inside a multi-line string (Python) *)
Definition free_py_hash (f : sfile) : bool :=
  negb (is_lang Py f) || forallb (fun x => negb (lkind_eqb (l_kind x) LStrHash)) (f_lines f).
Definition nonpublic (k : mkind) : bool := match k with MPrivateKw | MProtectedKw | MHashPrivate => true | _ => false end.
Definition accessor (k : mkind) : bool := match k with MProperty | MSetter => true | _ => false end.
Definition is_setter (k : mkind) : bool := match k with MSetter => true | _ => false end.
Definition is_cached (k : mkind) : bool := match k with MCachedProp => true | _ => false end.
(* no property setter / deleter, no cached property (Python) *)
Definition free_py_setter (f : sfile) : bool :=
  negb (is_lang Py f) || forallb (fun c => forallb (fun m => negb (is_setter (m_kind m))) (c_members c)) (f_classes f).
Definition free_py_cached (f : sfile) : bool :=
  negb (is_lang Py f) || forallb (fun c => forallb (fun m => negb (is_cached (m_kind m))) (c_members c)) (f_classes f).
Definition free_ts_nonpublic (f : sfile) : bool :=
  negb (is_tsjs f) || forallb (fun c => forallb (fun m => negb (nonpublic (m_kind m))) (c_members c)) (f_classes f).
Definition free_ts_accessor (f : sfile) : bool :=
  negb (is_tsjs f) || forallb (fun c => forallb (fun m => negb (accessor (m_kind m))) (c_members c)) (f_classes f).
(* no one-line block comment (TS/JS; Rust) *)
Definition free_ts_block (f : sfile) : bool :=
  negb (is_tsjs f) || forallb (fun x => negb (lkind_eqb (l_kind x) LBlockComment)) (f_lines f).
Definition free_rs_block (f : sfile) : bool :=
  negb (is_lang Rs f) || forallb (fun x => negb (lkind_eqb (l_kind x) LBlockComment)) (f_lines f).
(* no two modules using one type name (Rust) *)
Definition free_rs_collision (f : sfile) : bool :=
  negb (is_lang Rs f)
  || forallb (fun s => forallb (fun i => implb (String.eqb (s_name s) (i_self i)) (path_eqb (s_path s) (i_path i))) (f_impls f)) (f_structs f).
(* no class expression (TS/JS) *)
Definition is_class_expr (k : ckind) : bool := match k with CExprNamed => true | _ => false end.
Definition free_ts_class_expr (f : sfile) : bool :=
  negb (is_tsjs f) || forallb (fun c => negb (is_class_expr (c_kind c))) (f_classes f).
Definition is_abstract (k : ckind) : bool := match k with CAbstract | CExportAbstract => true | _ => false end.
