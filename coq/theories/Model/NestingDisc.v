(* Model/NestingDisc.v — the function-discovery layer of the nesting linter and the limit-resolution chain.

   Model/Nesting.v judges the functions of a skeleton file one by one (`file_functions`).  The code does not get
   that list: it gets ONE parse tree and finds the function nodes itself -
     Python      PythonNestingAnalyzer.find_all_functions : `for node in ast.walk(tree)` (breadth first, a deque),
                 keeping FunctionDef / AsyncFunctionDef nodes;
     TS / JS     TypeScriptFunctionExtractor._collect_functions_recursive : pre-order over ALL children,
                 extract_function_info tests the node type against a list of literals;
     Rust        RustNestingAnalyzer._collect_functions_recursive : pre-order, `node.type == "function_item"`;
   then calls calculate_max_depth on every node found (so the body of a nested function is visited once for the
   nested function and once more as part of every enclosing function) and compares with the limit.
   This file models exactly that on whole-file trees whose function nodes carry what the parser node carries
   (name, header line, column).  Proofs/NestingDisc.v shows: the tagged trees are the trees of Model/Nesting.v
   (erasure), every function-like node of the file is found exactly once, and the report computed this way is
   the report of Model/Nesting.v (a permutation of it for Python, whose walk is breadth first).
   No proofs in this file. *)
From TL Require Import Lib.Base Lib.GenTypes Gen.NestingGen Model.Skel Model.Nesting.

Definition ident := (string * nat * nat)%type.      (* name, header line, header column *)

Definition fn_tag (k : kind) : option ident :=
  match k with KFn _ name line col => Some (name, line, col) | _ => None end.

Definition emit (skip : cmp) (depth limit : nat) (tag : option ident) : list nrep :=
  match tag with
  | Some (name, line, col) => if cmp_nat skip depth limit then [] else [(line, col, name, depth)]
  | None => []
  end.

(* ------------------------------------------------------------------ Python *)
Inductive pyd :=
| PDIf (body orelse : list pyd)
| PDNode (cls : string) (tag : option ident) (children : list pyd).

Fixpoint py_erase (n : pyd) : pynode :=
  match n with
  | PDIf b o => PIf (map py_erase b) (map py_erase o)
  | PDNode cls _ cs => PNode cls (map py_erase cs)
  end.

Fixpoint to_pyd (t : tree) : pyd :=
  match t with
  | T KIf cs =>
    PDIf (flat_map (fun c => if is_branch (tkind c) then [] else [to_pyd c]) cs)
         (fold_right (fun c acc =>
                        match c with
                        | T KElif b => [PDIf (map to_pyd b) acc]
                        | T KElse b => map to_pyd b
                        | _ => acc
                        end) [] cs)
  | T k cs => PDNode (py_cls k) (fn_tag k) (map to_pyd cs)
  end.

Definition py_dcls (n : pyd) : string := match n with PDIf _ _ => "If" | PDNode cls _ _ => cls end.
Definition py_dtag (n : pyd) : option ident := match n with PDIf _ _ => None | PDNode _ tag _ => tag end.

(* ast.iter_child_nodes restricted to statements: body then orelse for an If *)
Definition py_kids (n : pyd) : list pyd := match n with PDIf b o => b ++ o | PDNode _ _ cs => cs end.

Fixpoint pyd_size (n : pyd) : nat :=
  match n with
  | PDIf b o => S (list_sum (map pyd_size b) + list_sum (map pyd_size o))
  | PDNode _ _ cs => S (list_sum (map pyd_size cs))
  end.

(* ast.walk: `todo = deque([node]); while todo: node = todo.popleft(); todo.extend(iter_child_nodes(node)); yield node` *)
Fixpoint py_walk (fuel : nat) (todo : list pyd) : list pyd :=
  match fuel with
  | 0 => []
  | S fuel' => match todo with
               | [] => []
               | n :: rest => n :: py_walk fuel' (rest ++ py_kids n)
               end
  end.

Definition py_module (file : list tree) : pyd := PDNode "Module" None (map to_pyd file).

(* find_all_functions *)
Definition py_find_all (root : pyd) : list pyd :=
  filter (fun n => smem (py_dcls n) py_function_types) (py_walk (pyd_size root) [root]).

(* calculate_max_depth on a node that was found: every statement of its body from the start depth *)
Definition py_calc_node (q : nquirks) (fn : pyd) : nat :=
  maxl (map (fun s => py_visit_src (py_controls q) (py_erase s) (py_start q) false) (py_kids fn)).

Definition py_report_d (q : nquirks) (limit : nat) (file : list tree) : list nrep :=
  flat_map (fun n => emit py_skip_cmp (py_calc_node q n) limit (py_dtag n)) (py_find_all (py_module file)).

(* ------------------------------------------------------------------ tree-sitter (TS/JS, Rust) *)
Inductive tsd := ND (ty : string) (tag : option ident) (cs : list tsd).

Fixpoint ts_erase (n : tsd) : tsnode := match n with ND ty _ cs => N ty (map ts_erase cs) end.
Definition dtag (n : tsd) : option ident := match n with ND _ tag _ => tag end.

Definition blkd (ty : string) (l : list tsd) : tsd := ND ty None (ND "{" None [] :: l ++ [ND "}" None []]).

Fixpoint wrap_ind (ws : list string) (l : list tsd) : list tsd :=
  match ws with [] => l | w :: ws' => [ND w None (wrap_ind ws' l)] end.

Section ToTsd.
  Variable nm : tsnames.
  Definition body_ofd (k : kind) (l : list tsd) : list tsd :=
    wrap_ind (n_wrap nm k) (if n_blocked nm k then [blkd (n_block nm) l] else l).

  Fixpoint to_tsd (t : tree) : tsd :=
    match t with
    | T KIf cs =>
      ND (n_if nm) None
         (blkd (n_block nm) (flat_map (fun c => if is_branch (tkind c) then [] else [to_tsd c]) cs)
          :: fold_right (fun c acc =>
                           match c with
                           | T KElif b => [ND (n_else nm) None [ND (n_if nm) None (blkd (n_block nm) (map to_tsd b) :: acc)]]
                           | T KElse b => [ND (n_else nm) None [blkd (n_block nm) (map to_tsd b)]]
                           | _ => acc
                           end) [] cs)
    | T k cs => ND (n_of nm k) (fn_tag k) (body_ofd k (map to_tsd cs))
    end.
End ToTsd.

(* _collect_functions_recursive of both tree-sitter analyzers: the node itself when its type is a function type,
   then every child in order *)
Fixpoint ts_collect (ftypes : list string) (n : tsd) : list tsd :=
  match n with
  | ND ty tag cs => (if smem ty ftypes then [ND ty tag cs] else []) ++ flat_map (ts_collect ftypes) cs
  end.

Definition ts_root (file : list tree) : tsd := ND "program" None (map (to_tsd ts_names) file).
Definition rs_root (file : list tree) : tsd := ND "source_file" None (map (to_tsd rs_names) file).

Definition ts_calc_d (q : nquirks) (fn : tsd) : nat :=
  ts_calc_node ts_nesting_types (negb (q_ts_elseif_nests q)) ts_names ts_body_type ts_start_depth (ts_erase fn).

Definition rs_calc_d (q : nquirks) (fn : tsd) : nat :=
  ts_calc_node (rs_types q) (negb (q_rs_elseif_nests q)) rs_names rs_body_type rs_start_depth (ts_erase fn).

Definition ts_report_d (q : nquirks) (limit : nat) (file : list tree) : list nrep :=
  flat_map (fun n => emit ts_skip_cmp (ts_calc_d q n) limit (dtag n)) (ts_collect (ts_fn_types q) (ts_root file)).

Definition rs_report_d (q : nquirks) (limit : nat) (file : list tree) : list nrep :=
  flat_map (fun n => emit rs_skip_cmp (rs_calc_d q n) limit (dtag n)) (ts_collect rs_function_types (rs_root file)).

Definition report_d (l : lang) (q : nquirks) (limit : nat) (file : list tree) : list nrep :=
  match l with Py => py_report_d q limit file | Ts => ts_report_d q limit file | Rs => rs_report_d q limit file end.

(* ------------------------------------------------------------------ the limit that applies to a file *)
(* The nesting section of the configuration as the rule sees it: the top-level max_nesting_depth (if written)
   and per-language blocks (name, max_nesting_depth if written in the block).  NestingConfig.from_dict:
       if language and language in config: lang_config.get(KEY, config.get(KEY, DEFAULT)) else config.get(KEY, DEFAULT)
   The CLI option --max-depth (structure_quality._apply_nesting_config_override) writes the top-level key and the
   key of every language block that exists, for the languages of its literal list. *)
Record nsection := { s_top : option nat; s_langs : list (string * option nat) }.

Fixpoint lang_block (name : string) (bl : list (string * option nat)) : option (option nat) :=
  match bl with
  | [] => None
  | (n, v) :: r => if String.eqb n name then Some v else lang_block name r
  end.

Definition odflt (o : option nat) (d : nat) : nat := match o with Some v => v | None => d end.

Definition from_dict (s : nsection) (language : string) : nat :=
  match lang_block language (s_langs s) with
  | Some blockv => odflt blockv (if lang_block_fallback_top then odflt (s_top s) default_max_nesting_depth
                                 else default_max_nesting_depth)
  | None => odflt (s_top s) default_max_nesting_depth
  end.

Definition apply_override (langs : list string) (s : nsection) (cli : option nat) : nsection :=
  match cli with
  | None => s
  | Some v => {| s_top := Some v;
                 s_langs := map (fun b => if smem (fst b) langs then (fst b, Some v) else b) (s_langs s) |}
  end.

Definition effective_limit (s : nsection) (cli : option nat) (language : string) : nat :=
  from_dict (apply_override cli_override_languages s cli) language.

(* documented precedence: command line over the language's block over the top-level key over the default *)
Definition spec_limit (s : nsection) (cli : option nat) (language : string) : nat :=
  match cli with
  | Some v => v
  | None => match lang_block language (s_langs s) with
            | Some (Some v) => v
            | _ => odflt (s_top s) default_max_nesting_depth
            end
  end.
