(* Model/SrpTypes.v — the small types the generated layer of the SRP linter (Gen/SrpGen.v) is
   expressed in, and the abstract input of property C16.  No proofs. *)
From TL Require Import Lib.Base Lib.GenTypes.

(* ------------------------------------------------------------------ generated-layer vocabulary *)
(* parts of the f-string of one issue in evaluate_metrics *)
Inductive fpart := FLit (s : string) | FMetric (key : string) | FConfig (attr : string).

(* one `if ...: issues.append(f"...")` statement of evaluate_metrics, in source order *)
Inductive clause :=
| CThreshold (metric : string) (op : cmp) (attr : string) (text : list fpart)   (* metrics[metric] <op> config.attr *)
| CFlag (attr : string) (metric : string) (text : list fpart).                 (* config.attr and metrics[metric] *)

(* parts of the violation message f-string *)
Inductive mpart := SLit (s : string) | SMetric (key : string) | SJoin (sep : string).

(* the test applied to (keyword, class name) inside any(...) *)
Inductive kwmode := KwIn | KwRev | KwEq.

(* one `if <test>: return False` statement of an _is_countable_method function, in source order *)
Inductive mtest :=
| TNotNodeType (ty : string)    (* node.type != ty *)
| TNameEq (s : string)          (* method_name == s *)
| TNamePrefix (p : string)      (* method_name and method_name.startswith(p) *)
| TPyProperty (id : string)     (* has_property_decorator(node): a decorator that is the plain name id *)
| TPyPrivate (p : string).      (* _is_private_method(node.name): name.startswith(p) *)

(* what a value of the dict returned by analyze_class / analyze_struct is computed from *)
(* TLine / TColumn: start of the class node;  THLine / THColumn: start of its `class` / `abstract` keyword
   (TypeScript _header_node: decorators precede the keyword inside the class node) *)
Inductive mtag := TName | TMethodCount | TLoc | THasKeyword | TLine (plus : nat) | TColumn | THLine (plus : nat) | THColumn.

(* TypeScript count_loc: raw line span + plus, or the number of lines of lines[start - lo_sub : end + hi_add]
   that are non-empty after strip() and do not start with the prefix *)
Inductive locmode := LocSpan (plus : nat) | LocFilter (lo_sub hi_add : nat) (pfx : string).

(* Rust get_impl_target_name: the first child of the given node type, or first the `type` field of the impl
   (unwrapped when it is a node of type gty) when its node type is ty, then the first child of type loop_ty *)
Inductive tmode := TargetFirst (ty : string) | TargetField (gty ty loop_ty : string).

(* ------------------------------------------------------------------ abstract input *)
Inductive lang := Py | Ts | Js | Rs.

(* a physical source line: what it is (ground truth of the generator) and its raw text (without the newline);
   the analyzers look at l_text = str.strip() of it *)
Inductive lkind :=
| LBlank          (* empty or whitespace only *)
| LComment        (* line comment: # in Python, // in TypeScript/JavaScript/Rust *)
| LBlockComment   (* TS/JS/Rust: a one-line block comment *)
| LCode           (* anything else: code, also a line with code followed by a comment *)
| LStrHash.       (* Python: a line inside a multi-line string literal whose text starts with # *)
Record line := { l_kind : lkind; l_raw : string }.

(* members of a class body / impl block as written in the source *)
Inductive mkind :=
| MPlain        (* def f(self) / f() {} / fn f(&self) *)
| MAsync        (* async def / async f() / async fn *)
| MStatic       (* @staticmethod / static f() / fn f() without self *)
| MClassM       (* @classmethod (Python) *)
| MProperty     (* @property (Python), get f() (TS/JS) *)
| MCtor         (* constructor() (TS/JS) *)
| MPublicKw     (* public f() (TS) *)
| MPrivateKw    (* private f() (TS) *)
| MProtectedKw  (* protected f() (TS) *)
| MHashPrivate  (* #f() (TS/JS) *)
| MField        (* x = 1 / x = 1; / const X: i32 = 1; -- not a method *)
| MPubFn        (* pub fn f(&self) (Rust) *)
| MSetter       (* @x.setter / @x.deleter (Python), set f(v) (TS/JS) *)
| MCachedProp.  (* @cached_property (Python) *)
Record member := { m_kind : mkind; m_name : string }.

(* CExprNamed: a named class EXPRESSION bound by a declaration or assignment (`const X = class Name {`, `module.exports = class Name {`);
   its line / column are those of its `class` keyword *)
Inductive ckind := CPlain | CExport | CExportDefault | CAbstract | CExportAbstract | CExprNamed.

(* a class of a Python / TypeScript / JavaScript file as the parser reports it: name, 1-based line and
   0-based column of its `class` (`abstract class`) keyword, number of decorator lines that precede the
   keyword line INSIDE the class node (TypeScript, non-exported classes), number of source lines of the
   node (decorator lines included), direct members of its body in order.  Nested classes are separate records. *)
Record cls := { c_name : string; c_kind : ckind; c_line : nat; c_col : nat; c_deco : nat; c_len : nat; c_members : list member }.

(* Rust: struct definitions and impl blocks, each with the module path it sits in *)
Inductive traitref := TNone | TSimple (t : string) | TScoped (p t : string).
Record rstruct := { s_name : string; s_path : list string; s_generic : bool; s_line : nat; s_col : nat; s_len : nat }.
Record rimpl := { i_self : string; i_trait : traitref; i_generic : bool; i_path : list string;
                  i_line : nat; i_len : nat; i_members : list member }.

Record sfile := { f_lang : lang; f_ext : string; f_lines : list line;
                  f_classes : list cls; f_structs : list rstruct; f_impls : list rimpl }.

(* configuration as written by the user: the value of one key of the `srp:` section *)
Inductive cval := VNat (n : nat) | VBool (b : bool) | VStrs (l : list string) | VSec (kv : list (string * nat)).
Definition section := list (string * cval).
(* the whole configuration: section name -> section *)
Definition config := list (string * section).

(* one reported violation: line, column, message *)
Definition rep := (nat * nat * string)%type.
Definition rep_eqb (a b : rep) : bool :=
  match a, b with (l1, c1, m1), (l2, c2, m2) => (l1 =? l2) && (c1 =? c2) && String.eqb m1 m2 end.

(* ------------------------------------------------------------------ shared helper functions *)
(* str.strip() on ASCII text: the characters Python's str.isspace accepts below 128 *)
Definition is_ws (c : ascii) : bool :=
  let n := nat_of_ascii c in ((9 <=? n) && (n <=? 13)) || ((28 <=? n) && (n <=? 32)).
Fixpoint lstrip (s : string) : string :=
  match s with EmptyString => EmptyString | String c r => if is_ws c then lstrip r else s end.
Fixpoint rstrip (s : string) : string :=
  match s with
  | EmptyString => EmptyString
  | String c r => match rstrip r with
                  | EmptyString => if is_ws c then EmptyString else String c EmptyString
                  | r' => String c r'
                  end
  end.
Definition strip (s : string) : string := rstrip (lstrip s).
Definition l_text (x : line) : string := strip (l_raw x).
Fixpoint ascii_only (s : string) : bool :=
  match s with EmptyString => true | String c r => (nat_of_ascii c <? 128) && ascii_only r end.

Fixpoint starts_with (p s : string) : bool :=
  match p with
  | EmptyString => true
  | String a p' => match s with EmptyString => false | String b s' => Ascii.eqb a b && starts_with p' s' end
  end.

(* Python's `kw in s` on strings *)
Fixpoint contains (kw s : string) : bool :=
  starts_with kw s || match s with EmptyString => false | String _ s' => contains kw s' end.

(* Python's sep.join(l) *)
Fixpoint join (sep : string) (l : list string) : string :=
  match l with
  | [] => ""
  | x :: xs => match xs with [] => x | _ => x ++ sep ++ join sep xs end
  end.

Fixpoint lookup {A : Type} (k : string) (l : list (string * A)) : option A :=
  match l with [] => None | (k', v) :: r => if String.eqb k k' then Some v else lookup k r end.

Definition sec_nat (k : string) (s : section) : option nat := match lookup k s with Some (VNat n) => Some n | _ => None end.
Definition sec_bool (k : string) (s : section) : option bool := match lookup k s with Some (VBool b) => Some b | _ => None end.
Definition sec_strs (k : string) (s : section) : option (list string) := match lookup k s with Some (VStrs l) => Some l | _ => None end.
Definition sec_sub (k : string) (s : section) : option (list (string * nat)) := match lookup k s with Some (VSec kv) => Some kv | _ => None end.

(* Python's l[lo:hi] for 0 <= lo *)
Definition slice {A : Type} (lo hi : nat) (l : list A) : list A := firstn (hi - lo) (skipn lo l).

Fixpoint path_eqb (a b : list string) : bool :=
  match a, b with
  | [], [] => true
  | x :: xs, y :: ys => String.eqb x y && path_eqb xs ys
  | _, _ => false
  end.

Definition lkind_eqb (a b : lkind) : bool :=
  match a, b with
  | LBlank, LBlank | LComment, LComment | LBlockComment, LBlockComment | LCode, LCode | LStrHash, LStrHash => true
  | _, _ => false
  end.
