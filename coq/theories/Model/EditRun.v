(* Model/EditRun.v — judging C13 correspondence cases inside the kernel's VM.

   A case is one file in two versions (pieces of `content.split("\n")` before and after a sequence of edits of
   Model/Edit.v) plus what the implementation's text-level functions returned on both versions:
     tokens   PythonDuplicateAnalyzer / TypeScriptDuplicateAnalyzer._tokenize_with_line_numbers
     loc      heuristics.count_loc / typescript_metrics_calculator.count_loc / RustSRPAnalyzer._node_loc per syntax node
     ignore   IgnoreDirectiveParser.should_ignore_violation per (line, rule)
   Parser facts (docstring / JSDoc lines, node spans) are given for both versions: they are oracles.
   For every observable and every candidate quirk vector c the judge answers
     corr_c : the model under c reproduces the implementation on both versions
     inv_c  : the model under c is invariant up to the line shift
   and inv_impl : the implementation itself is invariant on this case.  No proofs in this file. *)
From Coq Require Import NArith.
From TL Require Import Lib.Base Lib.GenTypes Model.PyStr Gen.IgnoreGen Model.Ignore Model.IgnoreSpec Model.IgnoreRun.
From TL Require Import Model.DryBase Model.DryPipe Gen.DryGen Model.Dry.
From TL Require Import Model.SrpTypes Gen.SrpGen Model.SrpSpec Model.Srp.
From TL Require Import Model.Edit.

Record equirks := {
  e_ign : iquirks;
  e_srp : squirks;
  e_dry : dquirks;
  e_bom_kept : bool
}.

Definition ign_no_unicode (q : iquirks) : iquirks := with_flag 0 q.
Definition ign_unicode (q : iquirks) : iquirks := with_on 0 q.

(* 0: the claimed vector; 1: without q_splitlines_unicode; 2: without e_bom_kept; 3: without both (what C13 demands);
   4: with e_bom_kept on; 5: with q_splitlines_unicode on (4 and 5 recognise a repaired defect that came back).
   The TypeScript line-count rule is not a flag any more: Model/Srp.v reads it from the generated layer (ts_loc_mode). *)
Definition candidates (q : equirks) : list equirks :=
  [ q;
    Build_equirks (ign_no_unicode (e_ign q)) (e_srp q) (e_dry q) (e_bom_kept q);
    Build_equirks (e_ign q) (e_srp q) (e_dry q) false;
    Build_equirks (ign_no_unicode (e_ign q)) (e_srp q) (e_dry q) false;
    Build_equirks (e_ign q) (e_srp q) (e_dry q) true;
    Build_equirks (ign_unicode (e_ign q)) (e_srp q) (e_dry q) (e_bom_kept q) ].

(* the text the rules receive *)
Definition seen (q : equirks) (ps : list string) : list string := if e_bom_kept q then ps else apply DropBOM ps.

(* ---------- DRY tokens ---------- *)
Fixpoint memn (n : nat) (l : list nat) : bool := match l with [] => false | x :: r => (x =? n) || memn n r end.

Fixpoint raw_alines (n : nat) (docs : list nat) (ps : list string) : list aline :=
  match ps with
  | [] => []
  | s :: r => {| a_doc := memn n docs; a_indent := ""; a_code := s; a_cmt := CNone |} :: raw_alines (S n) docs r
  end.

Definition dlang_of (lang : nat) : dlang := if lang =? 0 then DPy else DTs.

Definition tokens_model (q : equirks) (lang : nat) (docs : list nat) (ps : list string) : list (nat * string) :=
  DryPipe.tokenize (model_aparams (e_dry q) (dlang_of lang)) (raw_alines 1 docs (seen q ps)).

Definition tok_eqb (a b : nat * string) : bool := (fst a =? fst b) && String.eqb (snd a) (snd b).
Definition toks_eqb (a b : list (nat * string)) : bool := list_eqb tok_eqb a b.

(* the tokens of the old file moved by the shift = the tokens of the new file that do not come from appended code *)
Definition toks_inv (es : list edit) (added : list nat) (t0 t1 : list (nat * string)) : bool :=
  toks_eqb (map (fun t => (shift_all es (fst t), snd t)) t0) (filter (fun t => negb (memn (fst t) added)) t1).

(* ---------- LOC ---------- *)
(* the SRP model strips the raw line itself (Model/SrpTypes.v l_text); the kind only matters for one-line block comments and
   for `#` lines inside multi-line strings, which the harness does not tell apart here *)
Definition raw_sline (pfx : string) (s : string) : SrpTypes.line := {| l_kind := LCode; l_raw := s |}.

Definition mkcls (start len : nat) : cls :=
  {| c_name := "C"; c_kind := CPlain; c_line := start; c_col := 0; c_deco := 0; c_len := len; c_members := [] |}.

(* kind 0: Python class, 1: TS/JS class, 2: Rust struct / impl node *)
Definition loc_model (q : equirks) (kind : nat) (ps : list string) (start len : nat) : nat :=
  match kind with
  | 0 => py_count_loc (e_srp q) (map (raw_sline "#") (seen q ps)) (mkcls start len)
  | 1 => ts_count_loc (e_srp q) (map (raw_sline "//") (seen q ps)) (mkcls start len)
  | _ => rs_node_loc (e_srp q) (map (raw_sline "//") (seen q ps)) start len
  end.

(* ---------- suppression ---------- *)
Definition ignore_model (q : equirks) (ps : list string) (qs : list (nat * string)) : list bool :=
  results (e_ign q, false) (Edit.join_nl (seen q ps)) (map (fun x => (fst x, snd x, PShared)) qs).

Fixpoint bools_eqb (a b : list bool) : bool :=
  match a, b with [], [] => true | x :: a', y :: b' => Bool.eqb x y && bools_eqb a' b' | _, _ => false end.

(* ---------- one case ---------- *)
(* node: (kind, start0, len0, start1, len1, impl loc0, impl loc1) *)
Definition node := (nat * nat * nat * nat * nat * nat * nat)%type.
(* query: (line in version 0, rule id, impl decision on version 0, impl decision on version 1 at the shifted line) *)
Definition iquery := (nat * string * bool * bool)%type.

Record case := {
  k_lang : nat;                                   (* 0 python, 1 typescript / javascript, 2 rust *)
  k_ps0 : list string; k_es : list edit; k_ps1 : list string;
  k_added : list nat;                             (* line numbers (version 1) of appended code lines *)
  k_docs0 : list nat; k_docs1 : list nat;         (* docstring / JSDoc lines as the analyzer computed them *)
  k_has_tokens : bool; k_tok0 : list (nat * string); k_tok1 : list (nat * string);
  k_nodes : list node;
  k_queries : list iquery
}.

Definition docs1_for (q : equirks) (c : case) : list nat :=
  if e_bom_kept q then k_docs1 c else map (shift_all (k_es c)) (k_docs0 c).

Definition tokens_row (cands : list equirks) (c : case) : list bool :=
  if k_has_tokens c then
    toks_inv (k_es c) (k_added c) (k_tok0 c) (k_tok1 c)
    :: flat_map (fun q =>
         let m0 := tokens_model q (k_lang c) (k_docs0 c) (k_ps0 c) in
         let m1 := tokens_model q (k_lang c) (docs1_for q c) (k_ps1 c) in
         [toks_eqb (k_tok0 c) m0 && toks_eqb (k_tok1 c) m1; toks_inv (k_es c) (k_added c) m0 m1]) cands
  else [].

Definition node_row (cands : list equirks) (c : case) (n : node) : list bool :=
  let '(kind, s0, l0, s1, l1, i0, i1) := n in
  (i0 =? i1)
  :: flat_map (fun q =>
       let m0 := loc_model q kind (k_ps0 c) s0 l0 in
       let m1 := loc_model q kind (k_ps1 c) s1 l1 in
       [(i0 =? m0) && (i1 =? m1); m0 =? m1]) cands.

(* the node spans reported by the parser moved with the shift (a parser fact, checked here) *)
Definition node_moved (es : list edit) (n : node) : bool :=
  let '(_, s0, l0, s1, l1, _, _) := n in
  (shift_all es s0 =? s1) && (shift_all es (s0 + l0 - 1) =? s1 + l1 - 1).

Definition query_rows (cands : list equirks) (c : case) : list (list bool) :=
  let qs0 := map (fun x : iquery => let '(v, r, _, _) := x in (v, r)) (k_queries c) in
  let qs1 := map (fun x : iquery => let '(v, r, _, _) := x in (shift_all (k_es c) v, r)) (k_queries c) in
  let ms := map (fun q => (ignore_model q (k_ps0 c) qs0, ignore_model q (k_ps1 c) qs1)) cands in
  map (fun j =>
         let '(_, _, i0, i1) := nth j (k_queries c) (0, EmptyString, false, false) in
         Bool.eqb i0 i1
         :: flat_map (fun m : list bool * list bool =>
              let m0 := nth j (fst m) false in let m1 := nth j (snd m) false in
              [Bool.eqb i0 m0 && Bool.eqb i1 m1; Bool.eqb m0 m1]) ms)
      (seq 0 (List.length (k_queries c))).

(* result: [[edits applied by the algebra = the edited pieces; split/join round trip of both versions; every node moved with the shift];
            tokens row (or []); one row per node; one row per query]
   a row = inv_impl :: [corr_c; inv_c] for c = candidates *)
Definition judge (q : equirks) (c : case) : list (list bool) :=
  let cands := candidates q in
  [ Edit.strs_eqb (apply_all (k_es c) (k_ps0 c)) (k_ps1 c);
    Edit.strs_eqb (pieces (Edit.join_nl (k_ps0 c))) (k_ps0 c) && Edit.strs_eqb (pieces (Edit.join_nl (k_ps1 c))) (k_ps1 c);
    forallb (node_moved (k_es c)) (k_nodes c) ]
  :: tokens_row cands c
  :: map (node_row cands c) (k_nodes c) ++ query_rows cands c.
