(* Model/CollectCache.v — the memo of IgnoreDirectiveParser.is_ignored (self._ignore_cache, keyed by str(file_path)) as state that
   is threaded through the lint_file calls of one Orchestrator: lint_files, lint_directory, and the runs that follow each other on
   the same object (execute_linting_on_paths).  Gen.ignore_cache_per_instance / Gen.ignore_cache_keyed_by_path_str record the
   shape found in the source.  No proofs in this file. *)
From TL Require Import Lib.Base Lib.GenTypes Model.CollectStr Model.Glob Gen.CollectGen Model.Collect.

Definition cache := list (string * bool).

Fixpoint lookup (k : string) (c : cache) : option bool :=
  match c with
  | [] => None
  | (k', b) :: r => if String.eqb k k' then Some b else lookup k r
  end.

(* with suppress(KeyError): return self._ignore_cache[path_str] ... self._ignore_cache[path_str] = result; return result *)
Definition is_ignored_memo (compute : bool) (k : string) (c : cache) : bool * cache :=
  match lookup k c with
  | Some b => (b, c)
  | None => (compute, (k, compute) :: c)
  end.

(* lint_file per path: gate 1 (hard) returns before is_ignored is asked; the files that reach the rules, and the memo afterwards *)
Fixpoint lint_seq (key : list string -> string) (hard ign : list string -> bool) (c : cache) (ps : list (list string))
  : list (list string) * cache :=
  match ps with
  | [] => ([], c)
  | p :: r =>
    if hard p then lint_seq key hard ign c r
    else let (b, c') := is_ignored_memo (ign p) (key p) c in
         let (out, c'') := lint_seq key hard ign c' r in
         (if b then out else p :: out, c'')
  end.

(* several calls on the same parser, one after the other *)
Fixpoint lint_calls (key : list string -> string) (hard ign : list string -> bool) (c : cache) (calls : list (list (list string)))
  : list (list (list string)) * cache :=
  match calls with
  | [] => ([], c)
  | ps :: r => let (out, c') := lint_seq key hard ign c ps in
               let (outs, c'') := lint_calls key hard ign c' r in (out :: outs, c'')
  end.

(* lint_files_parallel: after the workers returned, the parent feeds the collected files to the cross-file rules (those with a
   finalize of their own, e.g. duplicate code) -- all but the files stopped by Gen.par_evidence_gates *)
Definition evidence_files (q : cquirks) (abs pats : list string) (cp : list string -> list string) (ps : list (list string)) : list (list string) :=
  filter (fun p => negb (existsb (gate_fires q abs pats cp p) par_evidence_gates)) ps.
