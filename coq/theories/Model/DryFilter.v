(* Model/DryFilter.v — one block filter of src/linters/dry/block_filter.py modelled exactly: KeywordArgumentFilter.
     lines = file_content.split("\n")[start - 1 : end]
     kwarg_lines = number of lines matching  ^\s*\w+\s*=\s*.+,?\s*$
     filtered  iff  lines is non-empty, kwarg_lines / len(lines) >= threshold, and some ast.Call node is multi-line
                    (lineno < end_lineno) and contains the block (lineno <= start, end_lineno >= end)
   The regular expression is matched by a hand-written deterministic matcher (the pattern text is pinned by Gen);
   the Call spans are parser output (an oracle handed in by the harness).  The threshold is the rational num/den.
   No proofs in this file. *)
From TL Require Import Lib.Base Lib.GenTypes Model.DryBase.

Definition is_word (c : ascii) : bool :=
  let n := nat_of_ascii c in
  ((48 <=? n) && (n <=? 57)) || ((65 <=? n) && (n <=? 90)) || ((97 <=? n) && (n <=? 122)) || (n =? 95).

Fixpoint skip_ws (s : string) : string :=
  match s with String c s' => if is_ws c then skip_ws s' else s | EmptyString => EmptyString end.
Fixpoint skip_word (s : string) : string :=
  match s with String c s' => if is_word c then skip_word s' else s | EmptyString => EmptyString end.
Definition starts_word (s : string) : bool := match s with String c _ => is_word c | EmptyString => false end.

(* ^\s*\w+\s*=\s*.+,?\s*$  : after the `=` at least one more character must follow *)
Definition kwarg_line (s : string) : bool :=
  let s1 := skip_ws s in
  if starts_word s1 then
    match skip_ws (skip_word s1) with
    | String c rest => if Ascii.eqb c "=" then negb (str_empty rest) else false
    | EmptyString => false
    end
  else false.

(* lines[start - 1 : end] *)
Definition slice_lines (raw : list string) (s e : nat) : list string := firstn (e - (s - 1)) (skipn (s - 1) raw).

(* _check_multiline_containment: lineno end_lineno start end *)
Definition call_contains_ref (a b s e : nat) : bool := (a <? b) && ((a <=? s) && (e <=? b)).

Definition kwarg_filter_gen (ratio_cmp : cmp) (num den : nat) (cont : nat -> nat -> nat -> nat -> bool)
           (raw : list string) (calls : list (nat * nat)) (s e : nat) : bool :=
  let ls := slice_lines raw s e in
  match ls with
  | [] => false
  | _ => let kw := List.length (filter kwarg_line ls) in
         (* kw / len >= num / den, cross-multiplied *)
         if cmp_nat ratio_cmp (kw * den) (num * List.length ls) then existsb (fun c => cont (fst c) (snd c) s e) calls else false
  end.

(* the documented filter: at least 80% (4 of every 5) keyword-argument lines, inside a multi-line call *)
Definition kwarg_filter_ref := kwarg_filter_gen CGe 4 5 call_contains_ref.

(* ------------------------------------------------------------------ the three text-only filters and the registry
   ImportGroupFilter:       every line of the range is blank after strip() or is not rejected (starts with `import ` / `from `)
   LoggerCallFilter:        the non-blank stripped lines are exactly ONE line matching
                              ^\s*(self\.)?(logger|logging|log)\.(debug|...|log)\s*\(
   ExceptionReraiseFilter:  the non-blank stripped lines are exactly TWO: `except ...:` and `raise ... from ...`
   BlockFilterRegistry:     any() over the registered filters that are enabled; dry.filters switches filters of the
                            Python analyzer on and off (the TypeScript analyzer always uses the default registry).
   The leaf tests (prefix tables, length tests, the except/raise test) are parameters: Model/Dry.v passes what
   Gen/DryGen.v reads from block_filter.py, the reference below passes the documented ones. *)
Definition rstrip (s : string) : string := srev (skip_ws (srev s)).
Definition py_strip (s : string) : string := rstrip (skip_ws s).
Definition nonblank (s : string) : bool := negb (str_empty (py_strip s)).
Definition stripped_nonempty (ls : list string) : list string := filter (fun t => negb (str_empty t)) (map py_strip ls).

Fixpoint sdrop (n : nat) (s : string) : string :=
  match n with 0 => s | S n' => match s with EmptyString => EmptyString | String _ s' => sdrop n' s' end end.

Definition import_filter_gen (rejected : string -> bool) (raw : list string) (s e : nat) : bool :=
  forallb (fun l => let t := py_strip l in if str_empty t then true else negb (rejected t)) (slice_lines raw s e).

(* obj "." meth ws* "(" at the start of u *)
Definition logger_call_at (objs meths : list string) (u : string) : bool :=
  existsb (fun o => existsb (fun m => let p := (o ++ "." ++ m)%string in
                                      if str_prefix p u then str_prefix "(" (skip_ws (sdrop (String.length p) u)) else false) meths) objs.
Definition logger_line_gen (selfp : string) (objs meths : list string) (t : string) : bool :=
  let t1 := skip_ws t in
  if logger_call_at objs meths t1 then true
  else if str_prefix selfp t1 then logger_call_at objs meths (sdrop (String.length selfp) t1) else false.

Definition logger_filter_gen (single : nat -> bool) (line_ok : string -> bool) (raw : list string) (s e : nat) : bool :=
  let ne := stripped_nonempty (slice_lines raw s e) in
  match ne with
  | [] => false
  | t :: _ => if single (List.length ne) then line_ok t else false
  end.

Definition reraise_filter_gen (len_bad : nat -> bool) (pat : string -> string -> bool) (raw : list string) (s e : nat) : bool :=
  let ne := stripped_nonempty (slice_lines raw s e) in
  if len_bad (List.length ne) then false else pat (nth 0 ne "") (nth 1 ne "").

(* the documented filters *)
Definition import_shaped (t : string) : bool := str_prefix "import " t || str_prefix "from " t.
Definition import_filter_ref := import_filter_gen (fun t => negb (import_shaped t)).
Definition logger_objs_ref : list string := ["logger"; "logging"; "log"].
Definition logger_meths_ref : list string := ["debug"; "info"; "warning"; "error"; "critical"; "exception"; "log"].
Definition logger_line_ref := logger_line_gen "self." logger_objs_ref logger_meths_ref.
Definition logger_filter_ref := logger_filter_gen (fun n => n =? 1) logger_line_ref.
Definition except_raise_ref (first second : string) : bool :=
  (str_prefix "except " first && str_ends first ":") && (str_prefix "raise " second && str_contains " from " second).
Definition reraise_filter_ref := reraise_filter_gen (fun n => negb (n =? 2)) except_raise_ref.

(* registry: a registered filter runs unless dry.filters (custom over the defaults) says false *)
Fixpoint lookup_flag (name : string) (tbl : list (string * bool)) : option bool :=
  match tbl with [] => None | (k, b) :: r => if String.eqb k name then Some b else lookup_flag name r end.
(* {**defaults, **custom}: the LAST entry of custom for a key wins in a dict built from a mapping; the harness sends
   each key once *)
Definition filter_on (defaults custom : list (string * bool)) (name : string) : bool :=
  match lookup_flag name custom with
  | Some b => b
  | None => match lookup_flag name defaults with Some b => b | None => true end
  end.

Definition registry_gen (names : list string) (on : string -> bool)
           (kw imp lg rr : list string -> nat -> nat -> bool) (raw : list string) (s e : nat) : bool :=
  existsb (fun name => if on name then
                         (if String.eqb name "keyword_argument_filter" then kw raw s e
                          else if String.eqb name "import_group_filter" then imp raw s e
                          else if String.eqb name "logger_call_filter" then lg raw s e
                          else if String.eqb name "exception_reraise_filter" then rr raw s e else false)
                       else false) names.

Definition registry_names_ref : list string :=
  ["keyword_argument_filter"; "import_group_filter"; "logger_call_filter"; "exception_reraise_filter"].
Definition filter_defaults_ref : list (string * bool) := [("keyword_argument_filter", true); ("import_group_filter", true)].
(* configured = true: the Python analyzer (dry.filters applies); false: the TypeScript/JavaScript analyzer *)
Definition registry_ref (configured : bool) (custom : list (string * bool)) (calls : list (nat * nat)) : list string -> nat -> nat -> bool :=
  registry_gen registry_names_ref (if configured then filter_on filter_defaults_ref custom else fun _ => true)
               (fun raw => kwarg_filter_ref raw calls) import_filter_ref logger_filter_ref reraise_filter_ref.
