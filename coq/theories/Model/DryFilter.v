(* Model/DryFilter.v — one block filter of src/linters/dry/block_filter.py modelled exactly: KeywordArgumentFilter.
     lines = file_content.split("\n")[start - 1 : end]
     kwarg_lines = number of lines matching  ^\s*\w+\s*=\s*.+,?\s*$
     filtered  iff  lines is non-empty, kwarg_lines / len(lines) >= threshold, and some ast.Call node is multi-line
                    (lineno < end_lineno) and contains the block (lineno <= start, end_lineno >= end)
   The regular expression is matched by a hand-written deterministic matcher (the pattern text is pinned by Gen);
   the Call spans are parser output (an oracle handed in by the harness).  The threshold is the rational num/den.
   No proofs in this file. *)
From TL Require Import Lib.Base Lib.GenTypes Model.DryBase.

Definition is_word (c : ascii) : bool :=
  let n := nat_of_ascii c in
  ((48 <=? n) && (n <=? 57)) || ((65 <=? n) && (n <=? 90)) || ((97 <=? n) && (n <=? 122)) || (n =? 95).

Fixpoint skip_ws (s : string) : string :=
  match s with String c s' => if is_ws c then skip_ws s' else s | EmptyString => EmptyString end.
Fixpoint skip_word (s : string) : string :=
  match s with String c s' => if is_word c then skip_word s' else s | EmptyString => EmptyString end.
Definition starts_word (s : string) : bool := match s with String c _ => is_word c | EmptyString => false end.

(* ^\s*\w+\s*=\s*.+,?\s*$  : after the `=` at least one more character must follow *)
Definition kwarg_line (s : string) : bool :=
  let s1 := skip_ws s in
  if starts_word s1 then
    match skip_ws (skip_word s1) with
    | String c rest => if Ascii.eqb c "=" then negb (str_empty rest) else false
    | EmptyString => false
    end
  else false.

(* lines[start - 1 : end] *)
Definition slice_lines (raw : list string) (s e : nat) : list string := firstn (e - (s - 1)) (skipn (s - 1) raw).

(* _check_multiline_containment: lineno end_lineno start end *)
Definition call_contains_ref (a b s e : nat) : bool := (a <? b) && ((a <=? s) && (e <=? b)).

Definition kwarg_filter_gen (ratio_cmp : cmp) (num den : nat) (cont : nat -> nat -> nat -> nat -> bool)
           (raw : list string) (calls : list (nat * nat)) (s e : nat) : bool :=
  let ls := slice_lines raw s e in
  match ls with
  | [] => false
  | _ => let kw := List.length (filter kwarg_line ls) in
         (* kw / len >= num / den, cross-multiplied *)
         if cmp_nat ratio_cmp (kw * den) (num * List.length ls) then existsb (fun c => cont (fst c) (snd c) s e) calls else false
  end.

(* the documented filter: at least 80% (4 of every 5) keyword-argument lines, inside a multi-line call *)
Definition kwarg_filter_ref := kwarg_filter_gen CGe 4 5 call_contains_ref.
