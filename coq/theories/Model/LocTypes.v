(* Model/LocTypes.v — the small types the generated layer of C12 (Gen/LocGen.v) is expressed in.
   Definitions only. *)
From TL Require Import Lib.Base.

(* how a violation builder computes the reported line from the parser position of its node:
   LBase1 off : a 1-based parser line plus off          (Python ast: node.lineno)
   LBase0 off : a 0-based parser row / list index plus off (tree-sitter: node.start_point[0] + 1;
                enumerate(content.split("\n"), start=1))
   LConst n   : a constant (file-level violations) *)
Inductive lexpr := LBase1 (off : nat) | LBase0 (off : nat) | LConst (n : nat).

(* the reported column: the parser column of the node (0-based in both parsers) plus off, or a constant *)
Inductive cexpr := CNode (off : nat) | CConst (n : nat).

(* census of the uses of a parser row / column in the source: passed on unchanged, shifted by a
   constant, or part of other arithmetic *)
Inductive use := URaw | UPlus (k : nat) | UMinus (k : nat) | UArith.

(* parts of a message f-string: literal text / interpolated expression (its source text) *)
Inductive mpart := MPLit (s : string) | MPVar (s : string).
