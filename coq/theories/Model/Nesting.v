(* Model/Nesting.v — executable model of the nesting linter (src/linters/nesting).
   Two steps per language, as in the code: (1) the node tree the parser yields for a
   skeleton (to_py / to_ts / to_rs; a parser oracle validated by the correspondence check),
   (2) the depth visitor and the verdict, transcribed from the analyzers, reading their
   tables, start depths, comparison operator and message format from Gen/NestingGen.v.
   No proofs in this file. *)
From TL Require Import Lib.Base Lib.GenTypes Gen.NestingGen Model.Skel.

(* ------------------------------------------------------------------ quirks *)
(* true = "do what the code does", false = "do what the property demands".           *)
Record nquirks := {
  q_py_start_from_code : bool;   (* Python start depth taken from the source (0), not 1 *)
  q_py_table_from_code : bool;   (* _CONTROL_STRUCTURES as in the source: AsyncFor missing,
                                    match_case counted in addition to Match *)
  q_ts_elseif_nests    : bool;   (* every `else if` adds a level (if_statement under else_clause) *)
  q_rs_elseif_nests    : bool;
  q_rs_table_from_code : bool;   (* NESTING_NODE_TYPES as in the source: async_block missing *)
  q_ts_fn_types_from_code : bool; (* function node types of extract_function_info as in the source: it tests
                                    "function" (no such node in the grammar) where the parser yields
                                    function_expression, and has no case for generator functions *)
}.
Definition ideal : nquirks := Build_nquirks false false false false false false.
Definition actual_all : nquirks := Build_nquirks true true true true true true.

(* ------------------------------------------------------------------ Python *)
Inductive pynode :=
| PIf (body orelse : list pynode)
| PNode (cls : string) (children : list pynode).   (* ast.iter_child_nodes, statements only *)

Definition py_cls (k : kind) : string :=
  match k with
  | KSimple => "Expr" | KIf => "If" | KElif => "If" | KElse => "<orelse>"
  | KFor => "For" | KForIn => "For" | KAsyncFor => "AsyncFor" | KWhile => "While" | KDoWhile => "While"
  | KWith => "With" | KAsyncWith => "AsyncWith"
  | KTry => "Try" | KHandler => "ExceptHandler" | KFinally => "<finalbody>"
  | KSwitch => "Match" | KCase => "match_case"
  | KLoop => "While" | KClosure => "Lambda" | KAsyncBlock => "<none>"
  | KClass => "ClassDef"
  | KFn FAsyncDef _ _ _ => "AsyncFunctionDef"
  | KFn _ _ _ _ => "FunctionDef"
  end.

Definition is_branch (k : kind) : bool := match k with KElif | KElse => true | _ => false end.

(* to_py: an If keeps its then-statements in body; the trailing KElif/KElse children become the
   orelse chain exactly as CPython nests them (elif = orelse [If]). *)
Fixpoint to_py (t : tree) : pynode :=
  match t with
  | T KIf cs =>
    PIf (flat_map (fun c => if is_branch (tkind c) then [] else [to_py c]) cs)
        (fold_right (fun c acc =>
                       match c with
                       | T KElif b => [PIf (map to_py b) acc]
                       | T KElse b => map to_py b
                       | _ => acc
                       end) [] cs)
  | T k cs => PNode (py_cls k) (map to_py cs)
  end.

Definition py_controls (q : nquirks) : list string :=
  if q_py_table_from_code q then py_control_structures
  else "AsyncFor" :: filter (fun c => negb (String.eqb c "match_case")) py_control_structures.

Definition py_start (q : nquirks) : nat := if q_py_start_from_code q then py_start_depth else 1.

(* _visit_node / _visit_if_node / _visit_control_structure / _visit_children with the
   _DepthTracker folded into the result: the largest depth recorded in the subtree (0 if none) *)
Fixpoint py_visit (ctl : list string) (n : pynode) (d : nat) (is_elif : bool) : nat :=
  match n with
  | PIf body orelse =>
    let d' := if is_elif then d else S d in
    Nat.max (if is_elif then 0 else d')
      (Nat.max (maxl (map (fun c => py_visit ctl c d' false) body))
               (match orelse with
                | [PIf b o as e] => py_visit ctl e d' true          (* _is_elif_chain *)
                | _ => maxl (map (fun c => py_visit ctl c d' false) orelse)
                end))
  | PNode cls cs =>
    if smem cls ctl
    then Nat.max (S d) (maxl (map (fun c => py_visit ctl c (S d) false) cs))
    else maxl (map (fun c => py_visit ctl c d false) cs)
  end.

(* the same visitor with the literals of the source as parameters: the increment of _visit_if_node, the increment
   of _visit_control_structure and the length tested by _is_elif_chain (Gen.py_if_inc / py_ctl_inc / py_elif_len,
   produced by the translator's control-flow templates, which fail closed when the statements of the visitor
   differ from the transcription below).  `tracker.record` is folded into Nat.max as above. *)
Fixpoint py_visit_g (iinc cinc elen : nat) (ctl : list string) (n : pynode) (d : nat) (is_elif : bool) : nat :=
  match n with
  | PIf body orelse =>
    let d' := if is_elif then d else d + iinc in
    Nat.max (if is_elif then 0 else d')
      (Nat.max (maxl (map (fun c => py_visit_g iinc cinc elen ctl c d' false) body))
               (match orelse with
                | (PIf b o as e) :: _ =>
                  if List.length orelse =? elen                       (* _is_elif_chain *)
                  then py_visit_g iinc cinc elen ctl e d' true
                  else maxl (map (fun c => py_visit_g iinc cinc elen ctl c d' false) orelse)
                | _ => maxl (map (fun c => py_visit_g iinc cinc elen ctl c d' false) orelse)
                end))
  | PNode cls cs =>
    if smem cls ctl
    then Nat.max (d + cinc) (maxl (map (fun c => py_visit_g iinc cinc elen ctl c (d + cinc) false) cs))
    else maxl (map (fun c => py_visit_g iinc cinc elen ctl c d false) cs)
  end.

Definition py_visit_src : list string -> pynode -> nat -> bool -> nat := py_visit_g py_if_inc py_ctl_inc py_elif_len.

Definition py_calc (q : nquirks) (body : list tree) : nat :=
  maxl (map (fun s => py_visit_src (py_controls q) (to_py s) (py_start q) false) body).

Definition py_fn_cls (fk : fkind) : string :=
  match fk with FAsyncDef => "AsyncFunctionDef" | _ => "FunctionDef" end.

Definition report_fn (found : bool) (skip : cmp) (depth limit : nat) (f : fninfo) : list nrep :=
  if found then (if cmp_nat skip depth limit then [] else [(fn_line f, fn_col f, fn_name f, depth)]) else [].

Definition py_report (q : nquirks) (limit : nat) (file : list tree) : list nrep :=
  flat_map (fun f => report_fn (smem (py_fn_cls (fn_kind f)) py_function_types) py_skip_cmp
                               (py_calc q (fn_body f)) limit f)
           (file_functions file).

(* ------------------------------------------------------------------ tree-sitter (TS/JS, Rust) *)
Inductive tsnode := N (ty : string) (cs : list tsnode).
Definition nty (n : tsnode) : string := match n with N ty _ => ty end.
Definition nkids (n : tsnode) : list tsnode := match n with N _ cs => cs end.

Definition blk (ty : string) (l : list tsnode) : tsnode := N ty (N "{" [] :: l ++ [N "}" []]).

Record tsnames := {
  n_if : string; n_else : string; n_block : string;
  n_of : kind -> string;          (* node type of a construct *)
  n_wrap : kind -> list string;   (* intermediate nodes between the construct and its block/children *)
  n_blocked : kind -> bool;       (* children sit in a { } block node *)
}.

Fixpoint wrap_in (ws : list string) (l : list tsnode) : list tsnode :=
  match ws with [] => l | w :: ws' => [N w (wrap_in ws' l)] end.

Section ToTs.
  Variable nm : tsnames.
  Definition body_of (k : kind) (l : list tsnode) : list tsnode :=
    wrap_in (n_wrap nm k) (if n_blocked nm k then [blk (n_block nm) l] else l).

  Fixpoint to_ts (t : tree) : tsnode :=
    match t with
    | T KIf cs =>
      N (n_if nm)
        (blk (n_block nm) (flat_map (fun c => if is_branch (tkind c) then [] else [to_ts c]) cs)
         :: fold_right (fun c acc =>
                          match c with
                          | T KElif b => [N (n_else nm) [N (n_if nm) (blk (n_block nm) (map to_ts b) :: acc)]]
                          | T KElse b => [N (n_else nm) [blk (n_block nm) (map to_ts b)]]
                          | _ => acc
                          end) [] cs)
    | T k cs => N (n_of nm k) (body_of k (map to_ts cs))
    end.
End ToTs.

Definition ts_ftype (fk : fkind) : string :=
  match fk with
  | FDef | FAsyncDef => "function_declaration" | FArrow | FArrowExpr => "arrow_function" | FMethod => "method_definition"
  | FFnExpr => "function_expression" | FGen => "generator_function_declaration"
  end.

Definition ts_names : tsnames := {|
  n_if := "if_statement"; n_else := "else_clause"; n_block := "statement_block";
  n_of := fun k => match k with
    | KSimple => "expression_statement" | KIf | KElif => "if_statement" | KElse => "else_clause"
    | KFor => "for_statement" | KForIn | KAsyncFor => "for_in_statement" | KWhile | KLoop => "while_statement"
    | KDoWhile => "do_statement" | KWith | KAsyncWith => "with_statement"
    | KTry => "try_statement" | KHandler => "catch_clause" | KFinally => "finally_clause"
    | KSwitch => "switch_statement" | KCase => "switch_case"
    | KClosure => "arrow_function" | KAsyncBlock => "<none>" | KClass => "class_declaration"
    | KFn fk _ _ _ => ts_ftype fk end;
  n_wrap := fun k => match k with KSwitch => ["switch_body"] | KClass => ["class_body"] | _ => [] end;
  n_blocked := fun k => match k with KSimple | KSwitch | KCase | KClass | KFn FArrowExpr _ _ _ => false | _ => true end |}.

Definition rs_names : tsnames := {|
  n_if := "if_expression"; n_else := "else_clause"; n_block := "block";
  n_of := fun k => match k with
    | KSimple => "expression_statement" | KIf | KElif => "if_expression" | KElse => "else_clause"
    | KFor | KForIn | KAsyncFor => "for_expression" | KWhile | KDoWhile => "while_expression"
    | KLoop => "loop_expression" | KWith | KAsyncWith | KTry | KHandler | KFinally => "<none>"
    | KSwitch => "match_expression" | KCase => "match_arm"
    | KClosure => "closure_expression" | KAsyncBlock => "async_block" | KClass => "impl_item"
    | KFn _ _ _ _ => "function_item" end;
  n_wrap := fun k => match k with KSwitch => ["match_block"] | KClass => ["declaration_list"] | _ => [] end;
  n_blocked := fun k => match k with KSimple | KSwitch | KClass => false | _ => true end |}.

(* visit_node of both tree-sitter analyzers: record the depth at every node, children of a
   nesting node one deeper.  elif_fix = the property's reading (an `if` directly under an
   else_clause continues its chain); the code has no such case (elif_fix = false). *)
Fixpoint ts_visit (types : list string) (elif_fix : bool) (nif nelse : string)
         (n : tsnode) (d : nat) (parent_else : bool) : nat :=
  match n with
  | N ty cs =>
    let inc := smem ty types && negb (elif_fix && parent_else && String.eqb ty nif) in
    Nat.max d (maxl (map (fun c => ts_visit types elif_fix nif nelse c (if inc then S d else d) (String.eqb ty nelse)) cs))
  end.

(* calculate_max_depth: first child of the function node whose type is the body type; every
   child of the body (tokens included) is visited at the start depth *)
Definition ts_calc_node (types : list string) (elif_fix : bool) (nm : tsnames) (body_ty : string) (start : nat)
           (fn : tsnode) : nat :=
  match find (fun c => String.eqb (nty c) body_ty) (nkids fn) with
  | None => 0
  | Some b => maxl (map (fun c => ts_visit types elif_fix (n_if nm) (n_else nm) c start false) (nkids b))
  end.

Definition fn_node (nm : tsnames) (f : fninfo) : tsnode :=
  to_ts nm (T (KFn (fn_kind f) (fn_name f) (fn_line f) (fn_col f)) (fn_body f)).

Definition ts_calc (q : nquirks) (f : fninfo) : nat :=
  ts_calc_node ts_nesting_types (negb (q_ts_elseif_nests q)) ts_names ts_body_type ts_start_depth (fn_node ts_names f).

Definition rs_types (q : nquirks) : list string :=
  if q_rs_table_from_code q then rs_nesting_types else "async_block" :: rs_nesting_types.

Definition rs_calc (q : nquirks) (f : fninfo) : nat :=
  ts_calc_node (rs_types q) (negb (q_rs_elseif_nests q)) rs_names rs_body_type rs_start_depth (fn_node rs_names f).

(* the function node types judged: as found in the source, or completed by the two function-like node types
   with a statement block that the source table lacks (patched table: once the source lists them both agree) *)
Definition ts_fn_types (q : nquirks) : list string :=
  if q_ts_fn_types_from_code q then ts_function_types
  else ts_function_types ++ filter (fun t => negb (smem t ts_function_types)) ["function_expression"; "generator_function_declaration"].

Definition ts_report (q : nquirks) (limit : nat) (file : list tree) : list nrep :=
  flat_map (fun f => report_fn (smem (ts_ftype (fn_kind f)) (ts_fn_types q)) ts_skip_cmp (ts_calc q f) limit f)
           (file_functions file).

Definition rs_report (q : nquirks) (limit : nat) (file : list tree) : list nrep :=
  flat_map (fun f => report_fn (smem "function_item" rs_function_types) rs_skip_cmp (rs_calc q f) limit f)
           (file_functions file).

(* ------------------------------------------------------------------ which skeletons exist where *)
Inductive lang := Py | Ts | Rs.

Definition fkind_ok (l : lang) (fk : fkind) : bool :=
  match l, fk with
  | Py, (FDef | FAsyncDef | FMethod) => true
  | Ts, (FDef | FAsyncDef | FArrow | FMethod | FArrowExpr | FFnExpr | FGen) => true
  | Rs, (FDef | FAsyncDef | FMethod) => true
  | _, _ => false
  end.

Definition kind_ok (l : lang) (k : kind) : bool :=
  match k with
  | KSimple | KIf | KElif | KElse | KFor | KWhile | KSwitch | KCase | KClass => true
  | KForIn | KDoWhile => match l with Ts => true | _ => false end
  | KAsyncFor | KWith | KAsyncWith => match l with Py => true | _ => false end
  | KTry | KHandler | KFinally => match l with Rs => false | _ => true end
  | KLoop | KClosure | KAsyncBlock => match l with Rs => true | _ => false end
  | KFn fk _ _ _ => fkind_ok l fk
  end.

Fixpoint tree_ok (l : lang) (t : tree) : bool :=
  match t with T k cs => kind_ok l k && forallb (tree_ok l) cs end.

Definition report (l : lang) (q : nquirks) (limit : nat) (file : list tree) : list nrep :=
  match l with Py => py_report q limit file | Ts => ts_report q limit file | Rs => rs_report q limit file end.

Definition message (l : lang) (r : nrep) : string :=
  match r with (_, _, name, d) =>
    render_msg (match l with Py => py_msg | Ts => ts_msg | Rs => rs_msg end) name d end.
