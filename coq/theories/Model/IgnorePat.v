(* Model/IgnorePat.v — the linter-level `ignore:` pattern lists (C04: "a ... linter-level ignore pattern matching the file").
   Every linter brings its own matcher; four kinds exist in the tree (which linter uses which is claimed in
   Actual/IgnoreActual.v and validated by the pattern stream of the correspondence check):
     MPathOrSub  `Path(file).match(pattern) or pattern in str(file)`   magic-numbers, print-statements, method-property, ...
     MSub        `pattern in str(file)`                                 srp, unwrap-abuse, clone-abuse, blocking-async, dry
     MFnmOrSub   `fnmatch(str(file), pattern) or pattern in str(file)`  stringly-typed
     MNever      the list is never consulted                            nesting, performance, lbyl
   PurePosixPath.match (Python 3.12) is modelled on top of the fnmatch model Model/Glob.v (C14): the pattern's components must
   match, one fnmatch each, the last components of the path (all of them when the pattern is absolute).  Negated bracket sets,
   which the 3.12 implementation lets run across a component boundary, are outside the validated domain.
   The specification is the documented glob semantics of C14 (Model/CollectSpec.v: pat, spec_match) applied to the
   project-relative path.  Definitions only. *)
From TL Require Import Lib.Base Model.CollectStr Model.Glob Model.Collect Model.CollectSpec.
From TL Require Model.PyStr.

Inductive lmatcher := MPathOrSub | MSub | MFnmOrSub | MNever.

Fixpoint parts_match (pp ap : list string) : bool :=
  match pp, ap with
  | [], [] => true
  | p :: pp', a :: ap' => fnm a p && parts_match pp' ap'
  | _, _ => false
  end.

(* PurePosixPath(path).match(pattern) *)
Definition path_match (path pattern : string) : bool :=
  let pp := path_parts pattern in
  let ap := path_parts path in
  match pp with
  | [] => false
  | first :: _ =>
      if String.eqb first "/" then parts_match pp ap
      else (List.length pp <=? List.length ap) && parts_match pp (skipn (List.length ap - List.length pp) ap)
  end.

Definition substring (pattern path : string) : bool := PyStr.containsb pattern path.

Definition lmatch (m : lmatcher) (path pattern : string) : bool :=
  match m with
  | MPathOrSub => path_match path pattern || substring pattern (path_norm path)
  | MSub => substring pattern path
  | MFnmOrSub => fnm path pattern || substring pattern path
  | MNever => false
  end.

Definition linter_file_ignored (m : lmatcher) (path : string) (patterns : list string) : bool :=
  existsb (lmatch m path) patterns.

(* one correspondence case: the absolute path handed to the linters, the project-relative components, the pattern in its
   documented form, what the implementation did (did the linter's violations vanish?) -> [impl = spec; impl = model] *)
Definition judge_pat (m : lmatcher) (abs : string) (comps : list string) (p : pat) (impl : bool) : list bool :=
  [Bool.eqb impl (spec_match p comps); Bool.eqb impl (lmatch m abs (CollectSpec.render p)); pat_ok p].
