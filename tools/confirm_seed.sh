#!/bin/bash
# tools/confirm_seed.sh <seeded/ID> : confirm a seeded change in a scratch worktree:
#  demo passes without the patch, fails with it, and the test suite still passes with it.
# Writes <seeded/ID>/confirm.json; removes the worktree afterwards.
d="$(realpath "$1")"; id=$(basename "$d"); wt=/tmp/wt-confirm-$id-$$
git -C /repo worktree add --detach -q "$wt" HEAD || exit 9
cd "$wt"
cp "$d/demo.py" "$wt/demo_seed.py"
demo_cmd() { ( cd "$wt" && env -u THAILINT_VERIF PYTHONPATH="$wt" THAILINT_TREE="$wt" timeout 900 /venv/bin/python "$wt/demo_seed.py" > "$1" 2>&1; echo $? ); }
r0=$(demo_cmd /tmp/confirm-$id-pristine.log)
applies=yes; git apply --exclude=demo_seed.py "$d/patch.diff" || applies=no
r1=$(demo_cmd /tmp/confirm-$id-mutated.log)
PYTHONPATH="$wt" timeout 3000 /venv/bin/python -m pytest -q -p no:cacheprovider --timeout=900 -x --co -q >/dev/null 2>&1
PYTHONPATH="$wt" timeout 3000 /venv/bin/python -m pytest -q -p no:cacheprovider --timeout=900 --junitxml=/tmp/confirm-$id.xml > /tmp/confirm-$id-tests.log 2>&1
python3 - "$d" "$id" "$r0" "$r1" "$applies" <<'PY'
import json, sys, xml.etree.ElementTree as ET
d, id_, r0, r1, applies = sys.argv[1:6]
base = json.load(open("/root/.vp/BASELINE.json"))
stable = set(base["stable_pass"])
failed, passed = set(), set()
try:
    for tc in ET.parse(f"/tmp/confirm-{id_}.xml").getroot().iter("testcase"):
        name = f"{tc.get('classname')}::{tc.get('name')}"
        (failed if (tc.find("failure") is not None or tc.find("error") is not None) else passed).add(name)
except Exception as e:
    failed.add(f"<junit unreadable: {e}>")
broken = sorted(n for n in stable if n in failed or (n not in passed and not any(n.startswith(p.split('[')[0]) for p in passed)))
tail = open(f"/tmp/confirm-{id_}-tests.log").read().strip().splitlines()[-1:]
res = {"patch_applies": applies == "yes", "demo_exit_pristine": int(r0), "demo_exit_mutated": int(r1),
       "baseline_tests_now_failing": broken[:20], "n_baseline_tests_now_failing": len(broken), "pytest_tail": tail,
       "confirmed": applies == "yes" and r0 == "0" and r1 != "0" and not broken}
json.dump(res, open(f"{d}/confirm.json", "w"), indent=1)
print(id_, res["confirmed"], res["demo_exit_pristine"], res["demo_exit_mutated"], len(broken), tail)
PY
[ -n "$KEEP_LOGS" ] && cp /tmp/confirm-$id-pristine.log /tmp/confirm-$id-mutated.log "$d/" 2>/dev/null
cd /; git -C /repo worktree remove --force "$wt"; rm -f /tmp/confirm-$id*.log /tmp/confirm-$id.xml
