#!/bin/bash
# tools/seedsweep.sh <seed> ... : run every quick check under the given seeds, outputs to a scratch out dir (evidence untouched)
cd "$(dirname "$0")/.."
for s in "$@"; do
  for c in C01 C02 C03 C04 C05 C06 C07 C08 C09 C10 C11 C12 C13 C14 C15 C16 C17 C18 C19 C20; do
    t0=$(date +%s); out=$(VERIF_SEED=$s VERIF_OUT_DIR=${SWEEP_OUT:-/tmp/seedsweep-out} ./check $c 2>&1); rc=$?; t1=$(date +%s)
    echo "seed=$s $c rc=$rc wall=$((t1-t0))s $(echo "$out" | grep '^VIOLATION' | head -1 | cut -c1-160)"
  done
done
