#!/usr/bin/env python3
"""seeded/RESULTS.md : which checks catch which seeded changes (from seeded/*/meta.json)"""
import json
from pathlib import Path
S = Path("/verif/seeded")
rows = []
for d in sorted(p for p in S.iterdir() if p.is_dir()):
    m = json.loads((d / "meta.json").read_text()) if (d / "meta.json").exists() else {}
    conf = (m.get("confirmed_by_lead") or {}).get("confirmed")
    files = ", ".join(m.get("files") or [])
    for chk, res in (m.get("checks") or {"-": "not tried yet"}).items():
        kind = "concrete input" if "concrete failing input" in res else ("no-failing-input-found" if "no-failing-input-found" in res else ("missed" if res.startswith(("MISSED", "not caught")) else res[:40]))
        rows.append((d.name, m.get("property"), "yes" if conf else ("no" if conf is False else "?"), chk, kind, (m.get("breaks") or "")[:110].replace("|", "/"), files))
out = ["# Seeded changes and what the checks report on them", "",
       "Each change was written by an independent sub-agent that saw only the property text and a scratch worktree, and was confirmed by the lead",
       "(tools/confirm_seed.sh: demo passes before / fails after the patch, unedited test suite still passes). `tools/trymut_wt.sh` ran the quick tier",
       "of the named check against a scratch copy of /repo with the patch applied.", "",
       "| seed | property | confirmed | check | outcome | what it breaks | files |", "|---|---|---|---|---|---|---|"]
for r in rows:
    out.append("| " + " | ".join(str(x) for x in r) + " |")
(S / "RESULTS.md").write_text("\n".join(out) + "\n")
print(len(rows), "rows")
