#!/bin/bash
# tools/trymut_wt.sh <patch.diff> <Cxx> [Cxx...]
# Run quick checks against a MUTATED COPY of /repo without touching /repo, /verif/coq or /verif/evidence:
# a scratch git worktree + a scratch copy of the Coq build dir; everything is removed afterwards.
patch="$(realpath "$1")"; shift
VH="$(cd "$(dirname "$0")/.." && pwd)"
id=$$
wt=/tmp/wt-mut-$id; cq=/tmp/coq-mut-$id; out=/tmp/out-mut-$id
git -C /repo worktree add --detach -q "$wt" HEAD || exit 9
( cd "$wt" && git apply "$patch" ) || { echo "patch does not apply"; git -C /repo worktree remove --force "$wt"; exit 9; }
mkdir -p "$out"; cp -a "$VH/coq" "$cq"
for c in "$@"; do
  echo "=== $c (mutated copy)"
  ( cd "$VH" && VERIF_REPO="$wt" VERIF_COQ_DIR="$cq" VERIF_OUT_DIR="$out" ./check "$c" 2>&1 | grep -v "^KNOWN-FINDING" | cut -c1-300 | tail -${TRYMUT_TAIL:-6} )
  for r in "$out"/replays/*.json; do [ -f "$r" ] && python3 - "$r" <<'PY'
import json,sys
d=json.load(open(sys.argv[1]))
v=d.get("violation") or {}
print("  replay:", sys.argv[1].split("/")[-1], "|", str(v.get("reason") or d.get("note"))[:160])
for b in (d.get("broken_obligations") or d.get("no_longer_checks") or [])[:3]: print("  broken:", b[:200])
PY
  done
  rm -f "$out"/replays/*.json
done
git -C /repo worktree remove --force "$wt"; rm -rf "$cq" "$out"
