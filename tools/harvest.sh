#!/bin/bash
# tools/harvest.sh <PROP> <worktree> <suffix> [extra checks...] : copy mutation<i>.* of a mutation agent into seeded/, try the property's
# check (and extra checks) against each, confirm each seed, remove the agent's worktree.
p=$1; wt=$2; sfx=$3; shift 3
cd /verif
for i in 1 2 3; do
  [ -f "$wt/mutation$i.diff" ] || continue
  d=seeded/$p-$sfx$i; mkdir -p $d
  cp "$wt/mutation$i.diff" $d/patch.diff; cp "$wt/demo$i.py" $d/demo.py; cp "$wt/meta$i.json" $d/meta.orig.json
  sed -i 's|"/tmp/mut-[A-Za-z0-9-]*"|__import__("os").environ.get("THAILINT_TREE", __import__("os").path.dirname(__import__("os").path.abspath(__file__)))|g' $d/demo.py
done
git -C /repo worktree remove --force "$wt"
for i in 1 2 3; do
  d=seeded/$p-$sfx$i; [ -d $d ] || continue
  for c in $p "$@"; do
    out=$(tools/trymut_wt.sh $d/patch.diff $c 2>&1 | grep -v conda)
    if echo "$out" | grep -q "no-failing-input-found"; then r="caught: VIOLATION no-failing-input-found ($(echo "$out" | grep 'broken:' | head -1 | cut -c1-160))";
    elif echo "$out" | grep -q "^VIOLATION"; then r="caught: VIOLATION with a concrete failing input ($(echo "$out" | grep 'replay:' | head -1 | cut -c1-200))";
    else r="MISSED: check exited without VIOLATION ($(echo "$out" | tail -2 | tr '\n' ' ' | cut -c1-200))"; fi
    python3 tools/record_seed.py $p-$sfx$i $c "$r"
    echo "$p-$sfx$i $c: $r"
  done
  tools/confirm_seed.sh $d 2>&1 | grep -v conda | tail -1
  python3 tools/record_seed.py $p-$sfx$i
done
