#!/bin/bash
# tools/retrial.sh <seed> <check> : re-run a check against a seeded change and record the outcome
s=$1; c=$2; cd "$(dirname "$0")/.."
out=$(tools/trymut_wt.sh seeded/$s/patch.diff $c 2>&1 | grep -v conda)
if echo "$out" | grep -q "no-failing-input-found"; then r="caught: VIOLATION no-failing-input-found ($(echo "$out" | grep 'broken:' | head -1 | cut -c1-160))";
elif echo "$out" | grep -q "^VIOLATION"; then r="caught: VIOLATION with a concrete failing input ($(echo "$out" | grep 'replay:' | head -1 | cut -c1-200))";
else r="MISSED: check exited without VIOLATION"; fi
python3 tools/record_seed.py $s $c "$r"; echo "$s $c: $r" | cut -c1-200
