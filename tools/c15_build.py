#!/usr/bin/env python3
"""dev helper (C15): regenerate Gen and build the given .v targets under the build lock; print failures"""
import sys
sys.path.insert(0, "/verif")
from harness import coq
res = coq.regen_and_build(sys.argv[1:])
for f, why in res.failed.items():
    print("FAILED", f, "::", why[:1500])
print("compiled:", len(res.compiled), "failed:", len(res.failed), "forbidden:", res.forbidden)
