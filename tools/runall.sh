#!/bin/bash
# tools/runall.sh C01 C02 ... : run quick checks sequentially, print exit status, wall time and non-KNOWN output
cd /verif
for c in "$@"; do
  t0=$(date +%s)
  out=$(./check "$c" 2>&1); rc=$?
  t1=$(date +%s)
  echo "== $c rc=$rc wall=$((t1-t0))s known=$(echo "$out" | grep -c '^KNOWN-FINDING') "
  echo "$out" | grep -v '^KNOWN-FINDING\|conda' | tail -5
done
