#!/bin/bash
# tools/applyfix.sh <diff> <test-path-or-dash> <commit message...> : apply one proposed fix to /repo as its own "fix:" commit
d="$(realpath "$1")"; t="$2"; shift 2; msg="$*"
cd /repo || exit 9
git apply --check "$d" 2>/dev/null || { git apply --3way "$d" 2>/dev/null || { echo "DOES NOT APPLY: $d"; exit 1; }; }
git apply "$d" 2>/dev/null || true
if [ "$t" != "-" ]; then
  out=$(env -u THAILINT_VERIF timeout 1200 /venv/bin/python -m pytest -q -p no:cacheprovider --no-cov -x $t 2>&1 | tail -2)
  if ! echo "$out" | grep -q " passed" || echo "$out" | grep -q "failed"; then echo "TESTS FAIL for $d: $out"; git checkout -- .; exit 2; fi
fi
git add -A src && git commit -q -m "$msg" && echo "OK $(git rev-parse --short HEAD) $msg"
