#!/bin/bash
# tools/trymut.sh <patch.diff> <Cxx> [more Cxx...] : apply a patch to /repo, run the quick checks, always revert
patch="$1"; shift
cd /repo && git apply "$patch" || { echo "patch does not apply"; exit 9; }
cd /verif
for c in "$@"; do
  echo "=== $c"; ./check "$c" 2>&1 | grep -v "^KNOWN-FINDING" | cut -c1-300 | tail -5
done
git -C /repo checkout -- . 
git -C /repo status --short | head
