#!/bin/bash
# tools/retrial_all.sh [lanes] : re-run every seeded change against the check of its own property (quick tier, scratch worktree),
# record the outcome in seeded/<id>/meta.json and print one line per seed.  Usable from a `vp run` snapshot.
cd "$(dirname "$0")/.."
lanes=${1:-4}
ls seeded | grep -E '^C[0-9]{2}-' | while read s; do echo "$s ${s%%-*}"; done | xargs -P "$lanes" -L 1 tools/retrial.sh
