#!/usr/bin/env python3
"""Assemble MANIFEST.json from manifest.d/Cxx.json and known_findings.json from known.d/Cxx.json.
Properties without a manifest.d entry are listed under not_applicable with the reason found in
manifest.d/not_applicable.json (or 'check not built yet')."""
import json
from pathlib import Path

V = Path(__file__).resolve().parent.parent
props = [json.loads(l)["id"] for l in (V / "properties.jsonl").read_text().splitlines() if l.strip()]
checks, na = [], []
reasons = json.loads((V / "manifest.d" / "not_applicable.json").read_text()) if (V / "manifest.d" / "not_applicable.json").exists() else {}
enabled = json.loads((V / "manifest.d" / "_enabled.json").read_text())
for p in props:
    f = V / "manifest.d" / f"{p}.json"
    if f.exists() and p in enabled:
        checks.append(json.loads(f.read_text()))
    else:
        na.append({"property_id": p, "reason": reasons.get(p, "check not built yet (work in progress; see DESIGN.md section 7 for the planned model and theorems)")})
base = json.loads((V / "manifest.d" / "_base.json").read_text())
base["checks"] = checks
base["not_applicable"] = na
for e in base.get("engines", []):
    e["serves_properties"] = [c["property_id"] for c in checks]
(V / "MANIFEST.json").write_text(json.dumps(base, indent=1) + "\n")
findings = []
for f in sorted((V / "known.d").glob("C*.json")):
    findings.extend(json.loads(f.read_text())["findings"])
(V / "known_findings.json").write_text(json.dumps({"findings": findings}, indent=1) + "\n")
print(f"{len(checks)} checks, {len(na)} not applicable, {len(findings)} findings")
