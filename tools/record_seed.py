#!/usr/bin/env python3
"""tools/record_seed.py <seed-id> <check> <outcome...> : record in seeded/<id>/meta.json what a check reported on the seeded change"""
import json, sys
from pathlib import Path
d = Path("/verif/seeded") / sys.argv[1]
meta_p = d / "meta.json"
meta = json.loads(meta_p.read_text()) if meta_p.exists() else {}
orig = json.loads((d / "meta.orig.json").read_text()) if (d / "meta.orig.json").exists() else {}
meta.setdefault("property", orig.get("property"))
meta.setdefault("breaks", orig.get("breaks"))
meta.setdefault("needs", orig.get("needs"))
meta.setdefault("files", orig.get("files"))
meta["origin"] = "written by an independent sub-agent given only the property text and a scratch worktree"
if (d / "confirm.json").exists():
    meta["confirmed_by_lead"] = json.loads((d / "confirm.json").read_text())
    meta["what_was_run"] = "tools/confirm_seed.sh: scratch worktree of /repo HEAD; demo.py before the patch (exit 0), after `git apply patch.diff` (exit 1), full pytest suite with the patch (no baseline test fails)"
if len(sys.argv) > 3:
    new = " ".join(sys.argv[3:])
    old = meta.setdefault("checks", {}).get(sys.argv[2])
    if old and old != new:
        meta.setdefault("earlier_results", {}).setdefault(sys.argv[2], []).append(old)
    meta["checks"][sys.argv[2]] = new
meta_p.write_text(json.dumps(meta, indent=1) + "\n")
