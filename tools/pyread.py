#!/usr/bin/env python3
"""Print python sources with docstrings, comments-only and blank lines removed (reading aid)."""
import ast, sys, io, tokenize
def strip(path):
    src = open(path, encoding="utf-8").read()
    try:
        tree = ast.parse(src)
    except SyntaxError:
        return src
    drop = set()
    for node in ast.walk(tree):
        if isinstance(node, (ast.Module, ast.ClassDef, ast.FunctionDef, ast.AsyncFunctionDef)):
            b = node.body
            if b and isinstance(b[0], ast.Expr) and isinstance(getattr(b[0], "value", None), ast.Constant) and isinstance(b[0].value.value, str):
                for l in range(b[0].lineno, b[0].end_lineno + 1):
                    drop.add(l)
    out = []
    for i, line in enumerate(src.split("\n"), 1):
        if i in drop: continue
        s = line.strip()
        if not s or s.startswith("#"): continue
        out.append(f"{i:4d} {line}")
    return "\n".join(out)
for p in sys.argv[1:]:
    print(f"##### {p}")
    print(strip(p))
