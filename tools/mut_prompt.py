#!/usr/bin/env python3
"""print the prompt for a mutation sub-agent: only the property text + its scratch worktree"""
import json, sys
pid, wt = sys.argv[1], sys.argv[2]
n = sys.argv[3] if len(sys.argv) > 3 else "2"
hint = sys.argv[4] if len(sys.argv) > 4 else ""
for l in open("/verif/properties.jsonl"):
    p = json.loads(l)
    if p["id"] == pid:
        break
print(f"""You are helping to evaluate a verification setup by seeding realistic defects into a Python project. You have a private git worktree of the project (thai-lint, a multi-language CLI linter) at {wt}. Work only inside {wt} and /tmp; do NOT read or touch /repo or anything under /verif (the evaluation is only meaningful if your changes are independent of what is there).

Running things: the project's interpreter is /venv/bin/python and the package is installed editable from another directory, so ALWAYS run with the worktree first on the path, e.g.
    cd {wt} && PYTHONPATH={wt} /venv/bin/python -m src.cli_main nesting --format json some/file.py
    cd {wt} && PYTHONPATH={wt} /venv/bin/python demo.py          (API: `from src.api import Linter`, `from src.orchestrator.core import Orchestrator`)
Full test suite (about 3 minutes): cd {wt} && PYTHONPATH={wt} /venv/bin/python -m pytest -q -p no:cacheprovider --timeout=900 2>&1 | tail -15
On the pristine tree exactly these 10 tests fail (docker / environment related) and are to be ignored: tests/integration/test_e2e_docker.py (2 tests), tests/integration/test_real_world.py::TestCLIIntegration::test_cli_help_works, tests/unit/docker/test_docker_integration.py (6 tests), tests/unit/linter_config/test_pyproject_toml.py::TestPyprojectTomlParsing::test_unreadable_file_raises_error. There is no network.

The property that the software is supposed to satisfy ({p['id']}: {p['title']}):
{p['statement']}
It is meant for: {p['quantifier']['text']}

Your task: produce {n} independent changes to the source under src/ (each applied on its own to the pristine tree), each a small, realistic defect a maintainer could plausibly introduce (wrong operator or boundary, a missing or extra entry in a table, a mishandled branch or special case, a stale cache/state, two sites that each look fine alone, an argument mix-up, ...) that BREAKS the property above while the code still imports and every test that passed before still passes. Prefer changes that need something specific to manifest - an unusual input or construct, a particular combination of options, a multi-step sequence of calls, a particular ordering or schedule - over changes that any ordinary use exposes at once. {hint}
For each change i deliver, inside {wt}:
  mutation<i>.diff  - `git diff` of the change against the pristine tree (only files under src/);
  demo<i>.py        - a small self-contained program exercising public behaviour (CLI via subprocess with PYTHONPATH set as above, or the library API) that exits 0 on the pristine tree and exits 1 WITH the change, printing what it observed; it should create its inputs in a temporary directory and must locate the source tree as the directory the script itself lives in (os.path.dirname(os.path.abspath(__file__))), never through a hard-coded path, because it will be re-run from a copy placed in the root of another checkout;
  meta<i>.json      - {{"property": "{p['id']}", "breaks": "<what part of the property fails>", "needs": "<what is needed for it to manifest>", "files": [...]}}.
Verify both directions yourself (apply the diff / `git checkout -- src` to revert) and run the full test suite WITH each change to confirm that no previously passing test fails; leave the worktree pristine (`git checkout -- src`) when you finish, keeping only the mutation/demo/meta files (untracked). In your final answer list for each change: the file(s) touched, the one-line idea, how the demo shows it, and the test-suite tail with the change applied.""")
