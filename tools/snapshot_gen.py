#!/venv/bin/python
# NOTE: must run under the interpreter the checks use (/venv/bin/python): fingerprints hash ast.dump(), which differs between Python versions.
"""Record the generated layer of the unchanged tree under coq/Gen.expected/ (used only to NAME what
changed in reports and to enlarge the correspondence budget when hand-modelled code changed)."""
import json, shutil, sys
from pathlib import Path
V = Path(__file__).resolve().parent.parent
sys.path.insert(0, str(V))
from translator import run as trun
st = trun.generate()
exp = V / "coq" / "Gen.expected"
exp.mkdir(exist_ok=True)
for p in (V / "coq" / "theories" / "Gen").glob("*.v"):
    shutil.copy(p, exp / (p.name + ".txt"))
(exp / "fingerprints.json").write_text(json.dumps(st["fingerprints"], indent=1) + "\n")
bad = {f: {i: s for i, s in d["items"].items() if s != "ok"} for f, d in st["files"].items()}
print({f: b for f, b in bad.items() if b} or "all items ok")
